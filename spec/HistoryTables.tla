---------------------------- MODULE HistoryTables ----------------------------
(* The pooled objects of History / HistoryInd: their fields, what taking one from its pool re-initialises, and what an operation  *)
(* writes before it reads (typed for Apalache; TLC ignores the annotations).                                                     *)
Objects == {"parser", "task", "point"}
ParserFields == {"errs", "parseResult", "injecting", "inject", "lex", "posCache", "yystate"}
TaskFields == {"scopes", "regs", "input", "funcs", "callRef", "brk", "cont", "signal", "exit", "name", "private"}
PointFields == {"measurement", "tags", "fields", "time", "drop", "meta"}
AllFields == ParserFields \union TaskFields \union PointFields

\* @type: Str => Set(Str);
FieldsOf(o) == IF o = "parser" THEN ParserFields ELSE IF o = "task" THEN TaskFields ELSE PointFields
\* what taking the object from its pool (newParser / GetContext+InitCtx / InitPt) re-initialises
\* (PutContext zeroes the whole task, InitCtx sets the rest; InitPt sets every field of the point)
\* @type: Str => Set(Str);
ResetOf(o) == IF o = "parser" THEN {"errs", "parseResult", "injecting", "lex", "posCache"} ELSE FieldsOf(o)
\* fields an operation writes before reading them
\* @type: Str => Set(Str);
WritesFirstOf(o) == IF o = "parser" THEN {"inject", "yystate"} ELSE {}
=============================================================================
