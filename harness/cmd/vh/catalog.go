package main

import (
	"encoding/json"
	"fmt"
	"os"
	"reflect"
	"regexp"
	"strings"
	"time"

	"github.com/DataDog/datadog-agent/pkg/obfuscate"
	"github.com/GuanceCloud/grok"
	"github.com/antchfx/xmlquery"
)

func init() { register("catalog-check", catalogCheck) }

type patStore struct{ m map[string]*grok.GrokPattern }

func (d patStore) GetPattern(n string) (*grok.GrokPattern, bool) { v, ok := d.m[n]; return v, ok }
func (d patStore) SetPattern(n string, p *grok.GrokPattern)      { d.m[n] = p }

// catalog-check <spec/catalogs.json>: every catalog entry against the engine it stands for.
// A mismatch means the CATALOG is wrong (or the engine changed): a framework error, never a property verdict.
func catalogCheck(args []string) (any, error) {
	raw, err := os.ReadFile(args[0])
	if err != nil {
		return nil, err
	}
	var c struct {
		Global []string `json:"global_patterns"`
		Grok   []struct {
			P    string     `json:"p"`
			Env  [][]string `json:"env"`
			S    string     `json:"s"`
			Trim bool       `json:"trim"`
			M    bool       `json:"m"`
			Caps [][]any    `json:"caps"`
		} `json:"grok"`
		Time []struct {
			S, Tz string
			Ok    bool
			Ns    string
			Chk   *struct {
				Civil []int  `json:"civil"`
				Zone  string `json:"zone"`
			} `json:"chk"`
		} `json:"time"`
		XML []struct {
			Doc, Xp string
			Ok      bool
			Out     string
		} `json:"xml"`
		Datetime []struct {
			V, Prec, Fmt string
			Ok           bool
			Out          string
		} `json:"datetime"`
		SQL []struct {
			Q   string
			Ok  bool
			Out string
		} `json:"sql"`
		JSON []struct {
			T  string `json:"t"`
			Ok bool   `json:"ok"`
			D  any    `json:"d"`
		} `json:"json"`
		Regex []struct {
			P, S, R, Out string
			Ok           bool
		} `json:"regex"`
	}
	if err := json.Unmarshal(raw, &c); err != nil {
		return nil, err
	}
	bad := []string{}
	n := 0
	globals := grok.CopyDenormalizedDefalutPatterns()
	for _, g := range c.Global {
		n++
		if _, ok := globals[g]; !ok {
			bad = append(bad, "global pattern "+g+" does not exist")
		}
	}
	for _, g := range c.Grok {
		n++
		st := patStore{map[string]*grok.GrokPattern{}}
		for k, v := range globals {
			st.m[k] = v
		}
		// define the local patterns innermost-dependency first
		for i := len(g.Env) - 1; i >= 0; i-- {
			dp, err := grok.DenormalizePattern(g.Env[i][1], st)
			if err != nil {
				bad = append(bad, fmt.Sprintf("grok env %v: %v", g.Env[i], err))
				continue
			}
			st.SetPattern(g.Env[i][0], dp)
		}
		re, err := grok.CompilePattern(g.P, st)
		if err != nil {
			bad = append(bad, fmt.Sprintf("grok %q: compile: %v", g.P, err))
			continue
		}
		m, _, err := re.RunWithTypeInfo(g.S, g.Trim)
		if (err == nil) != g.M {
			bad = append(bad, fmt.Sprintf("grok %q on %q: match=%v, catalog says %v", g.P, g.S, err == nil, g.M))
			continue
		}
		if g.M {
			want := map[string]any{}
			for _, cp := range g.Caps {
				name, kind := cp[0].(string), cp[1].(string)
				switch kind {
				case "int":
					want[name] = int64(cp[2].(float64))
				case "float":
					var f float64
					fmt.Sscan(cp[2].(string), &f)
					want[name] = f
				default:
					want[name] = cp[2]
				}
			}
			if !reflect.DeepEqual(want, map[string]any(m)) {
				bad = append(bad, fmt.Sprintf("grok %q on %q trim=%v: engine %#v, catalog %#v", g.P, g.S, g.Trim, m, want))
			}
		}
	}
	// time: the epoch of an entry is re-computed with the Go standard library from the civil time and zone the entry states
	// (never with the code under test: pkg/.../funcs/handle.go is part of what C12 is about)
	for _, t := range c.Time {
		n++
		if t.Chk == nil {
			continue
		}
		loc, err := time.LoadLocation(t.Chk.Zone)
		if err != nil || len(t.Chk.Civil) != 6 {
			bad = append(bad, fmt.Sprintf("time %q tz=%q: zone %q / civil time unusable: %v", t.S, t.Tz, t.Chk.Zone, err))
			continue
		}
		cv := t.Chk.Civil
		ns := time.Date(cv[0], time.Month(cv[1]), cv[2], cv[3], cv[4], cv[5], 0, loc).UnixNano()
		if !t.Ok || fmt.Sprint(ns) != t.Ns {
			bad = append(bad, fmt.Sprintf("time %q tz=%q: standard library says %d, catalog ok=%v ns=%s", t.S, t.Tz, ns, t.Ok, t.Ns))
		}
	}
	for _, x := range c.XML {
		n++
		got, ok := "", false
		if doc, err := xmlquery.Parse(strings.NewReader(x.Doc)); err == nil {
			if d, err := xmlquery.Query(doc, x.Xp); err == nil && d != nil {
				got, ok = d.InnerText(), true
			}
		}
		if ok != x.Ok || got != x.Out {
			bad = append(bad, fmt.Sprintf("xml %q %q: engine ok=%v %q, catalog ok=%v %q", x.Doc, x.Xp, ok, got, x.Ok, x.Out))
		}
	}
	stdLayout := map[string]string{"ANSIC": time.ANSIC, "UnixDate": time.UnixDate, "RubyDate": time.RubyDate, "RFC822": time.RFC822,
		"RFC822Z": time.RFC822Z, "RFC850": time.RFC850, "RFC1123": time.RFC1123, "RFC1123Z": time.RFC1123Z, "RFC3339": time.RFC3339,
		"RFC3339Nano": time.RFC3339Nano, "Kitchen": time.Kitchen, "Stamp": time.Stamp, "StampMilli": time.StampMilli,
		"StampMicro": time.StampMicro, "StampNano": time.StampNano}
	unit := map[string]int64{"s": 1e9, "ms": 1e6, "us": 1e3, "ns": 1}
	for _, d := range c.Datetime {
		n++
		var v int64
		fmt.Sscan(d.V, &v)
		lay, okL := stdLayout[d.Fmt]
		u, okU := unit[d.Prec]
		if !d.Ok {
			if okL && okU {
				bad = append(bad, fmt.Sprintf("datetime %v: a known layout and precision cannot be a failure entry", d))
			}
			continue
		}
		if !okL || !okU {
			bad = append(bad, fmt.Sprintf("datetime %v: unknown layout/precision in an ok entry", d))
			continue
		}
		// the instant v units after the epoch, without going through a nanosecond count (v * unit overflows int64 beyond year 2262)
		perSec := int64(1e9) / u
		sec, rem := v/perSec, v%perSec
		if rem < 0 {
			sec, rem = sec-1, rem+perSec
		}
		if got := time.Unix(sec, rem*u).UTC().Format(lay); got != d.Out {
			bad = append(bad, fmt.Sprintf("datetime %v: standard library %q, catalog %q", d, got, d.Out))
		}
	}
	for _, x := range c.JSON {
		n++
		var got any
		err := json.Unmarshal([]byte(x.T), &got)
		if (err == nil) != x.Ok {
			bad = append(bad, fmt.Sprintf("json %q: decodes=%v, catalog ok=%v", x.T, err == nil, x.Ok))
			continue
		}
		if err == nil && !reflect.DeepEqual(got, x.D) {
			bad = append(bad, fmt.Sprintf("json %q: engine %#v, catalog %#v", x.T, got, x.D))
		}
	}
	for _, x := range c.Regex {
		n++
		re, err := regexp.Compile(x.P)
		if (err == nil) != x.Ok {
			bad = append(bad, fmt.Sprintf("regex %q: compiles=%v, catalog ok=%v", x.P, err == nil, x.Ok))
			continue
		}
		if err == nil {
			if got := re.ReplaceAllString(x.S, x.R); got != x.Out {
				bad = append(bad, fmt.Sprintf("regex %q on %q with %q: engine %q, catalog %q", x.P, x.S, x.R, got, x.Out))
			}
		}
	}
	for _, q := range c.SQL {
		n++
		// a fresh obfuscator per entry: the engine remembers how it last read backslashes in string literals, and the reference
		// meaning of sql_cover is that of a fresh engine on every call
		o := obfuscate.NewObfuscator(obfuscate.Config{})
		r, err := o.ObfuscateSQLString(q.Q)
		got := ""
		if err == nil {
			got = r.Query
		}
		if (err == nil) != q.Ok || got != q.Out {
			bad = append(bad, fmt.Sprintf("sql %q: engine %q err=%v, catalog ok=%v %q", q.Q, got, err, q.Ok, q.Out))
		}
	}
	// the catalogs inside PlExpr.tla (JSON texts, regular expressions) are checked by their own entries here
	for _, e := range [][]string{{"a+", "caat", "X", "cXt"}, {"a+", "xy", "X", "xy"}, {"a+", "", "X", ""}, {`(\d+)-(\d+)`, "12-34", "$2-$1", "34-12"}, {"a+", "7", "X", "7"}} {
		n++
		re, err := regexp.Compile(e[0])
		if err != nil || re.ReplaceAllString(e[1], e[2]) != e[3] {
			bad = append(bad, fmt.Sprintf("regexp %v", e))
		}
	}
	if _, err := regexp.Compile("("); err == nil {
		bad = append(bad, "regexp ( compiles")
	}
	for _, j := range [][]string{{`1`, "ok"}, {`"s"`, "ok"}, {`[1,"a",null]`, "ok"}, {`{"a":{"b":[true]}}`, "ok"}, {`null`, "ok"}, {`true`, "ok"}, {`nul`, "bad"}, {``, "bad"}, {`{`, "bad"}, {`[1,]`, "bad"}} {
		n++
		var v any
		err := json.Unmarshal([]byte(j[0]), &v)
		if (err == nil) != (j[1] == "ok") {
			bad = append(bad, "json "+j[0])
		}
	}
	return map[string]any{"entries": n, "bad": bad}, nil
}
