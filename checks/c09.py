"""C09 — use() linking accepts exactly the acyclic, fully resolvable script sets."""
import os

from lib import vlib
from checks.common import absorb, replay, tlc_emit, validate_traces

LEVEL = "model_checking"

INV = "INVARIANTS PathMatchesStack RetSound BindCorrect BoundToLoadedSet OrderIndependent ChainShape"


def run(ck):
    q = ck.tier == "quick"
    # S: all script sets x all visit orders, exhaustively (3 scripts: 12 167 sets)
    if q:
        cfgs = [('{"a","b","c"}', 2)]
    else:
        cfgs = [('{"a","b","c"}', 3), ('{"a","b","c","d"}', 1)]
    for scripts, mc in cfgs:
        cfg = ("CONSTANTS Scripts = %s\nMissing = \"zz\"\nMaxCalls = %d\nRelink = FALSE\nSPECIFICATION Spec\n%s Emit\n"
               "CHECK_DEADLOCK FALSE\n") % (scripts, mc, INV)
        res, rows = tlc_emit(ck, "Loader", cfg, "Loader(%s,calls<=%d)" % (scripts, mc), timeout=1700, xmx="24g")
        r = replay(ck, "replay-loader", rows, "loader-sets")
        ck.note("orders_wanted", r["extra"]["orders_wanted"])
        ck.note("orders_observed", r["extra"]["orders_observed"])
        if r["extra"]["orders_observed"] < 0.9 * r["extra"]["orders_wanted"]:
            raise vlib.Broken("could not steer Go's map iteration to the wanted visit orders (%s of %s)"
                              % (r["extra"]["orders_observed"], r["extra"]["orders_wanted"]))
    # a hot reload: the scripts carry the bindings of an earlier load; after linking, every call of an accepted script is bound into this set
    cfg = ("CONSTANTS Scripts = {\"a\",\"b\",\"c\"}\nMissing = \"zz\"\nMaxCalls = %d\nRelink = TRUE\nSPECIFICATION Spec\n%s\n"
           "CHECK_DEADLOCK FALSE\n") % (1 if q else 2, INV)
    res = vlib.tlc("Loader", cfg, timeout=1700, xmx="24g")
    vlib.tlc_must_pass(res, "Loader relink")
    ck.add_tlc(res, "Loader(3 scripts, stale bindings from an earlier load)")
    # liveness of the model on a small instance (no state constraint)
    cfg = ("CONSTANTS Scripts = {\"a\",\"b\"}\nMissing = \"zz\"\nMaxCalls = 2\nRelink = FALSE\nSPECIFICATION FairSpec\n%s\n"
           "PROPERTY Terminates\nCHECK_DEADLOCK FALSE\n") % INV
    res = vlib.tlc("Loader", cfg, workers=4, timeout=600)
    vlib.tlc_must_pass(res, "Loader termination")
    ck.add_tlc(res, "Loader(2 scripts) liveness")
    # I->S: larger random sets, hook events validated step by step against the spec
    d = vlib.workdir("rec")
    tr = os.path.join(d, "loader.ndjson")
    total = 0
    for (k, c, n) in ([(4, 3, 150), (6, 3, 150)] if q else [(4, 3, 1500), (5, 3, 1500), (6, 3, 2000)]):
        r = vlib.vh_json(["record-loader", "-seed", str(ck.seed * 7919 + k), "-n", str(n), "-scripts", str(k),
                          "-calls", str(c), "-out", tr])
        absorb(ck, r, "loader-record(%d scripts)" % k)
        tcfg = ("CONSTANTS Scripts = {\"a\",\"b\",\"c\",\"d\",\"e\",\"f\"}\nMissing = \"zz\"\nMaxCalls = 3\nRelink = FALSE\n"
                "SPECIFICATION TraceSpec\n%s\nCONSTRAINT HighWater\nPOSTCONDITION Accepted\nCHECK_DEADLOCK FALSE\n") % INV
        total += validate_traces(ck, "TraceLoader", tcfg, tr, "loader-%d" % k, lambda rec: rec["ev"] == "config")
    ck.cov["rule"] = ("S->I: every (script set, visit order) state explored by TLC (all sets of 3 scripts, <=2 (quick) / "
                      "<=3 (thorough) use calls each, and in the thorough tier all sets of 4 scripts with <=1 call each; "
                      "valid/unparsable/check-failing, missing targets) is loaded through "
                      "engine.ParseScript with the visit order observed via the hook; distinct_nontrivial counts sets with "
                      ">=2 link roots. I->S: hook traces of random sets of 4-6 scripts validated by TLC against TraceLoader.")
    ck.assumptions += ["Go map iteration order is observed through the visit hook, not assumed",
                       "script sets beyond 3 scripts are covered by sampled trace validation only"]
