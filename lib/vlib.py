"""Shared machinery for the platypus model-based checks.

Every check is:  TLC on an explicit TLA+ spec  ->  vectors / behaviours / trace verdicts,
bound to the real code through the Go harness `vh` (built from /repo's working tree, -tags verif).
Exit codes: 0 property held on everything explored (KNOWN-FINDING lines allowed),
            1 VIOLATION (behaviour of the real code the spec does not allow, reproduced),
            2 check broken / inconclusive (never a verdict).
"""
import atexit
import hashlib
import json
import os
import re
import shutil
import subprocess
import sys
import time

VERIF = os.path.dirname(os.path.dirname(os.path.abspath(__file__)))
REPO = os.environ.get("VERIF_REPO", "/repo")
WORK = os.path.join(VERIF, ".work", "p%d" % os.getpid())
GEN = os.path.join(VERIF, "gen")
SPEC = os.path.join(VERIF, "spec")
OUT = os.path.join(VERIF, "out")
JAVA_CP = "/opt/veriftools/tla/tla2tools.jar:/opt/veriftools/tla/CommunityModules-deps.jar"
NCPU = os.cpu_count() or 4


class Broken(Exception):
    """The check itself could not run to a verdict (exit 2)."""


def _cleanup():
    shutil.rmtree(WORK, ignore_errors=True)


def workdir(name=""):
    os.makedirs(WORK, exist_ok=True)
    atexit.register(_cleanup)
    if name:
        p = os.path.join(WORK, name)
        os.makedirs(p, exist_ok=True)
        return p
    return WORK


def goenv():
    e = dict(os.environ)
    e.update(GOFLAGS="-mod=mod", GOPROXY="off", GOSUMDB="off", GOTOOLCHAIN="local",
             CGO_ENABLED=e.get("CGO_ENABLED", "0"))
    return e


_built = {}


def build_harness(race=False):
    """Build the harness against /repo's *current working tree* with the verif hooks on."""
    key = "race" if race else "plain"
    if key in _built:
        return _built[key]
    h = os.path.join(VERIF, "harness")
    if REPO != "/repo":
        # development aid (VERIF_REPO, never set by registered commands): judge a scratch clone - e.g. one carrying a seeded change -
        # while /repo itself stays untouched: the harness is copied and its replace directive pointed at the clone
        h2 = os.path.join(workdir("harness-src"), "h")
        if not os.path.isdir(h2):
            shutil.copytree(h, h2)
            gm = open(os.path.join(h2, "go.mod")).read().replace("=> /repo", "=> " + REPO)
            open(os.path.join(h2, "go.mod"), "w").write(gm)
        h = h2
    shutil.copyfile(os.path.join(REPO, "go.sum"), os.path.join(h, "go.sum"))
    out = os.path.join(workdir("bin"), "vh-" + key)
    env = goenv()
    cmd = ["go", "build", "-tags", "verif", "-o", out]
    if race:
        env["CGO_ENABLED"] = "1"
        cmd.append("-race")
    if os.environ.get("VERIF_COVER"):
        # development aid (not used by registered commands): statement coverage of /repo under the checks;
        # run with GOCOVERDIR set, then `go tool covdata textfmt`
        cmd += ["-cover", "-coverpkg=github.com/GuanceCloud/platypus/...,verifh/..."]
    cmd.append("./cmd/vh")
    t0 = time.time()
    r = subprocess.run(cmd, cwd=h, env=env, capture_output=True, text=True)
    if r.returncode != 0:
        # A tree that does not compile is not a verdict about the property.
        raise Broken("harness build failed (does /repo compile?):\n" + r.stdout + r.stderr)
    _built[key] = out
    log("built harness (%s) in %.1fs" % (key, time.time() - t0))
    return out


def build_cli():
    out = os.path.join(workdir("bin"), "platypus")
    r = subprocess.run(["go", "build", "-o", out, "./cmd/platypus"], cwd=REPO, env=goenv(),
                       capture_output=True, text=True)
    if r.returncode != 0:
        raise Broken("cli build failed:\n" + r.stdout + r.stderr)
    return out


def log(*a):
    print("[vp]", *a, file=sys.stderr, flush=True)


def vh(args, stdin=None, race=False, timeout=1800, env=None, check=True):
    """Run the harness; returns (rc, stdout, stderr)."""
    exe = build_harness(race)
    e = goenv()
    e["TZ"] = "UTC"
    if env:
        e.update(env)
    try:
        r = subprocess.run([exe] + list(args), input=stdin, capture_output=True, text=True,
                           timeout=timeout, env=e)
    except subprocess.TimeoutExpired:
        raise Broken("harness timed out: vh " + " ".join(args[:3]))
    if check and r.returncode not in (0,):
        raise Broken("harness vh %s exited %d:\n%s" % (" ".join(args[:4]), r.returncode, r.stderr[-4000:]))
    return r.returncode, r.stdout, r.stderr


def crash_in_code_under_test(stderr):
    """The Go runtime killed the harness with an unrecoverable error (stack overflow from unbounded recursion, concurrent map
    access, ...) or an uncaught panic, and the innermost frame of the faulting goroutine that is not library code (Go runtime,
    standard library, third-party packages) belongs to the code under test, not to the harness: returns
    (message, frame), else None.  Such a death while replaying a specified behaviour is a disagreement, not a broken driver."""
    m = re.search(r"^(fatal error: .*|panic: .*)$", stderr, flags=re.M)
    if not m:
        return None
    tail = stderr[m.end():]
    g = re.search(r"^goroutine \d+ .*\[running\]:\n", tail, flags=re.M)
    if not g:
        return None
    for ln in tail[g.end():].splitlines():
        if not ln or ln.startswith(("\t", " ")):
            continue
        if ln.startswith(("goroutine ", "created by ")):
            return None                                 # end of the faulting goroutine's stack
        if ln.startswith("github.com/GuanceCloud/platypus/"):
            return m.group(1)[:200], ln.rsplit("(", 1)[0]
        if ln.startswith(("main.", "verifh/", "verifh.")):
            return None                                 # the harness's own code is the innermost non-library frame
        # runtime, standard library and third-party library frames: called by whoever is below them
    return None


def vh_json(args, **kw):
    kw2 = dict(kw)
    kw2["check"] = False
    rc, out, err = vh(args, **kw2)
    if rc != 0:
        crash = crash_in_code_under_test(err)
        if crash:
            msg, frame = crash
            return {"evaluations": 1, "distinct": 0, "samples": [{"crashed_in": frame}], "extra": {"aborted_by_crash": True},
                    "mismatches": [{"sig": "crash:%s:%s" % (msg, frame), "vec": None,
                                    "detail": {"crash": msg, "frame": frame, "stderr": err[-5000:],
                                               "note": "the code under test brought the process down while a specified behaviour was "
                                                       "replayed; the rest of this stage was not run"}}]}
        if kw.get("check", True):
            raise Broken("harness vh %s exited %d:\n%s" % (" ".join(args[:4]), rc, err[-4000:]))
    try:
        return json.loads(out)
    except Exception:
        raise Broken("harness output not JSON: vh %s\n%s\n%s" % (" ".join(args[:4]), out[-2000:], err[-2000:]))


# --------------------------------------------------------------------------------------------
# Apalache (inductive invariants: unbounded safety of small typed specifications)

def apalache_inductive(module, init="Init", ind_init="IndInit", inv="IndInv", timeout=600):
    """Init => Inv (length 0) and IndInit /\\ Next => Inv' (length 1) with Apalache, in a scratch copy of spec/.
    Returns {"base": secs, "step": secs}; raises Broken when Apalache fails or reports a counterexample (the committed
    specification is then wrong: a framework error, never a verdict about the code)."""
    _TLC_N[0] += 1
    d = workdir("apa%d" % _TLC_N[0])
    for f in os.listdir(SPEC):
        if f.endswith(".tla"):
            shutil.copyfile(os.path.join(SPEC, f), os.path.join(d, f))
    res = {}
    for label, args in (("base", ["--init=" + init, "--inv=" + inv, "--length=0"]),
                        ("step", ["--init=" + ind_init, "--inv=" + inv, "--length=1"])):
        t0 = time.time()
        try:
            r = subprocess.run(["apalache-mc", "check", "--out-dir=" + os.path.join(d, "out")] + args + [module + ".tla"], cwd=d,
                               capture_output=True, text=True, timeout=timeout)
        except subprocess.TimeoutExpired:
            raise Broken("Apalache timed out on %s (%s)" % (module, label))
        out = r.stdout + r.stderr
        if "EXITCODE: OK" not in out:
            raise Broken("Apalache did not establish the %s case of %s!%s:\n%s" % (label, module, inv, out[-3000:]))
        res[label] = round(time.time() - t0, 1)
    return res


def tlapm_prove(module, timeout=900):
    """Machine-check the proofs of spec/<module>.tla with the TLA+ proof system, in a scratch copy of spec/.
    Returns {"obligations": n, "wall_s": secs}; raises Broken unless every obligation is proved (a proof about the committed
    specification that does not go through is a framework matter, never a verdict about the code)."""
    _TLC_N[0] += 1
    d = workdir("tlapm%d" % _TLC_N[0])
    for f in os.listdir(SPEC):
        if f.endswith(".tla"):
            shutil.copyfile(os.path.join(SPEC, f), os.path.join(d, f))
    # proof modules live in spec/proofs (they EXTEND TLAPS, which SANY's standard library lacks; tlapm brings its own)
    shutil.copyfile(os.path.join(SPEC, "proofs", module + ".tla"), os.path.join(d, module + ".tla"))
    t0 = time.time()
    try:
        r = subprocess.run(["tlapm", "--threads", str(min(NCPU, 8)), "--cleanfp", module + ".tla"], cwd=d, capture_output=True, text=True, timeout=timeout)
    except subprocess.TimeoutExpired:
        raise Broken("tlapm timed out on %s" % module)
    out = r.stdout + r.stderr
    m = re.search(r"All (\d+) obligations? proved", out)
    if not m:
        raise Broken("tlapm did not prove every obligation of %s:\n%s" % (module, out[-3000:]))
    return {"obligations": int(m.group(1)), "wall_s": round(time.time() - t0, 1)}


# --------------------------------------------------------------------------------------------
# TLC

_TLC_N = [0]


class TlcResult:
    def __init__(self, rc, out, wall):
        self.rc, self.out, self.wall = rc, out, wall
        m = re.findall(r"(\d+) states generated, (\d+) distinct states found", out)
        self.generated = int(m[-1][0]) if m else 0
        self.distinct = int(m[-1][1]) if m else 0
        m = re.search(r"depth of the complete state graph search is (\d+)", out)
        self.depth = int(m.group(1)) if m else 0
        self.ok = ("Model checking completed. No error has been found." in out) or \
                  (rc == 0 and "Finished in" in out and "Error:" not in out)
        self.invariant = None
        m = re.search(r"Invariant (\S+) is violated", out)
        if m:
            self.invariant = m.group(1)
        m = re.search(r"Action property (\S+) is violated", out)
        if m:
            self.invariant = m.group(1)
        if "Temporal properties were violated" in out:
            self.invariant = self.invariant or "temporal"
        self.deadlock = "Deadlock reached" in out

    def emitted(self):
        """Records printed by the spec with PrintT("@@" \\o ToJson(rec)) (TLC prints a JSON string literal)."""
        rows = []
        for l in self.out.splitlines():
            if l.startswith('"@@'):
                rows.append(json.loads(json.loads(l)[2:]))
        return rows

    def coverage_zero(self):
        """Names of spec expressions/actions TLC never evaluated (needs -coverage 1)."""
        z = []
        for l in self.out.splitlines():
            m = re.match(r"^<(\w+) line .* of module (\w+)>: 0:0", l)
            if m:
                z.append(m.group(2) + "!" + m.group(1))
        return z


def tlc(module, cfg, workers=None, timeout=900, extra=(), env=None, xmx="12g", deadlock=None,
        files=None, simulate=None, depth=None, seed=None, coverage=False, keep=False):
    """Run TLC on spec/<module>.tla with the config text `cfg` in a scratch copy of spec/.

    Never raises on a property violation (the caller decides what a model-level counterexample means:
    for a committed spec it is a framework error, exit 2); raises Broken on JVM/SANY trouble.
    """
    _TLC_N[0] += 1
    d = workdir("tlc%d" % _TLC_N[0])
    for f in os.listdir(SPEC):
        if f.endswith(".tla"):
            shutil.copyfile(os.path.join(SPEC, f), os.path.join(d, f))
    for name, text in (files or {}).items():
        with open(os.path.join(d, name), "w") as fh:
            fh.write(text)
    with open(os.path.join(d, module + ".cfg"), "w") as fh:
        fh.write(cfg)
    cmd = ["java", "-Xss512m", "-Xmx" + xmx, "-XX:+UseParallelGC", "-cp", JAVA_CP, "tlc2.TLC",
           "-metadir", os.path.join(d, "meta"), "-config", module + ".cfg"]
    if simulate:
        cmd += ["-simulate", simulate]
        if depth:
            cmd += ["-depth", str(depth)]
    if seed is not None:
        cmd += ["-seed", str(seed)]
    cmd += ["-workers", str(workers or 1)]
    if deadlock is False:
        cmd += ["-deadlock"]  # '-deadlock' switches deadlock checking OFF
    if coverage:
        cmd += ["-coverage", "1"]
    cmd += list(extra) + [module + ".tla"]
    e = dict(os.environ)
    if env:
        e.update(env)
    t0 = time.time()
    try:
        r = subprocess.run(cmd, cwd=d, capture_output=True, text=True, timeout=timeout, env=e)
    except subprocess.TimeoutExpired:
        raise Broken("TLC timed out after %ds on %s" % (timeout, module))
    wall = time.time() - t0
    out = r.stdout + r.stderr
    if "java.lang.OutOfMemoryError" in out or "StackOverflowError" in out:
        raise Broken("TLC ran out of memory/stack on %s:\n%s" % (module, out[-3000:]))
    if "Parsing or semantic analysis failed" in out or "*** Errors:" in out or "Could not find module" in out \
            or "Semantic errors" in out:
        raise Broken("SANY error in %s:\n%s" % (module, out[-4000:]))
    res = TlcResult(r.returncode, out, wall)
    res.dir = d
    if not keep and False:
        shutil.rmtree(d, ignore_errors=True)
    return res


def tlc_must_pass(res, what):
    """A counterexample inside the committed specification is a framework bug, never a verdict."""
    if not res.ok or res.invariant or res.deadlock:
        raise Broken("TLC did not verify %s (a model-level counterexample cannot be caused by /repo):\n%s"
                     % (what, res.out[-6000:]))
    return res


def spec_hash(names, extra=""):
    h = hashlib.sha256()
    for n in sorted(names):
        with open(os.path.join(SPEC, n), "rb") as fh:
            h.update(n.encode() + b"\0" + fh.read())
    h.update(extra.encode())
    return h.hexdigest()[:16]


def cached_gen(name, deps, extra, produce):
    """gen/<name>-<hash>.* : TLC-side artefacts depend only on spec files, never on /repo."""
    os.makedirs(GEN, exist_ok=True)
    tag = spec_hash(deps, extra)
    path = os.path.join(GEN, "%s-%s.ndjson" % (name, tag))
    meta = path + ".meta"
    if os.path.exists(path) and os.path.exists(meta):
        return path, json.load(open(meta))
    for f in os.listdir(GEN):
        if f.startswith(name + "-"):
            os.remove(os.path.join(GEN, f))
    tmp = path + ".tmp"
    info = produce(tmp)
    os.replace(tmp, path)
    json.dump(info, open(meta, "w"))
    return path, info


# --------------------------------------------------------------------------------------------
# verdicts, evidence, known findings

def load_known():
    p = os.path.join(VERIF, "known_findings.json")
    if not os.path.exists(p):
        return {"known": [], "fixed": []}
    return json.load(open(p))


class Check:
    def __init__(self, pid, tier, level):
        self.pid, self.tier, self.level = pid, tier, level
        self.seed = int(os.environ.get("VERIF_SEED", "1") or "1")
        self.t0 = time.time()
        self.cov = {"samples": []}
        self.assumptions = []
        self.violations = []
        self.known_hits = []
        self.known = [k for k in load_known().get("known", []) if k.get("property") == pid]
        os.makedirs(OUT, exist_ok=True)

    # coverage helpers
    def add(self, key, n):
        self.cov[key] = self.cov.get(key, 0) + int(n)

    def sample(self, s, cap=6):
        if len(self.cov["samples"]) < cap:
            self.cov["samples"].append(s)

    def note(self, key, val):
        self.cov[key] = val

    def add_tlc(self, res, label):
        self.add("states", res.distinct)
        self.add("transitions", res.generated)
        self.cov.setdefault("tlc_runs", []).append(
            {"model": label, "distinct": res.distinct, "generated": res.generated, "depth": res.depth,
             "wall_s": round(res.wall, 1)})

    def known_match(self, sig):
        for k in self.known:
            if k.get("signature") == sig:
                return k
        return None

    def disagreement(self, sig, detail):
        """A reproduced behaviour of the real code that the spec does not allow.
        `sig` identifies the specific failing input/call site (stable across runs)."""
        k = self.known_match(sig)
        if k is not None:
            if k["id"] not in [h["id"] for h in self.known_hits]:
                self.known_hits.append(k)
            return
        self.violations.append({"signature": sig, "detail": detail})

    def finish(self):
        wall = time.time() - self.t0
        cov = self.cov
        if self.level == "model_checking":
            cov.setdefault("states", 0)
            cov.setdefault("transitions", 0)
            cov.setdefault("traces_validated_against_impl", 0)
        cov.setdefault("evaluations", 0)
        cov.setdefault("distinct_nontrivial", 0)
        if not cov["samples"] and self.violations:
            cov["samples"].append({"note": "the check stopped at its first violations", "first": self.violations[0]["signature"][:200]})
        if not cov["samples"]:
            raise Broken("no samples recorded")
        ev = {"property_id": self.pid, "tier": self.tier, "seed": self.seed, "level": self.level,
              "coverage": cov, "assumptions": self.assumptions, "wall_s": round(wall, 2),
              "violations": len(self.violations)}
        os.makedirs(os.path.join(VERIF, "evidence"), exist_ok=True)
        with open(os.path.join(VERIF, "evidence", self.pid + ".json"), "w") as fh:
            json.dump(ev, fh, indent=1, sort_keys=True)
        for k in self.known_hits:
            print("KNOWN-FINDING: property=%s %s" % (self.pid, k["what"]))
        if self.violations:
            for i, v in enumerate(self.violations[:20]):
                path = os.path.join(OUT, "%s-%s-%d.json" % (self.pid, self.tier, i))
                with open(path, "w") as fh:
                    json.dump({"property": self.pid, **v}, fh, indent=1)
                print("VIOLATION property=%s replay=%s" % (self.pid, path))
                log(json.dumps(v)[:1500])
            return 1
        log("%s %s: ok, %.1fs, evaluations=%s states=%s" % (self.pid, self.tier, wall,
                                                           cov.get("evaluations"), cov.get("states")))
        return 0


def read_ndjson(path):
    out = []
    with open(path) as fh:
        for line in fh:
            line = line.strip()
            if line:
                out.append(json.loads(line))
    return out


def write_ndjson(path, rows):
    with open(path, "w") as fh:
        for r in rows:
            fh.write(json.dumps(r, separators=(",", ":")) + "\n")


def run_main(fn):
    try:
        rc = fn()
    except Broken as e:
        log("CHECK BROKEN (exit 2):", e)
        sys.exit(2)
    sys.exit(rc)
