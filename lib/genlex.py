"""Inputs for the lexer trace validation (C05): all byte strings up to a length over an alphabet of byte classes."""
import itertools

ALPHA = [b"a", b"1", b"0", b"x", b"e", b".", b'"', b"'", b"`", b"\\", b"\n", b" ", b"#", b"(", b")", b"[", b"]", b"{", b"}", b"+", b"-",
         b"=", b"!", b"<", b"&", b"|", b",", b":", b";", b"*", "é".encode(), b"\xff", b"\t", b"/", b"%", b">", b"_", b"\x00"]
# multi-byte and control classes: Unicode blanks (NBSP, ideographic space, line separator, NEL), a Unicode digit, the byte-order
# mark, U+FFFD, a 4-byte rune, other ASCII controls
UNI = ["\u00a0".encode(), "\u3000".encode(), "\u2028".encode(), "\u0085".encode(), "\u0663".encode(), "\ufeff".encode(),
       "\ufffd".encode(), "\U0001f600".encode(), "\u4e16".encode(), b"\r", b"\v", b"\f", b"\x7f", b"\x80", b"\xc2"]


def gen_inputs(maxlen, alpha=None):
    alpha = alpha or ALPHA
    for k in range(0, maxlen + 1):
        for combo in itertools.product(alpha, repeat=k):
            yield {"s": list(b"".join(combo))}
