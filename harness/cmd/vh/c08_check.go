package main

import (
	"encoding/json"
	"fmt"
	plruntime "github.com/GuanceCloud/platypus/pkg/engine/runtime"

	"github.com/GuanceCloud/platypus/pkg/engine"
	"github.com/GuanceCloud/platypus/pkg/errchain"
	"github.com/GuanceCloud/platypus/pkg/parser"
)

func init() { register("replay-check", replayCheck) }

// replay-check <progsets.ndjson> <verdicts.ndjson>: every program is loaded by the real check pass of its
// interpreter (with the registered function table minus "without"); the verdict must equal the spec's
// and a rejection must point inside the offending construct.
func replayCheck(args []string) (any, error) {
	progs := map[string]*progSet{}
	if err := readNDJSON(args[0], func(raw json.RawMessage) error {
		ps := &progSet{}
		if err := json.Unmarshal(raw, ps); err != nil {
			return err
		}
		progs[ps.ID] = ps
		return nil
	}); err != nil {
		return nil, err
	}
	sum := &Summary{}
	err := readNDJSON(args[1], func(raw json.RawMessage) error {
		var v struct {
			ID     string `json:"id"`
			Accept bool   `json:"accept"`
			Nid    int    `json:"nid"`
		}
		if err := json.Unmarshal(raw, &v); err != nil {
			return err
		}
		ps := progs[v.ID]
		if ps == nil {
			return fmt.Errorf("unknown program %s", v.ID)
		}
		sum.Evaluations++
		sum.Distinct++
		text := ps.Scripts[ps.Main]
		disturbChecker()
		var lerr error
		if ps.V2 {
			tbl := v2Table(&runObs{})
			for _, w := range ps.Without {
				delete(tbl, w)
			}
			_, lerr = engine.ParseV2(ps.Main, text, tbl)
		} else {
			call, check := v1Tables(&runObs{})
			for _, w := range ps.Without {
				delete(call, w)
				delete(check, w)
			}
			for _, w := range ps.WithoutCall {
				delete(call, w)
			}
			for _, w := range ps.WithoutCheck {
				delete(check, w)
			}
			_, errs := engine.ParseScript(map[string]string{ps.Main: text}, call, check)
			lerr = errs[ps.Main]
		}
		sig := fmt.Sprintf("check:v2=%v:%s", ps.V2, text)
		detail := map[string]any{"script": text, "v2": ps.V2, "without": ps.Without, "without_call": ps.WithoutCall, "without_check": ps.WithoutCheck, "want_accept": v.Accept, "tag": ps.Tag}
		if (lerr == nil) != v.Accept {
			detail["load_error"] = fmt.Sprint(lerr)
			sum.miss(sig, detail)
			return nil
		}
		// the verdict belongs to the script, not to the attempt: a host that keeps the parsed script and checks it again (after
		// changing its function table, or on a retry) gets the same verdict again
		if !ps.V2 {
			if ss, perr := parser.ParsePipeline(ps.Main, text); perr == nil {
				call, check := v1Tables(&runObs{})
				for _, w := range append(append([]string{}, ps.Without...), ps.WithoutCall...) {
					delete(call, w)
				}
				for _, w := range append(append([]string{}, ps.Without...), ps.WithoutCheck...) {
					delete(check, w)
				}
				sc := &plruntime.Script{FuncCall: call, Name: ps.Main, Content: text, Ast: ss}
				for attempt := 1; attempt <= 3; attempt++ {
					var e error
					if pe := sc.Check(check); pe != nil {
						e = pe
					}
					if (e == nil) != v.Accept {
						detail["problem"] = fmt.Sprintf("check number %d of the same parsed script: %v", attempt, e)
						sum.miss(sig+":recheck", detail)
						return nil
					}
				}
			}
		}
		if lerr != nil {
			pe, ok := lerr.(*errchain.PlError)
			if !ok || len(pe.PosChain) == 0 {
				detail["problem"] = fmt.Sprintf("load error is %T without a position chain", lerr)
				sum.miss(sig, detail)
				return nil
			}
			disturbParser()
			ss, perr := parser.ParsePipeline(ps.Main, text)
			if perr != nil {
				return fmt.Errorf("spec judged a program that does not parse: %s", text)
			}
			_, _, nids := convScriptN(text, ss)
			sp := nids[v.Nid]
			p0 := pe.PosChain[0]
			if p0.File != ps.Main || p0.Pos < sp.Start || p0.Pos >= sp.End {
				detail["problem"] = fmt.Sprintf("error %q points at %d, the offending construct spans [%d,%d) %q", pe.Error(), p0.Pos,
					sp.Start, sp.End, text[sp.Start:min(sp.End, len(text))])
				sum.miss(sig, detail)
			}
		}
		sum.sample(map[string]any{"script": text, "accept": v.Accept, "v2": ps.V2})
		return nil
	})
	return sum, err
}
