------------------------------ MODULE ErrChain ------------------------------
(* Error chains (C17, C09, C13): a non-empty sequence of positions with a   *)
(* message; ChainAppend, Copy, rendering, and copy-independence.            *)
(* Field names are the JSON field names of errchain.PlError so that ToJson  *)
(* of a spec chain is the expected JSON document.                           *)
EXTENDS Integers, Sequences, TLC, Json

CONSTANT MaxOps
Files == {"a.p", "lib/b.ppl"}
Poss == {<<0, 1, 1>>, <<17, 3, 4>>}   \* <<pos, ln, col>>

VARIABLES orig, copy, hasCopy, ops
vars == <<orig, copy, hasCopy, ops>>

P(f, p) == [file |-> f, ln |-> p[2], col |-> p[3], pos |-> p[1]]
NewErr(f, p, msg) == [pos_chain |-> <<P(f, p)>>, error |-> msg]
ChainAppend(e, f, p) == [e EXCEPT !.pos_chain = Append(@, P(f, p))]

Loc(q) == q.file \o ":" \o ToString(q.ln) \o ":" \o ToString(q.col) \o ":"
RECURSIVE Outer(_, _)
Outer(ch, i) == IF i > Len(ch) THEN "" ELSE "\n" \o Loc(ch[i]) \o Outer(ch, i + 1)
Render(e) == IF Len(e.pos_chain) = 0 THEN ""
             ELSE Loc(e.pos_chain[1]) \o " " \o e.error \o Outer(e.pos_chain, 2)

\* messages are arbitrary text: they may contain what looks like formatting directives (a modulo operator, a percentage)
Msgs == {"boom", "bad operand for %: 100% of %d %s %v"}
Init == /\ \E f \in Files, p \in Poss, msg \in Msgs : orig = NewErr(f, p, msg)
        /\ copy = orig /\ hasCopy = FALSE
        /\ ops = <<[op |-> "new", file |-> orig.pos_chain[1].file, msg |-> orig.error,
                    p |-> <<orig.pos_chain[1].pos, orig.pos_chain[1].ln, orig.pos_chain[1].col>>]>>

AppendOrig(f, p) == /\ orig' = ChainAppend(orig, f, p)
                    /\ ops' = Append(ops, [op |-> "appendOrig", file |-> f, msg |-> "", p |-> p])
                    /\ UNCHANGED <<copy, hasCopy>>
MakeCopy == /\ ~hasCopy
            /\ copy' = orig /\ hasCopy' = TRUE
            /\ ops' = Append(ops, [op |-> "copy", file |-> "", msg |-> "", p |-> <<0, 0, 0>>])
            /\ UNCHANGED orig
AppendCopy(f, p) == /\ hasCopy
                    /\ copy' = ChainAppend(copy, f, p)
                    /\ ops' = Append(ops, [op |-> "appendCopy", file |-> f, msg |-> "", p |-> p])
                    /\ UNCHANGED <<orig, hasCopy>>

Next == /\ Len(ops) < MaxOps
        /\ \/ \E f \in Files, p \in Poss : AppendOrig(f, p) \/ AppendCopy(f, p)
           \/ MakeCopy
Spec == Init /\ [][Next]_vars

NonEmpty == Len(orig.pos_chain) >= 1 /\ Len(copy.pos_chain) >= 1
CopyIndependent == [][(\E f \in Files, p \in Poss : AppendCopy(f, p)) => orig' = orig]_vars
OrigIndependent == [][(hasCopy /\ \E f \in Files, p \in Poss : AppendOrig(f, p)) => copy' = copy]_vars
InnermostFirst == orig.pos_chain[1] = P(ops[1].file, ops[1].p)

Emit == PrintT("@@" \o ToJson([ops |-> ops, orig |-> orig, copy |-> copy, hasCopy |-> hasCopy,
                               renderOrig |-> Render(orig), renderCopy |-> Render(copy)]))
=============================================================================
