"""C05 — parsing any text ends with a syntax tree or a positioned diagnostic; tokens cover the source."""
import itertools
import json
import os

from lib import gen, genlex, vlib
from checks.common import absorb, validate_traces

LEVEL = "model_checking"


def run(ck):
    q = ck.tier == "quick"
    d = vlib.workdir("lex")
    # (a) token cover: the real lexer's item stream for every byte string up to the bound, validated by TLC
    inp = os.path.join(d, "inputs.ndjson")
    n = 0
    alpha = genlex.ALPHA if not q else genlex.ALPHA[:30]
    with open(inp, "w") as fh:
        for row in genlex.gen_inputs(3, alpha):
            fh.write(json.dumps(row) + "\n")
            n += 1
        # every class (incl. Unicode blanks/digits/BOM/4-byte runes/controls) next to every other one
        for row in genlex.gen_inputs(2 if q else 3, genlex.UNI + [b"a", b"1", b" ", b"\n", b'"', b"=", b"#", b"(", b"{", b"`"]):
            fh.write(json.dumps(row) + "\n")
            n += 1
        # quoted literals: every body up to 3 (thorough: 4) pieces over escapes of every form, plain / multi-byte text, invalid and
        # truncated UTF-8, NUL, a line break and the other quote, in both quote kinds, closed and left open
        pieces = [b"\\t", b"\\x41", b"\\u00e9", b"\\101", b"\\\\", b"a", "\u00e9".encode(), b"\xff", b"\xc2", b"\x00", b" ", b"\\", b"\n"]
        for qc in (b'"', b"'"):
            other = b"'" if qc == b'"' else b'"'
            for k in range(0, (3 if q else 4) + 1):
                for combo in itertools.product(pieces + [other], repeat=k):
                    body = b"".join(combo)
                    fh.write(json.dumps({"s": list(b"x = " + qc + body + qc)}) + "\n")
                    n += 1
                    if k <= 2:
                        fh.write(json.dumps({"s": list(b"x = " + qc + body)}) + "\n")
                        n += 1
        # multi-line literals: both openers x bodies of up to 2 pieces x every run of 0..4 closing quote characters of either kind
        # (closed, cut inside the closing delimiter, closed with the other quote, followed by more text)
        tpieces = [b"a", b"\n", b"\\", "\u00e9".encode(), b"\xff", b" ", b"#"]
        DQ3, SQ3 = b'"' * 3, b"'" * 3
        for op3 in (DQ3, SQ3):
            for k in range(0, 3):
                for combo in itertools.product(tpieces, repeat=k):
                    body = b"".join(combo)
                    for nq in range(0, 5):
                        for closer in itertools.product([b'"', b"'"], repeat=nq):
                            for tail in (b"", b"\nx = 1"):
                                fh.write(json.dumps({"s": list(b"x = " + op3 + body + b"".join(closer) + tail)}) + "\n")
                                n += 1
        # quote characters INSIDE a multi-line literal: a run of one or two quotes of either kind, followed by a piece of every
        # class (ASCII, line break, backslash, multi-byte character, invalid byte), then closed or left open
        for op3 in (DQ3, SQ3):
            for before in [b""] + tpieces:
                for nq in (1, 2):
                    for run in itertools.product([b'"', b"'"], repeat=nq):
                        for after in tpieces + ["世".encode(), "😀".encode()]:
                            for close in (op3, b""):
                                fh.write(json.dumps({"s": list(b"x = " + op3 + before + b"".join(run) + after + close)}) + "\n")
                                n += 1
        # longer inputs over a small alphabet of the interesting classes
        small = [b'"', b"'", b"\\", b"\n", b"a", b"0", b"x", b".", b"`", b"#", b" ", b"("]
        for row in genlex.gen_inputs(4 if q else 5, small):
            fh.write(json.dumps(row) + "\n")
            n += 1
    tr = os.path.join(d, "lexer.ndjson")
    r = vlib.vh_json(["record-lexer", inp, tr])
    absorb(ck, r, "lexer-record")
    cfg = "SPECIFICATION TraceSpec\nINVARIANT Cover\nCONSTRAINT HighWater\nPOSTCONDITION Accepted\nCHECK_DEADLOCK FALSE\n"
    validate_traces(ck, "TraceLexer", cfg, tr, "lexer", lambda rec: rec["ev"] == "src", timeout=2400)
    # (b) the parse postcondition (tree xor positioned error, no internal crash, no hang) on the same inputs,
    #     random token sequences, random bytes, malformed numbers, deep nesting and mutated valid programs
    progs = os.path.join(d, "progs.ndjson")
    ps = gen.gen_control(True, ck.seed)[-40:] + gen.gen_alias(True, ck.seed)[:10] + gen.gen_use(True, ck.seed)[:10]
    gen.write(progs, ps)
    r = vlib.vh_json(["parse-total", "-seed", str(ck.seed), "-n", "4000" if q else "60000", "-inputs", inp, "-programs", progs],
                     timeout=3000)
    absorb(ck, r, "parse-total")
    ck.cov["rule"] = ("(a) every byte string up to length %d over %d byte classes (letters, digits, quotes, backslash, newline, brackets, "
                      "operators, a 2-byte rune, an invalid byte, NUL), up to length %d over Unicode blanks / digit / BOM / U+FFFD / 3- and 4-byte runes / "
                      "ASCII controls / truncated UTF-8 mixed with 10 ASCII classes, every quoted literal whose body has up to %d pieces over {escapes of "
                      "every form, text, multi-byte text, invalid / truncated UTF-8, NUL, line break, the other quote} (closed and open), every multi-line literal with a body "
                      "of up to 2 pieces followed by every run of 0..4 closing quote characters of either kind (cut anywhere inside the closing delimiter), and up to length %d over the 12 most interesting ones is lexed by the "
                      "real lexer and the item stream is validated by TLC against TraceLexer (cover, order, no overlap, only blanks "
                      "skipped, lexical class, bounded length, ends in EOF or one positioned ERROR). (b) the same texts, random token "
                      "sequences, random bytes, malformed numbers, unterminated forms, deep nesting and valid programs with one token "
                      "deleted/duplicated/replaced go through ParsePipeline: tree xor error, error names the script with a position "
                      "inside the source whose line/column match the offset, nothing crashed internally, no hang. distinct = distinct texts."
                      % (3, len(alpha), 2 if q else 3, 3 if q else 4, 4 if q else 5))
    ck.assumptions += ["acceptance verdicts of arbitrary garbage are not demanded, only the tree-xor-positioned-error disjunction"]
