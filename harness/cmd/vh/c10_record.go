package main

import (
	"encoding/json"
	"flag"
	"fmt"
	"math/rand"
	"os"

	"github.com/GuanceCloud/platypus/pkg/inimpl/guancecloud/input"
)

func init() { register("record-point", recordPoint) }

// specVal renders a Go point value in the spec's record shape (exact field sets, so TLC equality works).
func specVal(g any) map[string]any {
	switch x := g.(type) {
	case nil:
		return map[string]any{"k": "nil"}
	case int64:
		return map[string]any{"k": "int", "n": x}
	case float64:
		t := int64(x * 10)
		if float64(t)/10 != x {
			return map[string]any{"k": "float", "t": -999999, "raw": fmt.Sprint(x)}
		}
		return map[string]any{"k": "float", "t": t}
	case bool:
		return map[string]any{"k": "bool", "b": x}
	case string:
		return map[string]any{"k": "str", "s": x}
	}
	return map[string]any{"k": fmt.Sprintf("%T", g)}
}

func projPoint(pt *input.Point) map[string]any {
	meta, fields, tags := map[string]any{}, map[string]any{}, map[string]any{}
	for k, m := range pt.Meta {
		flag := "field"
		if m.PtFlag == input.PtTag {
			flag = "tag"
		}
		meta[k] = map[string]any{"dt": m.DType.String(), "flag": flag}
	}
	for k, v := range pt.Fields {
		fields[k] = specVal(v)
	}
	for k, v := range pt.Tags {
		tags[k] = v
	}
	return map[string]any{"meta": meta, "fields": fields, "tags": tags, "meas": pt.Measurement}
}

func opRec(o sop) map[string]any {
	v := map[string]any{"k": o.V.K}
	switch o.V.K {
	case "int":
		v["n"] = o.V.N
	case "float":
		v["t"] = o.V.T
	case "bool":
		v["b"] = o.V.B
	case "str":
		v["s"] = o.V.S
	}
	return map[string]any{"o": o.O, "k": o.K, "k2": o.K2, "v": v, "T": o.T}
}

// record-point -seed S -n N -len L -keys K -out file: long random builtin sequences on one point.
func recordPoint(args []string) (any, error) {
	fs := flag.NewFlagSet("record-point", flag.ContinueOnError)
	seed := fs.Int64("seed", 1, "")
	n := fs.Int("n", 20, "")
	ln := fs.Int("len", 100, "")
	nk := fs.Int("keys", 12, "")
	out := fs.String("out", "", "")
	if err := fs.Parse(args); err != nil {
		return nil, err
	}
	rng := rand.New(rand.NewSource(*seed))
	f, err := os.Create(*out)
	if err != nil {
		return nil, err
	}
	defer f.Close()
	enc := json.NewEncoder(f)
	keys := []string{}
	for i := 0; i < *nk; i++ {
		keys = append(keys, fmt.Sprintf("k%d", i))
	}
	vals := []sval{{K: "int", N: 7}, {K: "int", N: 0}, {K: "int", N: 12}, {K: "float", T: 15}, {K: "float", T: 0},
		{K: "bool", B: true}, {K: "bool", B: false}, {K: "str", S: "x"}, {K: "str", S: "12"}, {K: "str", S: ""},
		{K: "str", S: "true"}, {K: "str", S: "1.5"}, {K: "nil"}, {K: "list"}, {K: "map"}, {K: "void"}}
	cache := newScriptCache()
	sum := &Summary{}
	events := 0
	for t := 0; t < *n; t++ {
		tags := map[string]string{}
		fields := map[string]any{}
		for _, k := range keys[:*nk/2] {
			switch rng.Intn(4) {
			case 0:
				tags[k] = []string{"tv", "", "7"}[rng.Intn(3)]
			case 1:
				fields[k] = vals[rng.Intn(13)].goVal()
			}
		}
		pt := input.GetPoint()
		input.InitPt(pt, "m0", tags, fields, fixedTime)
		_ = enc.Encode(map[string]any{"op": opRec(sop{O: "init", V: sval{K: "nil"}}), "post": projPoint(pt)})
		for i := 0; i < *ln; i++ {
			k := keys[rng.Intn(len(keys))]
			k2 := keys[rng.Intn(len(keys))]
			for k2 == k {
				k2 = keys[rng.Intn(len(keys))]
			}
			o := sop{K: k, V: sval{K: "nil"}}
			switch rng.Intn(10) {
			case 0, 1, 2:
				o.O, o.V = "add_key", vals[rng.Intn(len(vals))]
			case 3:
				o.O, o.V = "set_tag_lit", sval{K: "str", S: "x"}
			case 4:
				o.O = "set_tag"
			case 5:
				o.O, o.K2 = "set_tag_from", k2
			case 6:
				o.O = "drop_key"
			case 7, 8:
				o.O, o.K2 = "rename", k2
			default:
				o.O = "cast"
				o.T = []string{"int", "float", "str", "bool"}[rng.Intn(4)]
				if o.T == "bool" {
					if v, _, err := pt.Get(k); err == nil {
						switch v.(type) {
						case int64, float64: // cast(number, "bool") belongs to C11, not to the index model
							o.T = "str"
						}
					}
				}
			}
			if rng.Intn(40) == 0 {
				o = sop{O: "set_measurement", K: k, V: sval{K: "nil"}}
			}
			if rng.Intn(25) == 0 {
				o = sop{O: "set_tag_unconv", K: k, V: sval{K: "nil"}, T: []string{"attr", "inflist"}[rng.Intn(2)]}
			}
			sc, err := cache.load(o.script())
			if err != nil {
				return nil, fmt.Errorf("load %q: %v", o.script(), err)
			}
			rec := map[string]any{"op": opRec(o)}
			if e := sc.Run(pt, nil); e != nil {
				rec["run_error"] = e.Error()
			}
			rec["post"] = projPoint(pt)
			_ = enc.Encode(rec)
			events++
		}
		input.PutPoint(pt)
		sum.Evaluations++
		sum.sample(map[string]any{"trace": t, "ops": *ln, "keys": *nk})
	}
	sum.Distinct = sum.Evaluations
	sum.Extra = map[string]any{"events": events}
	return sum, nil
}
