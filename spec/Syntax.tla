-------------------------------- MODULE Syntax --------------------------------
(* Concrete syntax of Platypus (C06, C17): the documented precedence and     *)
(* associativity table, the parentheses it requires (Par), the token         *)
(* sequence of a tree (Render), the places where the grammar admits line     *)
(* breaks / comments (token flag nl), and which token supplies every         *)
(* position field of every node (token indices attached to the nodes).       *)
(*                                                                           *)
(*   level 2 ||   3 &&   4 in   5 >= > != == <= <   6 + -   7 * / %           *)
(*   8 unary ! - +   9 postfix / primary; all binary operators left-assoc.   *)
(* (`in`, unary and `!` are not in the manual's table; levels from gram.y.)  *)
(*                                                                           *)
(* Input: trees in the astconv JSON shape, literals carrying their spelling  *)
(* sp.  Output per tree: Par(tree) annotated with token indices, and the     *)
(* token list.  The harness lays the tokens out (blanks anywhere, EOLs and   *)
(* comments after nl tokens), parses the text with the real parser and       *)
(* compares tree and positions.                                              *)
EXTENDS Integers, Sequences, TLC, Json, IOUtils

Trees == ndJsonDeserialize(IOEnv.TREE_FILE)

Prec(op) == CASE op = "||" -> 2 [] op = "&&" -> 3 [] op = "in" -> 4
              [] op \in {">=", ">", "!=", "==", "<=", "<"} -> 5
              [] op \in {"+", "-"} -> 6 [] op \in {"*", "/", "%"} -> 7
PrecOf(e) == CASE e.k = "bin" -> Prec(e.op) [] e.k = "un" -> 8
               [] e.k \in {"int", "float"} /\ e.negsp -> 8      \* a sign folded into the literal still parses as unary
               [] OTHER -> 9
Paren(e) == [k |-> "paren", e |-> e]
Wrap(e, min) == IF PrecOf(e) < min THEN Paren(e) ELSE e

RECURSIVE Par(_), ParSeq(_), ParStmts(_)
ParSeq(es) == [i \in 1..Len(es) |-> Par(es[i])]
ParStmts(ss) == [i \in 1..Len(ss) |-> Par(ss[i])]
Par(e) ==
  CASE e.k = "bin" -> [e EXCEPT !.l = Wrap(Par(e.l), Prec(e.op)), !.r = Wrap(Par(e.r), Prec(e.op) + 1)]
    [] e.k = "un" -> [e EXCEPT !.e = Wrap(Par(e.e), 8)]
    [] e.k = "paren" -> [e EXCEPT !.e = Par(e.e)]
    [] e.k = "list" -> [e EXCEPT !.es = ParSeq(e.es)]
    [] e.k = "map" -> [e EXCEPT !.ks = ParSeq(e.ks), !.vs = ParSeq(e.vs)]
    [] e.k = "idx" -> [e EXCEPT !.is = ParSeq(e.is)]
    [] e.k = "slice" -> [e EXCEPT !.o = Par(e.o), !.s = Par(e.s), !.e = Par(e.e), !.st = Par(e.st)]
    [] e.k = "call" -> [e EXCEPT !.as = ParSeq(e.as)]
    [] e.k = "assign" -> [e EXCEPT !.ls = ParSeq(e.ls), !.rs = ParSeq(e.rs)]
    [] e.k = "if" -> [e EXCEPT !.cs = ParSeq(e.cs), !.bs = [i \in 1..Len(e.bs) |-> ParStmts(e.bs[i])], !.eb = ParStmts(e.eb)]
    [] e.k = "for" -> [e EXCEPT !.i = Par(e.i), !.c = Par(e.c), !.p = Par(e.p), !.b = ParStmts(e.b)]
    [] e.k = "forin" -> [e EXCEPT !.it = Par(e.it), !.b = ParStmts(e.b)]
    [] OTHER -> e

(* ------------------------------- rendering ------------------------------ *)
\* token: s = text, nl = a line break (and comment) may follow, sep = this is a statement separator
Tk(s, nl) == [s |-> s, nl |-> nl, sep |-> FALSE]
SepTk == [s |-> "\n", nl |-> TRUE, sep |-> TRUE]
Res(ts, e) == [ts |-> ts, e |-> e]
Ann(e, r) == r @@ e          \* attach token-index fields to a node

RECURSIVE Rn(_, _), RnList(_, _, _), RnStmts(_, _), RnBlock(_, _)

\* comma separated expressions: returns tokens and annotated nodes
RnList(es, n, i) ==
  IF i > Len(es) THEN [ts |-> <<>>, es |-> <<>>]
  ELSE LET r == Rn(es[i], n)
           comma == IF i < Len(es) THEN <<Tk(",", TRUE)>> ELSE <<>>
           rest == RnList(es, n + Len(r.ts) + Len(comma), i + 1)
       IN [ts |-> r.ts \o comma \o rest.ts, es |-> <<r.e>> \o rest.es]

\* statements separated by separator tokens
RnStmts(ss, n) ==
  IF ss = <<>> THEN [ts |-> <<>>, es |-> <<>>]
  ELSE LET r == Rn(ss[1], n)
           sp == IF Len(ss) > 1 THEN <<SepTk>> ELSE <<>>
           rest == RnStmts(Tail(ss), n + Len(r.ts) + Len(sp))
       IN [ts |-> r.ts \o sp \o rest.ts, es |-> <<r.e>> \o rest.es]

\* { stmts }  -> tokens, annotated stmts, brace token indices
RnBlock(ss, n) ==
  LET body == RnStmts(ss, n + 1)
  IN [ts |-> <<Tk("{", TRUE)>> \o body.ts \o <<Tk("}", FALSE)>>, es |-> body.es,
      lb |-> n + 1, rb |-> n + 1 + Len(body.ts) + 1]

Rn(e, n) ==
  CASE e.k \in {"int", "float"} /\ e.negsp ->        \* sign and magnitude are two tokens; the literal's position is the sign's
         Res(<<Tk(e.sg, FALSE), Tk(e.mag, FALSE)>>, Ann(e, [tk |-> n + 1]))
    [] e.k \in {"nil", "bool", "int", "float", "str"} -> Res(<<Tk(e.sp, FALSE)>>, Ann(e, [tk |-> n + 1]))
    [] e.k = "id" -> Res(<<Tk(e.sp, FALSE)>>, Ann(e, [tk |-> n + 1]))
    [] e.k = "none" -> Res(<<>>, e)
    [] e.k = "paren" ->
         LET r == Rn(e.e, n + 1)
         IN Res(<<Tk("(", TRUE)>> \o r.ts \o <<Tk(")", FALSE)>>,
                [k |-> "paren", e |-> r.e, lptk |-> n + 1, rptk |-> n + 2 + Len(r.ts)])
    [] e.k = "un" ->
         LET r == Rn(e.e, n + 1)
         IN Res(<<Tk(e.op, FALSE)>> \o r.ts, Ann([e EXCEPT !.e = r.e], [optk |-> n + 1]))
    [] e.k = "bin" ->
         LET l == Rn(e.l, n)
             r == Rn(e.r, n + Len(l.ts) + 1)
         IN Res(l.ts \o <<Tk(e.op, TRUE)>> \o r.ts, Ann([e EXCEPT !.l = l.e, !.r = r.e], [optk |-> n + Len(l.ts) + 1]))
    [] e.k = "list" ->
         LET r == RnList(e.es, n + 1, 1)
             tc == IF e.tc THEN <<Tk(",", TRUE)>> ELSE <<>>      \* a trailing comma: the closing bracket is still the bracket
         IN Res(<<Tk("[", TRUE)>> \o r.ts \o tc \o <<Tk("]", FALSE)>>,
                Ann([e EXCEPT !.es = r.es], [lbtk |-> n + 1, rbtk |-> n + 2 + Len(r.ts) + Len(tc)]))
    [] e.k = "map" ->
         LET RECURSIVE Kv(_, _)
             Kv(i, m) == IF i > Len(e.ks) THEN [ts |-> <<>>, ks |-> <<>>, vs |-> <<>>]
                         ELSE LET kr == Rn(e.ks[i], m)
                                  vr == Rn(e.vs[i], m + Len(kr.ts) + 1)
                                  comma == IF i < Len(e.ks) THEN <<Tk(",", TRUE)>> ELSE <<>>
                                  rest == Kv(i + 1, m + Len(kr.ts) + 1 + Len(vr.ts) + Len(comma))
                              IN [ts |-> kr.ts \o <<Tk(":", TRUE)>> \o vr.ts \o comma \o rest.ts,
                                  ks |-> <<kr.e>> \o rest.ks, vs |-> <<vr.e>> \o rest.vs]
             r == Kv(1, n + 1)
             tc == IF e.tc THEN <<Tk(",", TRUE)>> ELSE <<>>
         IN Res(<<Tk("{", TRUE)>> \o r.ts \o tc \o <<Tk("}", FALSE)>>,
                Ann([e EXCEPT !.ks = r.ks, !.vs = r.vs], [lbtk |-> n + 1, rbtk |-> n + 2 + Len(r.ts) + Len(tc)]))
    [] e.k = "idx" ->
         LET RECURSIVE Ix(_, _)
             Ix(i, m) == IF i > Len(e.is) THEN [ts |-> <<>>, is |-> <<>>, lbs |-> <<>>, rbs |-> <<>>]
                         ELSE LET r == Rn(e.is[i], m + 1)
                                  rest == Ix(i + 1, m + 2 + Len(r.ts))
                              IN [ts |-> <<Tk("[", TRUE)>> \o r.ts \o <<Tk("]", FALSE)>> \o rest.ts, is |-> <<r.e>> \o rest.is,
                                  lbs |-> <<m + 1>> \o rest.lbs, rbs |-> <<m + 2 + Len(r.ts)>> \o rest.rbs]
             r == Ix(1, n + 1)
         IN Res(<<Tk(e.n, FALSE)>> \o r.ts, Ann([e EXCEPT !.is = r.is], [objtk |-> n + 1, lbtks |-> r.lbs, rbtks |-> r.rbs]))
    [] e.k = "slice" ->
         LET o == Rn(e.o, n)
             n1 == n + Len(o.ts) + 1                        \* after "["
             s == Rn(e.s, n1)
             n2 == n1 + Len(s.ts) + 1                       \* after the first ":"
             en == Rn(e.e, n2)
             c2 == IF e.c2 THEN <<Tk(":", TRUE)>> ELSE <<>>
             st == Rn(e.st, n2 + Len(en.ts) + Len(c2))
             inner == s.ts \o <<Tk(":", TRUE)>> \o en.ts \o c2 \o st.ts
         IN Res(o.ts \o <<Tk("[", TRUE)>> \o inner \o <<Tk("]", FALSE)>>,
                Ann([e EXCEPT !.o = o.e, !.s = s.e, !.e = en.e, !.st = st.e],
                    [lbtk |-> n + Len(o.ts) + 1, rbtk |-> n + Len(o.ts) + 2 + Len(inner)]))
    [] e.k = "call" ->
         LET r == RnList(e.as, n + 2, 1)
             tc == IF e.tc /\ Len(e.as) > 0 THEN <<Tk(",", TRUE)>> ELSE <<>>      \* a trailing comma after the last argument (a line break may follow it)
         IN Res(<<Tk(e.f, FALSE), Tk("(", TRUE)>> \o r.ts \o tc \o <<Tk(")", FALSE)>>,
                Ann([e EXCEPT !.as = r.es], [nametk |-> n + 1, lptk |-> n + 2, rptk |-> n + 3 + Len(r.ts) + Len(tc)]))
    [] e.k = "attr" ->
         LET RECURSIVE Parts(_)
             Parts(i) == IF i > Len(e.parts) THEN <<>>
                         ELSE (IF i > 1 THEN <<Tk(".", FALSE)>> ELSE <<>>) \o <<Tk(e.parts[i], FALSE)>> \o Parts(i + 1)
         IN Res(Parts(1), Ann(e, [tk |-> n + 1]))
    [] e.k = "assign" ->
         LET l == RnList(e.ls, n, 1)
             r == RnList(e.rs, n + Len(l.ts) + 1, 1)
         IN Res(l.ts \o <<Tk(e.op, TRUE)>> \o r.ts, Ann([e EXCEPT !.ls = l.es, !.rs = r.es], [optk |-> n + Len(l.ts) + 1]))
    [] e.k = "break" -> Res(<<Tk("break", FALSE)>>, Ann(e, [tk |-> n + 1]))
    [] e.k = "continue" -> Res(<<Tk("continue", FALSE)>>, Ann(e, [tk |-> n + 1]))
    [] e.k = "if" ->
         LET RECURSIVE Br(_, _)
             Br(j, m) == IF j > Len(e.cs) THEN [ts |-> <<>>, cs |-> <<>>, bs |-> <<>>, iftks |-> <<>>, lbs |-> <<>>, rbs |-> <<>>]
                         ELSE LET c == Rn(e.cs[j], m + 1)
                                  b == RnBlock(e.bs[j], m + 1 + Len(c.ts))
                                  rest == Br(j + 1, m + 1 + Len(c.ts) + Len(b.ts))
                              IN [ts |-> <<Tk(IF j = 1 THEN "if" ELSE "elif", FALSE)>> \o c.ts \o b.ts \o rest.ts,
                                  cs |-> <<c.e>> \o rest.cs, bs |-> <<b.es>> \o rest.bs, iftks |-> <<m + 1>> \o rest.iftks,
                                  lbs |-> <<b.lb>> \o rest.lbs, rbs |-> <<b.rb>> \o rest.rbs]
             br == Br(1, n)
             el == IF e.he THEN RnBlock(e.eb, n + Len(br.ts) + 1) ELSE [ts |-> <<>>, es |-> <<>>, lb |-> 0, rb |-> 0]
         IN Res(br.ts \o (IF e.he THEN <<Tk("else", FALSE)>> ELSE <<>>) \o el.ts,
                Ann([e EXCEPT !.cs = br.cs, !.bs = br.bs, !.eb = el.es],
                    [iftks |-> br.iftks, lbs |-> br.lbs, rbs |-> br.rbs,
                     elsetk |-> IF e.he THEN n + Len(br.ts) + 1 ELSE 0, elb |-> el.lb, erb |-> el.rb]))
    [] e.k = "for" ->
         LET i == Rn(e.i, n + 1)
             c == Rn(e.c, n + 2 + Len(i.ts))
             p == Rn(e.p, n + 3 + Len(i.ts) + Len(c.ts))
             b == RnBlock(e.b, n + 3 + Len(i.ts) + Len(c.ts) + Len(p.ts))
         IN Res(<<Tk("for", FALSE)>> \o i.ts \o <<Tk(";", FALSE)>> \o c.ts \o <<Tk(";", FALSE)>> \o p.ts \o b.ts,
                Ann([e EXCEPT !.i = i.e, !.c = c.e, !.p = p.e, !.b = b.es], [fortk |-> n + 1, lb |-> b.lb, rb |-> b.rb]))
    [] e.k = "forin" ->
         LET it == Rn(e.it, n + 3)
             b == RnBlock(e.b, n + 3 + Len(it.ts))
         IN Res(<<Tk("for", FALSE), Tk(e.v, FALSE), Tk("in", TRUE)>> \o it.ts \o b.ts,
                Ann([e EXCEPT !.it = it.e, !.b = b.es], [fortk |-> n + 1, vartk |-> n + 2, intk |-> n + 3, lb |-> b.lb, rb |-> b.rb]))

(* idempotence of the table: parenthesising twice changes nothing *)
ParIdem(ss) == ParStmts(ParStmts(ss)) = ParStmts(ss)

VARIABLE out
Init == \E i \in 1..Len(Trees) :
          LET t == Trees[i]
              p == ParStmts(t.stmts)
              r == RnStmts(p, 0)
          IN out = [id |-> t.id, toks |-> r.ts, stmts |-> r.es, idem |-> ParIdem(t.stmts)]
Next == UNCHANGED out
Spec == Init /\ [][Next]_out
Idempotent == out.idem
Emit == PrintT("@@" \o ToJson(out))
=============================================================================
