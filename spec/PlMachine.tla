------------------------------- MODULE PlMachine -------------------------------
(* Small-step machine for Platypus scripts (C01 C03 C13 C14 C18), shaped    *)
(* like pkg/engine/runtime (and runtimev2): a stack of tasks (use() pushes  *)
(* one), each with a control stack of frames, a scope chain and the flags   *)
(* loopBreak / loopContinue / procExit; StmtRetrun() is the Poll step that  *)
(* reads the host's exit signal.  Expressions are evaluated atomically by   *)
(* PlExpr!Eval.  The environment action SignalFire may happen at any time.  *)
(*                                                                          *)
(* Programs are read from PROG_FILE (ndjson, one program set per line, the  *)
(* trees produced from the real parser's output).  TLC explores, for every  *)
(* program, every point at which the signal can fire and every map          *)
(* iteration order policy, checks the invariants below in every state and   *)
(* emits the expected observable outcome of every behaviour.                *)
EXTENDS PlRef, Json, IOUtils

Programs == ndJsonDeserialize(IOEnv.PROG_FILE)
WithSignal == IOEnv.WITH_SIGNAL = "1"

VARIABLES m, ref
vars == <<m, ref>>

(* ------------------------------ helpers --------------------------------- *)
TopT(x) == x.tasks[Len(x.tasks)]
TopF(t) == t.ctl[Len(t.ctl)]
PopN(s, n) == SubSeq(s, 1, Len(s) - n)
SetTop(x, t) == [x EXCEPT !.tasks[Len(x.tasks)] = t]
SeqF(ss) == [f |-> "seq", ss |-> ss, i |-> 1, ph |-> "run"]
PopsF(n) == [f |-> "pops", n |-> n]

StOf(x, t) == [sc |-> t.sc, heap |-> x.heap, pt |-> x.pt, log |-> x.log, xt |-> FALSE, pend |-> "",
               v2 |-> x.v2, wrap |-> 0, pre |-> <<>>,
               c |-> [prog |-> x.prog, name |-> t.name, mo |-> x.mo, v2 |-> x.v2]]
\* write an evaluation's state back into the machine
Back(x, t, st) == [SetTop(x, [t EXCEPT !.sc = st.sc, !.exit = (@ \/ st.xt)])
                     EXCEPT !.heap = st.heap, !.pt = st.pt, !.log = st.log, !.evals = @ + 1]

\* the statement a task is currently executing: the innermost seq frame's current element
RECURSIVE CurSid(_, _)
CurSid(ctl, i) == IF i = 0 THEN 0
                  ELSE IF ctl[i].f = "seq" /\ ctl[i].i <= Len(ctl[i].ss) THEN ctl[i].ss[ctl[i].i].sid
                  ELSE CurSid(ctl, i - 1)
RECURSIVE Repeat(_, _)
Repeat(x, n) == IF n = 0 THEN <<>> ELSE <<x>> \o Repeat(x, n - 1)
\* error chain: failing position first, then every use() call site outward
RECURSIVE Callers(_, _)
Callers(tasks, i) == IF i = 0 THEN <<>>
                     ELSE <<<<tasks[i].name, CurSid(tasks[i].ctl, Len(tasks[i].ctl))>>>> \o Callers(tasks, i - 1)
Fail(x, cls, sid, wrap, pre) ==
  LET t == TopT(x) IN
  [x EXCEPT !.status = "error",
            !.err = [cls |-> cls,
                     chain |-> pre \o Repeat(<<t.name, sid>>, 1 + wrap) \o Callers(x.tasks, Len(x.tasks) - 1)]]

\* StmtRetrun(): polls the signal unless the task is already exiting
Polled(x) == LET t == TopT(x) IN
             IF t.exit THEN x
             ELSE LET y == [x EXCEPT !.sig.polls = @ + 1, !.evals = 0]
                  IN IF x.sig.fired THEN [SetTop(y, [t EXCEPT !.exit = TRUE]) EXCEPT !.sig.seen = TRUE,
                                                                                   !.sig.seenLog = Len(x.log)]
                     ELSE y

SortAsc(ks) ==      \* keys sorted ascending (bytewise), by repeated minimum extraction
  LET Less(a, b) == \E i \in 1..(IF Len(a) < Len(b) THEN Len(a) ELSE Len(b)) + 1 :
                      /\ \A j \in 1..(i - 1) : j <= Len(a) /\ j <= Len(b) /\ a[j] = b[j]
                      /\ \/ (i > Len(a) /\ i <= Len(b))
                         \/ (i <= Len(a) /\ i <= Len(b) /\ a[i] < b[i])
      RECURSIVE Srt(_)
      Srt(S) == IF S = {} THEN <<>>
                ELSE LET mn == CHOOSE a \in S : \A b \in S \ {a} : Less(a, b) IN <<mn>> \o Srt(S \ {mn})
  IN Srt({ks[i] : i \in 1..Len(ks)})
Reverse(s) == [i \in 1..Len(s) |-> s[Len(s) + 1 - i]]

(* -------------------------------- steps --------------------------------- *)
\* evaluate the conditions of an if / elif chain in order; result: index of the chosen block (0 = none)
RECURSIVE Select(_, _, _)
Select(cs, j, st) ==
  IF j > Len(cs) THEN [st |-> st, ok |-> TRUE, j |-> 0, cls |-> ""]
  ELSE LET r == Use1(st, Eval(cs[j], st)) IN
       IF ~r.ok THEN [st |-> r.st, ok |-> FALSE, j |-> 0, cls |-> r.cls]
       ELSE IF Truthy(r.st.heap, r.v) THEN [st |-> r.st, ok |-> TRUE, j |-> j, cls |-> ""]
       ELSE Select(cs, j + 1, r.st)

PushSc(t) == [t EXCEPT !.sc = Append(@, EmptyScope)]
SetPh(t, ph) == [t EXCEPT !.ctl[Len(t.ctl)].ph = ph]

StepSeqRun(x, t, fr) ==
  IF fr.i > Len(fr.ss) THEN SetTop(x, [t EXCEPT !.ctl = PopN(@, 1)])
  ELSE LET s == fr.ss[fr.i] IN
  CASE s.k = "break" -> SetTop(x, SetPh([t EXCEPT !.brk = TRUE], "poll"))
    [] s.k = "continue" -> SetTop(x, SetPh([t EXCEPT !.cont = TRUE], "poll"))
    [] s.k = "if" ->
         LET t1 == PushSc(t)
             r == Select(s.cs, 1, StOf(x, t1))
         IN IF ~r.ok THEN Fail(Back(x, t1, r.st), r.cls, s.sid, r.st.wrap, r.st.pre)
            ELSE LET y == Back(x, t1, r.st)
                     t2 == SetPh(TopT(y), "poll")
                 IN IF r.j # 0
                      THEN SetTop(y, [PushSc(t2) EXCEPT !.ctl = @ \o <<PopsF(2), SeqF(s.bs[r.j])>>])
                    ELSE IF s.he
                      THEN SetTop(y, [PushSc(t2) EXCEPT !.ctl = @ \o <<PopsF(2), SeqF(s.eb)>>])
                    ELSE SetTop(y, [t2 EXCEPT !.sc = PopN(@, 1)])
    [] s.k = "for" ->
         LET t1 == PushSc(t)
             r == IF NoneNode(s.i) THEN R(StOf(x, t1), VVoid) ELSE Eval(s.i, StOf(x, t1))
         IN IF ~r.ok THEN Fail(Back(x, t1, r.st), r.cls, s.sid, r.st.wrap, r.st.pre)
            ELSE LET y == Back(x, t1, r.st)
                 IN SetTop(y, [SetPh(TopT(y), "poll") EXCEPT !.ctl = Append(@, [f |-> "for", node |-> s, ph |-> "cond"])])
    [] s.k = "forin" ->
         LET t1 == PushSc(t)
             r == Use1(StOf(x, t1), Eval(s.it, StOf(x, t1)))
         IN IF ~r.ok THEN Fail(Back(x, t1, r.st), r.cls, s.sid, r.st.wrap, r.st.pre)
            ELSE LET y == Back(x, t1, r.st)
                     kd == KindOf(y.heap, r.v)
                 IN IF ~(kd \in {"str", "list", "map"}) THEN Fail(y, "not-iterable", s.sid, 0, <<>>)
                    ELSE LET items == CASE kd = "str" -> [i \in 1..Len(Runes(r.v.s)) |-> VStr(Runes(r.v.s)[i])]
                                        [] kd = "list" -> y.heap[r.v.l].e
                                        [] kd = "map" -> LET ks == SortAsc(y.heap[r.v.l].ks)
                                                             o == IF x.mo = "desc" THEN Reverse(ks) ELSE ks
                                                         IN [i \in 1..Len(o) |-> VStr(o[i])]
                         IN SetTop(y, [PushSc(SetPh(TopT(y), "poll")) EXCEPT
                                         !.ctl = Append(@, [f |-> "forin", node |-> s, items |-> items, i |-> 1,
                                                            ph |-> "next", strmode |-> kd = "str"])])
    [] OTHER ->      \* expression / assignment / call statement
         LET r == EvalTop(s, StOf(x, t)) IN
         IF ~r.ok THEN Fail(Back(x, t, r.st), r.cls, s.sid, r.st.wrap, r.st.pre)
         ELSE LET y == Back(x, t, r.st)
                  t2 == SetPh(TopT(y), "poll")
              IN IF r.st.pend # "" /\ r.st.pend \in DOMAIN x.prog
                   THEN [SetTop(y, t2) EXCEPT !.tasks = Append(@, [name |-> r.st.pend, ctl |-> <<SeqF(x.prog[r.st.pend])>>,
                                                                    sc |-> <<EmptyScope>>, brk |-> FALSE, cont |-> FALSE,
                                                                    exit |-> FALSE])]
                   ELSE SetTop(y, t2)

StepSeqPoll(x, t, fr) ==
  LET y == Polled(x)
      u == TopT(y)
  IN IF u.exit \/ u.brk \/ u.cont THEN SetTop(y, [u EXCEPT !.ctl = PopN(@, 1)])
     ELSE SetTop(y, [u EXCEPT !.ctl[Len(u.ctl)].i = @ + 1, !.ctl[Len(u.ctl)].ph = "run"])

EndLoop(x, t, nsc) == SetTop(x, [t EXCEPT !.ctl = PopN(@, 1), !.sc = PopN(@, nsc)])

StepFor(x, t, fr) ==
  LET s == fr.node IN
  CASE fr.ph = "cond" ->
         LET r == IF NoneNode(s.c) THEN R(StOf(x, t), VBool(TRUE)) ELSE Use1(StOf(x, t), Eval(s.c, StOf(x, t))) IN
         IF ~r.ok THEN Fail(Back(x, t, r.st), r.cls, s.sid, r.st.wrap, r.st.pre)
         ELSE LET y == Back(x, t, r.st)
                  u == TopT(y)
              IN IF ~Truthy(y.heap, r.v) THEN EndLoop(y, u, 1)
                 ELSE SetTop(y, [PushSc(SetPh(u, "after")) EXCEPT !.ctl = @ \o <<PopsF(1), SeqF(s.b)>>])
    [] fr.ph = "after" ->
         IF t.brk THEN EndLoop(x, [t EXCEPT !.brk = FALSE], 1)
         ELSE LET y == Polled(SetTop(x, [t EXCEPT !.cont = FALSE]))
                  u == TopT(y)
              IN IF u.exit THEN EndLoop(y, u, 1) ELSE SetTop(y, SetPh(u, "post"))
    [] fr.ph = "post" ->
         LET r == IF NoneNode(s.p) THEN R(StOf(x, t), VVoid) ELSE Eval(s.p, StOf(x, t)) IN
         IF ~r.ok THEN Fail(Back(x, t, r.st), r.cls, s.sid, r.st.wrap, r.st.pre)
         ELSE LET y == Back(x, t, r.st) IN SetTop(y, SetPh(TopT(y), "cond"))

ClearTopSc(t) == [t EXCEPT !.sc[Len(t.sc)] = EmptyScope]
StepForIn(x, t, fr) ==
  LET s == fr.node IN
  CASE fr.ph = "next" ->
         IF fr.i > Len(fr.items) THEN EndLoop(x, t, 2)
         ELSE LET t1 == IF fr.strmode THEN t ELSE ClearTopSc(t)
                  nm == IF x.v2 THEN s.v ELSE Alias(s.v)
                  t2 == [t1 EXCEPT !.sc = SetVar(@, nm, fr.items[fr.i])]
              IN SetTop(x, [SetPh(t2, "after") EXCEPT !.ctl = Append(@, SeqF(s.b))])
    [] fr.ph = "after" ->
         LET t1 == IF fr.strmode THEN ClearTopSc(t) ELSE t IN
         IF t1.brk THEN EndLoop(x, [t1 EXCEPT !.brk = FALSE], 2)
         ELSE LET y == Polled(SetTop(x, [t1 EXCEPT !.cont = FALSE]))
                  u == TopT(y)
              IN IF u.exit THEN EndLoop(y, u, 2)
                 ELSE SetTop(y, [u EXCEPT !.ctl[Len(u.ctl)].i = @ + 1, !.ctl[Len(u.ctl)].ph = "next"])

\* one deterministic step of the machine (x.status = "run")
Step(x) ==
  LET t == TopT(x) IN
  IF t.ctl = <<>>
    THEN (IF Len(x.tasks) = 1 THEN [x EXCEPT !.status = "done"]
          ELSE [x EXCEPT !.tasks = PopN(@, 1)])              \* use() returns: the caller resumes
  ELSE LET fr == TopF(t) IN
       CASE fr.f = "seq" -> (IF fr.ph = "run" THEN StepSeqRun(x, t, fr) ELSE StepSeqPoll(x, t, fr))
         [] fr.f = "pops" -> SetTop(x, [t EXCEPT !.ctl = PopN(@, 1), !.sc = PopN(@, fr.n)])
         [] fr.f = "for" -> StepFor(x, t, fr)
         [] fr.f = "forin" -> StepForIn(x, t, fr)

RECURSIVE RunAll(_, _)
RunAll(x, fuel) == IF x.status # "run" \/ fuel = 0 THEN x ELSE RunAll(Step(x), fuel - 1)

(* ----------------------------- specification ---------------------------- *)
Load(p, mo) ==
  [id |-> p.id, v2 |-> p.v2, mo |-> mo, fuel |-> p.fuel,
   prog |-> [n \in DOMAIN p.scripts |-> Annotate(p.scripts[n])],     \* load-time pattern resolution
   tasks |-> <<[name |-> p.main, ctl |-> <<SeqF(Annotate(p.scripts[p.main]))>>, sc |-> <<EmptyScope>>,
                brk |-> FALSE, cont |-> FALSE, exit |-> FALSE]>>,
   heap |-> <<>>, pt |-> p.pt, log |-> <<>>,
   sig |-> [fired |-> FALSE, firedAt |-> -1, polls |-> 0, seen |-> FALSE, seenLog |-> 0],
   status |-> "run", err |-> [cls |-> "", chain |-> <<>>], evals |-> 0, steps |-> 0]

Init == \E i \in 1..Len(Programs) : \E mo \in (IF Programs[i].maporders THEN {"asc", "desc"} ELSE {"asc"}) :
          /\ m = Load(Programs[i], mo)
          /\ ref = RunAll(Load(Programs[i], mo), Programs[i].fuel)    \* the uninterrupted run (history, constant)

DoStep == /\ m.status = "run" /\ m.steps < m.fuel
          /\ m' = [Step(m) EXCEPT !.steps = @ + 1]
          /\ UNCHANGED ref
SignalFire == /\ WithSignal /\ m.status = "run" /\ ~m.sig.fired
              /\ m' = [m EXCEPT !.sig.fired = TRUE, !.sig.firedAt = m.sig.polls]
              /\ UNCHANGED ref
Next == DoStep \/ SignalFire
Spec == Init /\ [][Next]_vars
FairSpec == Spec /\ WF_vars(DoStep)

(* ------------------------------ properties ------------------------------ *)
IsPrefixOf(a, b) == Len(a) <= Len(b) /\ \A i \in 1..Len(a) : a[i] = b[i]
Finished == m.status # "run"
\* every running configuration has a successor: the semantics gives every construct an outcome (C01)
Total == (m.status = "run" /\ m.steps < m.fuel) => Step(m).status \in {"run", "done", "error"}
\* scope discipline (C03): outside all blocks only the script's own scope remains; flags are consumed by loops
RECURSIVE InLoop(_, _)
InLoop(ctl, i) == IF i = 0 THEN FALSE ELSE IF ctl[i].f \in {"for", "forin"} THEN TRUE ELSE InLoop(ctl, i - 1)
RECURSIVE ScopeDepth(_, _)
ScopeDepth(ctl, i) == IF i = 0 THEN 1
                      ELSE ScopeDepth(ctl, i - 1) + (CASE ctl[i].f = "pops" -> ctl[i].n
                                                       [] ctl[i].f = "for" -> 1 [] ctl[i].f = "forin" -> 2 [] OTHER -> 0)
ScopeDiscipline == m.status = "run" =>
                     \A k \in 1..Len(m.tasks) : Len(m.tasks[k].sc) = ScopeDepth(m.tasks[k].ctl, Len(m.tasks[k].ctl))
FlagsLocal == m.status = "run" =>
                \A k \in 1..Len(m.tasks) : (m.tasks[k].brk \/ m.tasks[k].cont) => InLoop(m.tasks[k].ctl, Len(m.tasks[k].ctl))
\* cancellation (C14): effects are a prefix of the uninterrupted run, nothing happens after the signal was
\* observed, a cancelled run is not an error, an uncancelled run is the reference run
CancelPrefix == (ref.status # "run" /\ ~(m.status = "error")) => IsPrefixOf(m.log, ref.log)
CancelQuiet == m.sig.seen => Len(m.log) = m.sig.seenLog
CancelNoError == (m.status = "error") => (ref.status = "error" /\ m.err = ref.err /\ m.log = ref.log)
Uninterrupted == (Finished /\ ~m.sig.seen /\ ref.status # "run") =>
                   (m.status = ref.status /\ m.log = ref.log /\ m.pt = ref.pt /\ m.err = ref.err)
CancelPrompt == (m.sig.fired /\ ~m.sig.seen /\ m.status = "run") => m.evals <= 12
\* the machine refines the reference semantics PlRef (checked once per program and map-order policy, in the initial state)
Refines ==
  m.steps = 0 =>
    LET p == Programs[CHOOSE i \in 1..Len(Programs) : Programs[i].id = m.id]
        rr == RefRun(p, m.mo)
    IN (ref.status \in {"done", "error"} /\ rr.status # "diverge") =>
         /\ rr.status = ref.status /\ rr.log = ref.log /\ rr.pt = ref.pt
         /\ ref.status = "error" => (rr.chain = ref.err.chain /\ rr.cls = ref.err.cls)
Terminates == <>(m.status # "run" \/ m.steps >= m.fuel)
CancelTerminates == (m.sig.fired) ~> (m.status # "run" \/ m.steps >= m.fuel)

Outcome == [id |-> m.id, mo |-> m.mo, v2 |-> m.v2, firedAt |-> m.sig.firedAt, seen |-> m.sig.seen, polls |-> m.sig.polls,
            status |-> m.status, err |-> m.err, log |-> m.log, pt |-> m.pt, steps |-> m.steps]
Emit == (Finished \/ m.steps >= m.fuel) => PrintT("@@" \o ToJson(Outcome))
=============================================================================
