"""C08 — load-time checking rejects every invalid construct wherever it occurs."""
import json
import os

from lib import gen, vlib
from checks.common import absorb

LEVEL = "model_checking"


def run(ck):
    q = ck.tier == "quick"
    progs = gen.gen_check(q, ck.seed)
    d = vlib.workdir("chk")
    src = os.path.join(d, "chk.src.ndjson")
    gen.write(src, progs)
    trees = os.path.join(d, "chk.trees.ndjson")
    info = vlib.vh_json(["ast-json", src, trees])
    ck.note("programs_generated", len(progs))
    ck.note("programs_rejected_by_the_parser", len(info["skipped"]))
    ck.cov["parser_rejects_sample"] = info["skipped"][:5]
    if info["written"] < 0.7 * len(progs):
        raise vlib.Broken("parser rejected too many generated programs: %s" % info["skipped"][:5])
    res = vlib.tlc("Check", "SPECIFICATION Spec\nINVARIANT Emit\nCHECK_DEADLOCK FALSE\n", workers=vlib.NCPU, timeout=1800,
                   env={"PROG_FILE": trees})
    vlib.tlc_must_pass(res, "Check")
    ck.add_tlc(res, "Check(%d programs)" % info["written"])
    rows = res.emitted()
    outp = os.path.join(d, "chk.out.ndjson")
    vlib.write_ndjson(outp, rows)
    r = vlib.vh_json(["replay-check", src, outp])
    absorb(ck, r, "check")
    ck.add("traces_validated_against_impl", len(rows))
    ck.note("accepted_by_spec", sum(1 for x in rows if x["accept"]))
    ck.cov["rule"] = ("%d syntactic positions (conditions, all three loop clauses, list/map elements and keys, index expressions, every "
                      "slice bound and step with and without the other bounds, call arguments, named arguments, both sides of "
                      "assignments, nested blocks) x offenders (unknown function, wrong argument count / literal kind for every "
                      "builtin, undefined grok pattern, non-string map-literal key) and valid constructs; break/continue in/outside "
                      "loops and after a loop ended; registered tables with a function removed; both interpreters' check passes. "
                      "The TLA+ Accept/First recursion decides each program; a rejection must point inside the offender's span."
                      % len(gen.CHECK_TEMPLATES))
    ck.assumptions += ["the argument-shape table of the builtins is transcribed from the *Checking functions and md/fn.md"]
