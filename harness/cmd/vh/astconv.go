package main

import (
	"fmt"

	"github.com/GuanceCloud/platypus/pkg/ast"
)

// astconv: the real parser's tree -> the generic JSON tree the TLA+ specifications evaluate
// (PlExpr.tla header).  Statement elements of every block get a preorder "sid"; the converter also
// records, per sid, the byte span [start, end) of the statement in the source.

type span struct{ Start, End int }

type conv struct {
	src   string
	next  int
	spans map[int]span
	nnid  int
	nids  map[int]span // call / break / continue / map-literal nodes: their source span
}

func (c *conv) nid(start, end int) int {
	c.nnid++
	c.nids[c.nnid] = span{start, end}
	return c.nnid
}

func none() map[string]any { return map[string]any{"k": "none"} }

func asciiName(s string) string {
	for i := 0; i < len(s); i++ {
		if s[i] < 0x20 || s[i] > 0x7e {
			return ""
		}
	}
	return s
}

func (c *conv) stmts(ss ast.Stmts, end int) []any {
	out := []any{}
	for i, s := range ss {
		e := end
		if i+1 < len(ss) {
			if p := ast.NodeStartPos(ss[i+1]); int(p.Pos) >= 0 {
				e = int(p.Pos)
			}
		}
		out = append(out, c.stmt(s, e))
	}
	return out
}

func (c *conv) block(b *ast.BlockStmt) []any {
	if b == nil {
		return []any{}
	}
	return c.stmts(b.Stmts, int(b.RBracePos.Pos)+1)
}

func (c *conv) stmt(n *ast.Node, end int) map[string]any {
	c.next++
	sid := c.next
	start := int(ast.NodeStartPos(n).Pos)
	c.spans[sid] = span{start, end}
	m := c.node(n)
	m["sid"] = sid
	return m
}

func (c *conv) opt(n *ast.Node) map[string]any {
	if n == nil {
		return none()
	}
	return c.node(n)
}

func (c *conv) list(ns []*ast.Node) []any {
	out := []any{}
	for _, n := range ns {
		out = append(out, c.node(n))
	}
	return out
}

func (c *conv) node(n *ast.Node) map[string]any {
	if n == nil {
		return none()
	}
	switch n.NodeType {
	case ast.TypeIdentifier:
		return map[string]any{"k": "id", "n": n.Identifier().Name}
	case ast.TypeStringLiteral:
		return map[string]any{"k": "str", "s": intsOf(n.StringLiteral().Val), "name": asciiName(n.StringLiteral().Val)}
	case ast.TypeIntegerLiteral:
		return map[string]any{"k": "int", "i": encI64(n.IntegerLiteral().Val)}
	case ast.TypeFloatLiteral:
		return map[string]any{"k": "float", "f": encF64(n.FloatLiteral().Val)}
	case ast.TypeBoolLiteral:
		return map[string]any{"k": "bool", "b": n.BoolLiteral().Val}
	case ast.TypeNilLiteral:
		return map[string]any{"k": "nil"}
	case ast.TypeListLiteral:
		return map[string]any{"k": "list", "es": c.list(n.ListLiteral().List)}
	case ast.TypeMapLiteral:
		ks, vs := []any{}, []any{}
		for _, kv := range n.MapLiteral().KeyValeList {
			ks = append(ks, c.node(kv[0]))
			vs = append(vs, c.node(kv[1]))
		}
		return map[string]any{"k": "map", "ks": ks, "vs": vs,
			"nid": c.nid(int(n.MapLiteral().LBrace.Pos), int(n.MapLiteral().RBrace.Pos)+1)}
	case ast.TypeParenExpr:
		return map[string]any{"k": "paren", "e": c.node(n.ParenExpr().Param)}
	case ast.TypeAttrExpr:
		// the object and the attribute are expressions of their own (`.[f()].b`, `a.b[g()]`): the check pass descends into both
		return map[string]any{"k": "attr", "text": asciiName(n.AttrExpr().String()), "o": c.opt(n.AttrExpr().Obj), "a": c.opt(n.AttrExpr().Attr)}
	case ast.TypeIndexExpr:
		ix := n.IndexExpr()
		name, ho := "", false
		if ix.Obj != nil {
			name, ho = ix.Obj.Name, true
		}
		return map[string]any{"k": "idx", "n": name, "ho": ho, "is": c.list(ix.Index)}
	case ast.TypeUnaryExpr:
		return map[string]any{"k": "un", "op": string(n.UnaryExpr().Op), "e": c.node(n.UnaryExpr().RHS)}
	case ast.TypeArithmeticExpr:
		e := n.ArithmeticExpr()
		return map[string]any{"k": "bin", "op": string(e.Op), "l": c.node(e.LHS), "r": c.node(e.RHS)}
	case ast.TypeConditionalExpr:
		e := n.ConditionalExpr()
		return map[string]any{"k": "bin", "op": string(e.Op), "l": c.node(e.LHS), "r": c.node(e.RHS)}
	case ast.TypeInExpr:
		e := n.InExpr()
		return map[string]any{"k": "bin", "op": "in", "l": c.node(e.LHS), "r": c.node(e.RHS)}
	case ast.TypeAssignmentExpr:
		e := n.AssignmentExpr()
		return map[string]any{"k": "assign", "op": string(e.Op), "ls": c.list(e.LHS), "rs": c.list(e.RHS)}
	case ast.TypeCallExpr:
		e := n.CallExpr()
		id := c.nid(int(e.NamePos.Pos), int(e.RParen.Pos)+1) // preorder: the call before its arguments
		return map[string]any{"k": "call", "f": e.Name, "as": c.list(e.Param), "nid": id}
	case ast.TypeSliceExpr:
		e := n.SliceExpr()
		return map[string]any{"k": "slice", "o": c.node(e.Obj), "s": c.opt(e.Start), "e": c.opt(e.End), "st": c.opt(e.Step), "c2": e.Colon2}
	case ast.TypeIfelseStmt:
		e := n.IfelseStmt()
		cs, bs := []any{}, []any{}
		for _, it := range e.IfList {
			cs = append(cs, c.node(it.Condition))
			bs = append(bs, c.block(it.Block))
		}
		return map[string]any{"k": "if", "cs": cs, "bs": bs, "he": e.Else != nil, "eb": c.block(e.Else)}
	case ast.TypeForStmt:
		e := n.ForStmt()
		return map[string]any{"k": "for", "i": c.opt(e.Init), "c": c.opt(e.Cond), "p": c.opt(e.Loop), "b": c.block(e.Body)}
	case ast.TypeForInStmt:
		e := n.ForInStmt()
		v := ""
		if e.Varb != nil && e.Varb.NodeType == ast.TypeIdentifier {
			v = e.Varb.Identifier().Name
		}
		return map[string]any{"k": "forin", "v": v, "it": c.node(e.Iter), "b": c.block(e.Body)}
	case ast.TypeBreakStmt:
		return map[string]any{"k": "break", "nid": c.nid(int(n.BreakStmt().Start.Pos), int(n.BreakStmt().Start.Pos)+5)}
	case ast.TypeContinueStmt:
		return map[string]any{"k": "continue", "nid": c.nid(int(n.ContinueStmt().Start.Pos), int(n.ContinueStmt().Start.Pos)+8)}
	}
	return map[string]any{"k": "unknown", "type": fmt.Sprint(n.NodeType)}
}

// convScript converts a parsed script; returns the statement list and the sid spans.
func convScript(src string, ss ast.Stmts) ([]any, map[int]span) {
	c := &conv{src: src, spans: map[int]span{}, nids: map[int]span{}}
	out := c.stmts(ss, len(src))
	return out, c.spans
}

// convScriptN also returns the spans of the nid-carrying nodes.
func convScriptN(src string, ss ast.Stmts) ([]any, map[int]span, map[int]span) {
	c := &conv{src: src, spans: map[int]span{}, nids: map[int]span{}}
	out := c.stmts(ss, len(src))
	return out, c.spans, c.nids
}
