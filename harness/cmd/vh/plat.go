package main

import (
	"github.com/GuanceCloud/platypus/pkg/inimpl/guancecloud/funcs"
	"github.com/GuanceCloud/platypus/pkg/parser"
	"go.uber.org/zap"
)

// The repository's packages log to stdout at debug level by default; the harness owns stdout.
func init() {
	nop := zap.NewNop().Sugar()
	funcs.InitLog(nop)
	parser.InitLog(nop)
}
