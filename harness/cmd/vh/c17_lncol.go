package main

import (
	"encoding/json"
	"fmt"
	"reflect"

	"github.com/GuanceCloud/platypus/pkg/errchain"
	"github.com/GuanceCloud/platypus/pkg/token"
)

func init() {
	register("replay-lncol", replayLnCol)
	register("replay-errchain", replayErrChain)
}

// replay-lncol <vectors.ndjson>: {"text":[bytes],"lc":[[ln,col] for off=0..len]}
func replayLnCol(args []string) (any, error) {
	sum := &Summary{}
	err := readNDJSON(args[0], func(raw json.RawMessage) error {
		var v struct {
			Text []int   `json:"text"`
			LC   [][]int `json:"lc"`
		}
		if err := json.Unmarshal(raw, &v); err != nil {
			return err
		}
		text := bytesOf(v.Text)
		if len(v.LC) != len(text)+1 {
			return fmt.Errorf("bad vector: %d offsets for %d bytes", len(v.LC), len(text))
		}
		cache := token.NewPosCache(text)
		sum.Distinct++
		for off := -1; off <= len(text)+1; off++ {
			sum.Evaluations++
			ln, col, err := token.LnCol(text, token.Pos(off))
			c := cache.LnCol(token.Pos(off))
			if off < 0 || off > len(text) {
				if err == nil || c != token.InvalidLnColPos {
					sum.miss(fmt.Sprintf("lncol:%x:%d", text, off), map[string]any{
						"text": text, "off": off, "want": "invalid", "lncol_err": fmt.Sprint(err), "cache": c})
				}
				continue
			}
			w := v.LC[off]
			okA := err == nil && ln == w[0] && col == w[1]
			okB := c.Ln == w[0] && c.Col == w[1] && int(c.Pos) == off
			if !okA || !okB {
				sum.miss(fmt.Sprintf("lncol:%x:%d", text, off), map[string]any{
					"text": text, "off": off, "want": w, "lncol": []int{ln, col}, "lncol_err": fmt.Sprint(err), "cache": c})
			}
		}
		sum.sample(map[string]any{"text": text, "lc": v.LC})
		return nil
	})
	return sum, err
}

type specPos struct {
	File string `json:"file"`
	Ln   int    `json:"ln"`
	Col  int    `json:"col"`
	Pos  int    `json:"pos"`
}
type specErr struct {
	PosChain []specPos `json:"pos_chain"`
	Error    string    `json:"error"`
}

func sameChain(e *errchain.PlError, s specErr) bool {
	if e.Err != s.Error || len(e.PosChain) != len(s.PosChain) {
		return false
	}
	for i, p := range e.PosChain {
		q := s.PosChain[i]
		if p.File != q.File || p.Ln != q.Ln || p.Col != q.Col || p.Pos != q.Pos {
			return false
		}
	}
	return true
}

// replay-errchain <behaviours.ndjson>: every behaviour of the ErrChain spec is stepped through real
// PlError values; after the last op both chains, their rendering and JSON form are compared.
func replayErrChain(args []string) (any, error) {
	sum := &Summary{}
	err := readNDJSON(args[0], func(raw json.RawMessage) error {
		var v struct {
			Ops []struct {
				Op   string `json:"op"`
				File string `json:"file"`
				Msg  string `json:"msg"`
				P    []int  `json:"p"`
			} `json:"ops"`
			Orig       specErr `json:"orig"`
			Copy       specErr `json:"copy"`
			HasCopy    bool    `json:"hasCopy"`
			RenderOrig string  `json:"renderOrig"`
			RenderCopy string  `json:"renderCopy"`
		}
		if err := json.Unmarshal(raw, &v); err != nil {
			return err
		}
		sum.Evaluations++
		sum.Distinct++
		observeEach := sum.Evaluations%2 == 0
		var orig, cp *errchain.PlError
		sig := "errchain:"
		for _, o := range v.Ops {
			lp := token.LnColPos{}
			if len(o.P) == 3 {
				lp = token.LnColPos{Pos: token.Pos(o.P[0]), Ln: o.P[1], Col: o.P[2]}
			}
			sig += o.Op[:1]
			if len(o.Op) > 6 {
				sig += o.Op[6:7]
			}
			switch o.Op {
			case "new":
				orig = errchain.NewErr(o.File, lp, o.Msg)
			case "appendOrig":
				if r := orig.ChainAppend(o.File, lp); r != orig {
					sum.miss(sig+":ret", "ChainAppend must return its receiver")
				}
			case "copy":
				cp = orig.Copy()
			case "appendCopy":
				cp.ChainAppend(o.File, lp)
			}
			// observers are used after every operation (an error is logged, rendered, marshalled on its way up): looking at an
			// error must not change what it later renders to
			if observeEach {
				_ = orig.Error()
				_, _ = json.Marshal(orig)
				if cp != nil {
					_ = cp.Error()
				}
			}
		}
		bad := map[string]any{}
		if !sameChain(orig, v.Orig) {
			bad["orig"] = map[string]any{"want": v.Orig, "got": orig}
		}
		if v.HasCopy && !sameChain(cp, v.Copy) {
			bad["copy"] = map[string]any{"want": v.Copy, "got": cp}
		}
		if got := orig.Error(); got != v.RenderOrig {
			bad["render"] = map[string]any{"want": v.RenderOrig, "got": got}
		}
		if v.HasCopy {
			if got := cp.Error(); got != v.RenderCopy {
				bad["renderCopy"] = map[string]any{"want": v.RenderCopy, "got": got}
			}
		}
		// JSON: the spec's record (field names pos_chain/error/file/ln/col/pos) is the expected document.
		var wantDoc, gotDoc any
		wb, _ := json.Marshal(v.Orig)
		_ = json.Unmarshal(wb, &wantDoc)
		gb, err := json.Marshal(orig)
		if err != nil {
			bad["marshal"] = err.Error()
		} else {
			_ = json.Unmarshal(gb, &gotDoc)
			if !reflect.DeepEqual(wantDoc, gotDoc) {
				bad["json"] = map[string]any{"want": string(wb), "got": string(gb)}
			}
			var back errchain.PlError
			if err := json.Unmarshal(wb, &back); err != nil || !sameChain(&back, v.Orig) {
				bad["json_roundtrip"] = map[string]any{"doc": string(wb), "got": back, "err": fmt.Sprint(err)}
			}
			var back2 errchain.PlError
			if err := json.Unmarshal(gb, &back2); err != nil || !reflect.DeepEqual(back2.PosChain, orig.PosChain) || back2.Err != orig.Err {
				bad["json_roundtrip2"] = map[string]any{"doc": string(gb), "got": back2}
			}
		}
		// decoding a document into a value that was already rendered replaces it completely
		if wb2, err := json.Marshal(v.Copy); err == nil && v.HasCopy {
			_ = orig.Error()
			if err := json.Unmarshal(wb2, orig); err != nil || !sameChain(orig, v.Copy) || orig.Error() != v.RenderCopy {
				bad["decode_into_rendered"] = map[string]any{"doc": string(wb2), "got": orig, "render": orig.Error(), "want_render": v.RenderCopy}
			}
		}
		if len(bad) > 0 {
			sum.miss(sig, map[string]any{"ops": v.Ops, "bad": bad, "observed_after_each_op": observeEach})
		}
		sum.sample(map[string]any{"ops": v.Ops, "render": v.RenderOrig})
		return nil
	})
	return sum, err
}
