"""C10 — the point's key index always agrees with its tags and fields."""
import os

from lib import vlib
from checks.common import absorb, replay, tlc_emit, validate_traces

LEVEL = "model_checking"

INV = "INVARIANTS IndexAgrees Disjoint FieldTypes ReadBack NoPhantom TagMetaStr\nPROPERTIES Droppable Renamable KindsRefined"


def run(ck):
    q = ck.tier == "quick"
    rich, sample = ("FALSE", 0) if q else ("TRUE", 40)
    # the third key is `message`, which scripts can also spell `_`: the replay spells it both ways
    cfg = ("CONSTANTS Keys = {\"f0\",\"t0\",\"message\"}\nInitField = \"f0\"\nInitTag = \"t0\"\n"
           "WithBoolCastOfNumbers = FALSE\nRich = %s\nSampleOneIn = %d\nSPECIFICATION Spec\nVIEW view\n%s\n"
           "ACTION_CONSTRAINT EmitT\nCHECK_DEADLOCK FALSE\n") % (rich, sample, INV)
    res, rows = tlc_emit(ck, "Point", cfg, "Point(3 keys, rich=%s) complete state space" % rich, timeout=2400, xmx="24g",
                         seed=ck.seed)
    ck.note("exhaustive", True)
    replay(ck, "replay-point", rows, "point-transitions")
    if not q:
        # a fourth key (message) with the small value set: complete space, canonical transitions replayed
        cfg4 = ("CONSTANTS Keys = {\"f0\",\"t0\",\"message\",\"n1\"}\nInitField = \"f0\"\nInitTag = \"t0\"\n"
                "WithBoolCastOfNumbers = FALSE\nRich = FALSE\nSampleOneIn = 0\nSPECIFICATION Spec\nVIEW view\n%s\n"
                "ACTION_CONSTRAINT EmitT\nCHECK_DEADLOCK FALSE\n") % INV
        try:
            res, rows = tlc_emit(ck, "Point", cfg4, "Point(4 keys) complete state space", timeout=2400, xmx="40g")
            replay(ck, "replay-point", rows, "point-transitions-4")
        except vlib.Broken as e:
            ck.note("point4_skipped", str(e)[:200])
    # I->S: long random builtin sequences on one point, full projected state logged after every call
    d = vlib.workdir("rec")
    tr = os.path.join(d, "point.ndjson")
    n, ln = (30, 150) if q else (300, 400)
    r = vlib.vh_json(["record-point", "-seed", str(ck.seed), "-n", str(n), "-len", str(ln), "-keys", "12", "-out", tr])
    absorb(ck, r, "point-record")
    tcfg = ("CONSTANTS Keys = {\"k0\",\"k1\",\"k2\",\"k3\",\"k4\",\"k5\",\"k6\",\"k7\",\"k8\",\"k9\",\"k10\",\"k11\"}\n"
            "InitField = \"k0\"\nInitTag = \"k1\"\nWithBoolCastOfNumbers = FALSE\nRich = TRUE\nSampleOneIn = 0\n"
            "SPECIFICATION TraceSpec\nINVARIANTS IndexAgrees Disjoint FieldTypes ReadBack NoPhantom TagMetaStr\n"
            "CONSTRAINT HighWater\nPOSTCONDITION Accepted\nCHECK_DEADLOCK FALSE\n")
    validate_traces(ck, "TracePoint", tcfg, tr, "point", lambda rec: rec["op"]["o"] == "init", timeout=1800)
    # I->S over arbitrary values: extreme integers / floats / numeric texts / long and binary strings / nested collections; the
    # executions are projected to kinds and validated against PointKinds (which Point refines: property KindsRefined above)
    trk = os.path.join(d, "pointkinds.ndjson")
    n, ln = (60, 120) if q else (600, 300)
    r = vlib.vh_json(["record-point-kinds", "-seed", str(ck.seed + 17), "-n", str(n), "-len", str(ln), "-keys", "8", "-out", trk])
    absorb(ck, r, "point-record-extreme-values")
    kcfg = ("SPECIFICATION TraceSpec\nINVARIANTS IndexAgrees Disjoint FieldTypes TagMetaStr\n"
            "CONSTRAINT HighWater\nPOSTCONDITION Accepted\nCHECK_DEADLOCK FALSE\n")
    validate_traces(ck, "TracePointKinds", kcfg, trk, "point-kinds", lambda rec: rec["op"]["o"] == "init", timeout=1800)
    if not q:
        # for EVERY key set and any number of operations: the index invariants (with the strengthening TagMetaStr) are inductive
        # over PointKinds' actions - machine-checked proof (TLAPS), thorough tier
        pr = vlib.tlapm_prove("PointKindsProof")
        ck.note("tlaps_proof_PointKinds_index_invariants_inductive", pr)
    ck.cov["rule"] = ("S->I: TLC explores the COMPLETE reachable state space of the Point model over 3 keys (initial field, "
                      "initial tag, fresh key) and all builtin operations/value kinds; every canonical transition (bystander keys "
                      "in initial condition) - plus in thorough a 1-in-40 sample of all others and the canonical ones of a 4-key "
                      "model - is one real builtin call on a point constructed in the pre-state, comparing Meta/Fields/Tags/"
                      "measurement, Point.Get and a script-level read of every key; distinct_nontrivial = distinct (operation, "
                      "argument kind, key condition) classes. I->S: random sequences over 12 keys validated by TLC (TracePoint); random sequences over 42 EXTREME values "
                      "(largest / smallest int64, 2^63 as float, infinities, NaN, subnormals, numeric texts beyond int64, hex / padded / "
                      "exponent spellings, 10 kB and binary strings, nested collections) projected to kinds and validated by TLC against "
                      "TracePointKinds - the kind abstraction that Point is model-checked to refine (KindsRefined).")
    ck.assumptions += ["value domain = concrete representatives closed under the operations",
                       "cast(number, \"bool\") is excluded here and decided under C11"]
