--------------------------------- MODULE Check ---------------------------------
(* Load-time acceptance (C08): a script is accepted iff every call in it -   *)
(* in ANY syntactic position - names a registered function and satisfies     *)
(* that function's argument-shape rules, every break/continue lies inside a  *)
(* loop, and map-literal keys are not non-string literals.  Declarative      *)
(* structural recursion over the tree (astconv JSON); it visits every child  *)
(* of every node kind.  First(...) is the offending construct a              *)
(* left-to-right, arguments-before-call walk meets first.                    *)
EXTENDS Patterns, Json, IOUtils

Programs == ndJsonDeserialize(IOEnv.PROG_FILE)

KeyName(e) == e.k \in {"id", "attr", "str"}
IsStr(e) == e.k = "str"
N(as) == Len(as)
HasSub(s, sub) == \E i \in 1..(Len(s) - Len(sub) + 1) : SubSeq(s, i, i + Len(sub) - 1) = sub
NOSUCH == <<78, 79, 83, 85, 67, 72>>      \* "NOSUCH": pattern names containing it are not defined anywhere
PatternOK(e) == ~HasSub(e.s, NOSUCH)

\* argument-shape rules of the registered functions (from the *Checking functions and md/fn.md)
ShapeV1(f, as) ==
  CASE f = "add_key" -> N(as) \in {1, 2} /\ KeyName(as[1])
    [] f = "get_key" -> N(as) = 1 /\ KeyName(as[1])
    [] f = "set_tag" -> N(as) \in {1, 2} /\ KeyName(as[1]) /\ (N(as) = 2 => as[2].k \in {"str", "id", "attr"})
    [] f = "drop_key" -> N(as) = 1 /\ KeyName(as[1])
    [] f = "rename" -> N(as) = 2 /\ KeyName(as[1]) /\ as[2].k \in {"id", "attr"}
    [] f = "cast" -> N(as) = 2 /\ KeyName(as[1]) /\ IsStr(as[2]) /\ as[2].name \in {"bool", "int", "float", "str", "string"}
    [] f = "set_measurement" -> N(as) \in {1, 2} /\ KeyName(as[1]) /\ (N(as) = 2 => as[2].k = "bool")
    [] f = "len" -> N(as) = 1
    [] f = "load_json" -> N(as) = 1
    [] f = "strfmt" -> N(as) >= 2 /\ KeyName(as[1]) /\ IsStr(as[2])
    [] f = "printf" -> N(as) >= 1 /\ KeyName(as[1])
    [] f = "trim" -> N(as) \in {1, 2} /\ KeyName(as[1]) /\ (N(as) = 2 => IsStr(as[2]))
    [] f \in {"uppercase", "url_decode", "sql_cover"} -> N(as) = 1 /\ KeyName(as[1])
    [] f = "replace" -> N(as) = 3 /\ KeyName(as[1]) /\ IsStr(as[2]) /\ IsStr(as[3])
    [] f = "xml" -> N(as) = 3 /\ KeyName(as[1]) /\ IsStr(as[2]) /\ as[3].k \in {"attr", "id", "str"}
    [] f = "datetime" -> N(as) = 3 /\ KeyName(as[1]) /\ IsStr(as[2]) /\ IsStr(as[3])
    [] f = "default_time" -> N(as) >= 1 /\ KeyName(as[1]) /\ (N(as) > 1 => IsStr(as[2]))
    [] f = "grok" -> N(as) \in {2, 3} /\ (N(as) = 3 => as[3].k = "bool") /\ KeyName(as[1]) /\ IsStr(as[2])
    [] f = "add_pattern" -> N(as) = 2 /\ IsStr(as[1]) /\ IsStr(as[2])
    [] f = "use" -> N(as) = 1 /\ IsStr(as[1])
    [] f = "exit" -> TRUE
    [] f = "probe" -> TRUE
    [] f = "pv" -> N(as) = 1
    [] OTHER -> FALSE
Named(e) == e.k = "assign"
ShapeV2(f, as) ==
  CASE f \in {"void", "probe"} -> \A i \in 1..N(as) : ~Named(as[i])      \* variadic: no named arguments
    [] f = "one" -> N(as) = 1 /\ (Named(as[1]) => (as[1].ls[1].k = "id" /\ as[1].ls[1].n = "x"))
    [] f = "two" -> N(as) = 0
    [] OTHER -> FALSE

BadMapKey(e) == e.k \in {"float", "int", "bool", "nil", "list", "map"}

\* first offender (nid) in es[i..], or 0
RECURSIVE First(_, _, _, _), FirstIn(_, _, _, _, _), FirstStmts(_, _, _, _, _)
FirstIn(es, i, fns, v2, depth) ==
  IF i > Len(es) THEN 0
  ELSE LET x == First(es[i], fns, v2, depth) IN IF x # 0 THEN x ELSE FirstIn(es, i + 1, fns, v2, depth)
FirstStmts(ss, i, fns, v2, depth) == FirstIn(ss, i, fns, v2, depth)

Seq2(a, b) == IF a # 0 THEN a ELSE b
Interleave(ks, vs) == [i \in 1..(2 * Len(ks)) |-> IF i % 2 = 1 THEN ks[(i + 1) \div 2] ELSE vs[i \div 2]]

First(e, fns, v2, depth) ==
  CASE e.k \in {"nil", "bool", "int", "float", "str", "id", "none"} -> 0
    [] e.k = "attr" -> Seq2(First(e.o, fns, v2, depth), First(e.a, fns, v2, depth))     \* object, then attribute
    [] e.k = "paren" -> First(e.e, fns, v2, depth)
    [] e.k = "un" -> First(e.e, fns, v2, depth)
    [] e.k = "bin" -> (IF e.op = "in" THEN Seq2(First(e.r, fns, v2, depth), First(e.l, fns, v2, depth))
                       ELSE Seq2(First(e.l, fns, v2, depth), First(e.r, fns, v2, depth)))
    [] e.k = "list" -> FirstIn(e.es, 1, fns, v2, depth)
    [] e.k = "map" -> (LET bad == {i \in 1..Len(e.ks) : BadMapKey(e.ks[i])}
                           fb == IF bad = {} THEN 0 ELSE CHOOSE i \in bad : \A j \in bad : i <= j
                           upto == IF fb = 0 THEN Len(e.ks) ELSE fb - 1
                           inner == FirstIn(Interleave(SubSeq(e.ks, 1, upto), SubSeq(e.vs, 1, upto)), 1, fns, v2, depth)
                       IN IF inner # 0 THEN inner ELSE IF fb # 0 THEN e.nid ELSE 0)
    [] e.k = "idx" -> FirstIn(e.is, 1, fns, v2, depth)
    [] e.k = "slice" -> Seq2(First(e.o, fns, v2, depth), Seq2(First(e.s, fns, v2, depth),
                             Seq2(First(e.e, fns, v2, depth), First(e.st, fns, v2, depth))))
    [] e.k = "assign" -> Seq2(FirstIn(e.ls, 1, fns, v2, depth), FirstIn(e.rs, 1, fns, v2, depth))
    [] e.k = "call" ->
         IF ~(e.f \in fns) THEN e.nid
         ELSE LET inner == FirstIn(e.as, 1, fns, v2, depth)
              IN IF inner # 0 THEN inner
                 ELSE IF ~(IF v2 THEN ShapeV2(e.f, e.as) ELSE ShapeV1(e.f, e.as)) THEN e.nid
                 ELSE IF ~v2 /\ e.f \in {"grok", "add_pattern"} /\ ~e.res THEN e.nid      \* a pattern name defined nowhere in scope
                 ELSE 0
    [] e.k = "if" -> (LET RECURSIVE Br(_)
                          Br(j) == IF j > Len(e.cs) THEN (IF e.he THEN FirstStmts(e.eb, 1, fns, v2, depth) ELSE 0)
                                   ELSE Seq2(First(e.cs[j], fns, v2, depth),
                                             Seq2(FirstStmts(e.bs[j], 1, fns, v2, depth), Br(j + 1)))
                      IN Br(1))
    [] e.k = "for" -> Seq2(First(e.i, fns, v2, depth), Seq2(First(e.c, fns, v2, depth),
                           Seq2(FirstStmts(e.b, 1, fns, v2, depth + 1), First(e.p, fns, v2, depth + 1))))
    [] e.k = "forin" -> Seq2(First(e.it, fns, v2, depth), FirstStmts(e.b, 1, fns, v2, depth + 1))
    [] e.k \in {"break", "continue"} -> IF depth = 0 THEN e.nid ELSE 0
    [] OTHER -> 0

V1Fns == {"add_key", "get_key", "set_tag", "drop_key", "rename", "cast", "set_measurement", "len", "load_json", "strfmt",
          "printf", "trim", "uppercase", "url_decode", "sql_cover", "replace", "xml", "datetime", "default_time", "grok",
          "add_pattern", "use", "exit", "probe", "pv"}
V2Fns == {"void", "one", "two", "probe"}
ToSetS(s) == {s[i] : i \in 1..Len(s)}

VARIABLE res
Init == \E i \in 1..Len(Programs) :
          LET p == Programs[i]
              fns == (IF p.v2 THEN V2Fns ELSE V1Fns) \ ToSetS(p.without)
              off == FirstStmts(Annotate(p.scripts[p.main]), 1, fns, p.v2, 0)
          IN res = [id |-> p.id, accept |-> off = 0, nid |-> off]
Next == UNCHANGED res
Spec == Init /\ [][Next]_res
Emit == PrintT("@@" \o ToJson(res))
=============================================================================
