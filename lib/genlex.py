"""Inputs for the lexer trace validation (C05): all byte strings up to a length over an alphabet of byte classes."""
import itertools

ALPHA = [b"a", b"1", b"0", b"x", b"e", b".", b'"', b"'", b"`", b"\\", b"\n", b" ", b"#", b"(", b")", b"[", b"]", b"{", b"}", b"+", b"-",
         b"=", b"!", b"<", b"&", b"|", b",", b":", b";", b"*", "é".encode(), b"\xff", b"\t", b"/", b"%", b">", b"_", b"\x00"]


def gen_inputs(maxlen, alpha=None):
    alpha = alpha or ALPHA
    for k in range(0, maxlen + 1):
        for combo in itertools.product(alpha, repeat=k):
            yield {"s": list(b"".join(combo))}
