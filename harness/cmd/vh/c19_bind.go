package main

import (
	"encoding/json"
	"fmt"
	"reflect"
	"strings"

	"github.com/GuanceCloud/platypus/pkg/ast"
	"github.com/GuanceCloud/platypus/pkg/engine"
	"github.com/GuanceCloud/platypus/pkg/engine/runtimev2"
	"github.com/GuanceCloud/platypus/pkg/errchain"
)

func init() {
	register("replay-bindsig", replayBindSig)
	register("replay-bind", replayBind)
}

type specParam struct {
	Name string `json:"name"`
	Kind string `json:"kind"`
}

func mkParams(ps []specParam) []*runtimev2.Param {
	out := make([]*runtimev2.Param, len(ps))
	for i, p := range ps {
		q := &runtimev2.Param{Name: p.Name}
		if p.Name == "uni" { // placeholder for a one-letter non-ASCII name (see BindSig.tla)
			q.Name = "é"
		}
		switch p.Kind {
		case "opt":
			d := fmt.Sprintf("def%d", i+1)
			q.Val = func() any { return d }
		case "var":
			q.Variable = true
		}
		out[i] = q
	}
	return out
}

func sigText(ps []specParam) string {
	parts := []string{}
	for _, p := range ps {
		parts = append(parts, fmt.Sprintf("%s:%q", p.Kind, p.Name))
	}
	return "(" + strings.Join(parts, ",") + ")"
}

func replayBindSig(args []string) (any, error) {
	sum := &Summary{}
	err := readNDJSON(args[0], func(raw json.RawMessage) error {
		var v struct {
			Params []specParam `json:"params"`
			Valid  bool        `json:"valid"`
		}
		if err := json.Unmarshal(raw, &v); err != nil {
			return err
		}
		sum.Evaluations++
		sum.Distinct++
		err := runtimev2.CheckFnParamDef(mkParams(v.Params))
		if (err == nil) != v.Valid {
			sum.miss("bindsig:"+sigText(v.Params), map[string]any{"params": v.Params, "want_valid": v.Valid, "got_err": fmt.Sprint(err)})
		}
		sum.sample(map[string]any{"params": sigText(v.Params), "valid": v.Valid})
		return nil
	})
	return sum, err
}

func replayBind(args []string) (any, error) {
	sum := &Summary{}
	err := readNDJSON(args[0], func(raw json.RawMessage) error {
		var v struct {
			Params []specParam `json:"params"`
			Args   []struct {
				Named bool   `json:"named"`
				Name  string `json:"name"`
			} `json:"args"`
			Accepted bool     `json:"accepted"`
			Binding  [][]any  `json:"binding"`
			Kinds    []string `json:"kinds"`
		}
		if err := json.Unmarshal(raw, &v); err != nil {
			return err
		}
		sum.Evaluations++
		params := mkParams(v.Params)
		if e := runtimev2.CheckFnParamDef(params); e != nil {
			sum.miss("bind-sig:"+sigText(v.Params), map[string]any{"params": v.Params, "unexpected_invalid": e.Error()})
			return nil
		}
		for variant := 0; variant < 2; variant++ { // variant 1: every second argument is the literal nil (a given nil is still given)
			parts := []string{}
			npos := 0
			argLit := func(k int) string { // the literal of argument k (1-based): kind by position, value carries k
				if variant == 1 && k%2 == 0 {
					return "nil"
				}
				switch k % 5 {
				case 1:
					return fmt.Sprint(k)
				case 2:
					return fmt.Sprintf("\"s%d\"", k)
				case 3:
					return fmt.Sprintf("%d.5", k)
				case 4:
					return "true"
				}
				return fmt.Sprintf("[%d]", k)
			}
			argVal := func(k int) any {
				if variant == 1 && k%2 == 0 {
					return nil
				}
				switch k % 5 {
				case 1:
					return int64(k)
				case 2:
					return fmt.Sprintf("s%d", k)
				case 3:
					return float64(k) + 0.5
				case 4:
					return true
				}
				return []any{int64(k)}
			}
			for k, a := range v.Args {
				if a.Named {
					parts = append(parts, fmt.Sprintf("%s=%s", a.Name, argLit(k+1)))
				} else {
					parts = append(parts, argLit(k+1))
					npos++
				}
			}
			text := "f(" + strings.Join(parts, ", ") + ")"
			sig := "bind:" + sigText(v.Params) + text
			var got []any
			var getErr *errchain.PlError
			typed := map[string][]bool{} // getter -> success per parameter
			fn := map[string]*runtimev2.Fn{"f": {
				CallCheck: func(ctx *runtimev2.Task, e *ast.CallExpr) *errchain.PlError {
					return runtimev2.CheckPassParam(ctx, e, params)
				},
				Call: func(ctx *runtimev2.Task, e *ast.CallExpr) *errchain.PlError {
					for i := range params {
						x, err := runtimev2.GetParam(ctx, e, params, i)
						if err != nil {
							getErr = err
							return err
						}
						got = append(got, x)
						_, e1 := runtimev2.GetParamInt(ctx, e, params, i)
						_, e2 := runtimev2.GetParamFloat(ctx, e, params, i)
						_, e3 := runtimev2.GetParamBool(ctx, e, params, i)
						_, e4 := runtimev2.GetParamString(ctx, e, params, i)
						_, e5 := runtimev2.GetParamList(ctx, e, params, i)
						_, e6 := runtimev2.GetParamMap(ctx, e, params, i)
						for g, ee := range map[string]*errchain.PlError{"int": e1, "float": e2, "bool": e3, "str": e4, "list": e5, "map": e6} {
							typed[g] = append(typed[g], ee == nil)
						}
					}
					return nil
				},
			}}
			sc, lerr := engine.ParseV2("s.p", text, fn)
			if (lerr == nil) != v.Accepted {
				sum.miss(sig, map[string]any{"params": v.Params, "call": text, "want_accepted": v.Accepted, "load_err": fmt.Sprint(lerr)})
				return nil
			}
			if v.Accepted {
				sum.Distinct++
				// checking a loaded script again (Script.Check is the host's API) accepts it again and changes nothing about the binding
				if sum.Evaluations%2 == 0 {
					if e := sc.Check(); e != nil {
						sum.miss(sig+":recheck", map[string]any{"params": v.Params, "call": text, "second_check": e.Error()})
						return nil
					}
				}
				rerr := sc.Run(nil)
				want := []any{}
				for i, b := range v.Binding {
					switch b[0].(string) {
					case "arg":
						want = append(want, argVal(int(b[1].(float64))))
					case "default":
						want = append(want, fmt.Sprintf("def%d", i+1))
					case "rest":
						rest := []any{}
						for k := int(b[1].(float64)); k <= npos; k++ {
							rest = append(rest, argVal(k))
						}
						want = append(want, rest)
					}
				}
				norm := func(xs []any) []any {
					out := make([]any, len(xs))
					for i, x := range xs {
						if s, ok := x.([]any); ok && len(s) == 0 {
							out[i] = []any{}
						} else {
							out[i] = x
						}
					}
					return out
				}
				if rerr != nil || getErr != nil || !reflect.DeepEqual(norm(got), norm(want)) {
					sum.miss(sig, map[string]any{"params": v.Params, "call": text, "want": fmt.Sprint(want), "got": fmt.Sprint(got), "run_err": fmt.Sprint(rerr)})
				} else if variant == 0 {
					for i, kind := range v.Kinds {
						for g, oks := range typed {
							wantOK := kind == g
							if kind == "rest" {
								wantOK = g == "list" // a variadic tail is a list (nil when empty: only the list getter is checked loosely)
								if g != "list" || len(got[i].([]any)) == 0 {
									continue
								}
							}
							if i < len(oks) && oks[i] != wantOK {
								sum.miss(sig+":getter:"+g, map[string]any{"params": v.Params, "call": text, "param": i, "bound_kind": kind, "getter": g,
									"want_success": wantOK, "got_success": oks[i]})
							}
						}
					}
				}
			}
			if variant == 0 {
				sum.sample(map[string]any{"params": sigText(v.Params), "call": text, "accepted": v.Accepted, "binding": v.Binding})
			}
		}
		return nil
	})
	return sum, err
}
