"""Helpers shared by the per-property checks."""
import json
import os

from lib import vlib


def tlc_emit(ck, module, cfg, label, workers=None, timeout=900, **kw):
    """Exhaustive TLC run of a committed spec: must verify (else exit 2); returns emitted records."""
    res = vlib.tlc(module, cfg, workers=workers or vlib.NCPU, timeout=timeout, **kw)
    vlib.tlc_must_pass(res, label)
    ck.add_tlc(res, label)
    return res, res.emitted()


def replay(ck, cmd, rows, label, extra_args=(), race=False, shards=1, env=None):
    """Feed TLC-emitted vectors to the harness; every mismatch is a reproduced behaviour of the real code."""
    d = vlib.workdir("vec")
    path = os.path.join(d, label + ".ndjson")
    vlib.write_ndjson(path, rows)
    res = vlib.vh_json([cmd, path] + list(extra_args), race=race, env=env)
    return absorb(ck, res, label)


def absorb(ck, res, label):
    ck.add("evaluations", res["evaluations"])
    ck.add("distinct_nontrivial", res.get("distinct", 0))
    ck.cov.setdefault("parts", {})[label] = {"evaluations": res["evaluations"], "distinct": res.get("distinct", 0),
                                             "mismatches": len(res.get("mismatches") or [])}
    if res.get("extra"):
        ck.cov["parts"][label]["extra"] = res["extra"]
    for s in (res.get("samples") or [])[:2]:
        ck.sample({label: s})
    for m in res.get("mismatches") or []:
        ck.disagreement(m["sig"], {"part": label, **(m["detail"] if isinstance(m["detail"], dict) else {"detail": m["detail"]})})
    return res
