package main

import (
	"github.com/GuanceCloud/platypus/pkg/ast"
	"github.com/GuanceCloud/platypus/pkg/engine"
	plruntime "github.com/GuanceCloud/platypus/pkg/engine/runtime"
	"github.com/GuanceCloud/platypus/pkg/errchain"
	"github.com/GuanceCloud/platypus/pkg/inimpl/guancecloud/funcs"
)

// Probed is one observation made by the host-supplied probe() builtin: the evaluated arguments.
type Probed struct {
	Vals  []any
	Types []ast.DType
}

// snap deep-copies a script value at observation time (lists and maps are shared and mutable); cyclic
// structures are cut off at a fixed depth.
func snap(v any, d int) any {
	if d == 0 {
		return nil
	}
	switch x := v.(type) {
	case []any:
		out := make([]any, len(x))
		for i, e := range x {
			out[i] = snap(e, d-1)
		}
		return out
	case map[string]any:
		out := make(map[string]any, len(x))
		for k, e := range x {
			out[k] = snap(e, d-1)
		}
		return out
	}
	return v
}

// funcTables returns the real builtin tables extended with probe(...), which evaluates each argument
// with the interpreter and appends what it received to *log.
func funcTables(log *[]Probed) (map[string]plruntime.FuncCall, map[string]plruntime.FuncCheck) {
	call := map[string]plruntime.FuncCall{}
	check := map[string]plruntime.FuncCheck{}
	for k, v := range funcs.FuncsMap {
		call[k] = v
	}
	for k, v := range funcs.FuncsCheckMap {
		check[k] = v
	}
	call["probe"] = func(ctx *plruntime.Task, e *ast.CallExpr) *errchain.PlError {
		p := Probed{}
		for _, a := range e.Param {
			v, t, err := plruntime.RunStmt(ctx, a)
			if err != nil {
				return err
			}
			p.Vals = append(p.Vals, snap(v, 8))
			p.Types = append(p.Types, t)
		}
		if log != nil {
			*log = append(*log, p)
		}
		return nil
	}
	check["probe"] = func(ctx *plruntime.Task, e *ast.CallExpr) *errchain.PlError { return nil }
	// pv(x): logs its argument like probe and returns it (observes evaluation order / exactly-once)
	call["pv"] = func(ctx *plruntime.Task, e *ast.CallExpr) *errchain.PlError {
		v, t, err := plruntime.RunStmt(ctx, e.Param[0])
		if err != nil {
			return err
		}
		if log != nil {
			*log = append(*log, Probed{Vals: []any{snap(v, 8)}, Types: []ast.DType{t}})
		}
		ctx.Regs.ReturnAppend(v, t)
		return nil
	}
	check["pv"] = func(ctx *plruntime.Task, e *ast.CallExpr) *errchain.PlError {
		if len(e.Param) != 1 {
			return plruntime.NewRunError(ctx, "pv expects 1 arg", e.NamePos)
		}
		return nil
	}
	return call, check
}

type scriptCache struct {
	log   []Probed
	call  map[string]plruntime.FuncCall
	check map[string]plruntime.FuncCheck
	m     map[string]*plruntime.Script
	errs  map[string]error
}

func newScriptCache() *scriptCache {
	c := &scriptCache{m: map[string]*plruntime.Script{}, errs: map[string]error{}}
	c.call, c.check = funcTables(&c.log)
	return c
}

// load returns the loaded single script "s.p" for the text (cached), or its load error.
func (c *scriptCache) load(text string) (*plruntime.Script, error) {
	if s, ok := c.m[text]; ok {
		return s, nil
	}
	if e, ok := c.errs[text]; ok {
		return nil, e
	}
	ok, errs := engine.ParseScript(map[string]string{"s.p": text}, c.call, c.check)
	if e, bad := errs["s.p"]; bad {
		c.errs[text] = e
		return nil, e
	}
	c.m[text] = ok["s.p"]
	return ok["s.p"], nil
}
