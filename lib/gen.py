"""Program-set generators for the PlMachine specification (texts; the harness parses them with the real
parser, TLC evaluates the trees, the harness replays TLC's behaviours into the real interpreter).

A program set: {"id","v2","main","scripts":{name:text},"pt":{"meas","tags","fields"},"fuel","maporders","tag"}
"""
import itertools
import json
import random

EMPTY_PT = {"meas": "m", "tags": {}, "fields": {}}
STD_PT = {"meas": "m", "tags": {"tg": "tv"}, "fields": {"fi": 7, "ff": 1.5, "fs": "sv", "fb": True, "fn": None,
                                                         "message": "msg"}}


def ps(pid, text, pt=None, v2=False, fuel=None, extra=None, maporders=False, tag=""):
    scripts = {"main.p": text}
    if extra:
        scripts.update(extra)
    n = sum(t.count("\n") + t.count(";") + 1 for t in scripts.values())
    return {"id": pid, "v2": v2, "main": "main.p", "scripts": scripts, "pt": pt or EMPTY_PT,
            "fuel": fuel or min(40 * n + 200, 1500), "maporders": maporders, "tag": tag}


# ------------------------------------------------------------------------------------------------
# C02 operator table

# (name, literal spelling or None, statements that build it into variable `%s`, storable point value or NOSTORE)
NOSTORE = object()
INT_MIN_EXPR = "-9223372036854775807 - 1"
OPERANDS = [
    ("nil", "nil", None), ("true", "true", True), ("false", "false", False),
    ("i0", "0", 0), ("i1", "1", 1), ("im1", "-1", -1), ("i2", "2", 2), ("im2", "-2", -2), ("i7", "7", 7),
    ("i2p53m1", "9007199254740991", 9007199254740991), ("i2p53", "9007199254740992", 9007199254740992),
    ("i2p53p1", "9007199254740993", 9007199254740993), ("im2p53p1", "-9007199254740993", -9007199254740993),
    ("imaxm1", "9223372036854775806", 9223372036854775806), ("imax", "9223372036854775807", 9223372036854775807),
    ("iminp1", "-9223372036854775807", -9223372036854775807), ("imin", "(" + INT_MIN_EXPR + ")", -9223372036854775808),
    ("f0", "0.0", 0.0), ("fhalf", "0.5", 0.5), ("fm1h", "-1.5", -1.5), ("f2", "2.0", 2.0), ("f01", "0.1", 0.1),
    ("f2p53", "9007199254740992.0", 9007199254740992.0), ("fbig", "1e300", 1e300), ("fmbig", "-1e300", -1e300),
    ("finf", "inf", NOSTORE), ("fnan", "nan", NOSTORE),
    ("sempty", '""', ""), ("sa", '"a"', "a"), ("sab", '"ab"', "ab"), ("s1", '"1"', "1"),
    ("l0", "[]", NOSTORE), ("l1", "[1]", NOSTORE), ("l1a", '[1, "a"]', NOSTORE),
    ("m0", "{}", NOSTORE), ("ma", '{"a": 1}', NOSTORE),
    # containers holding containers (membership and equality compare element-wise, whatever the elements are)
    ("ll1", "[[1]]", NOSTORE), ("lma", '[{"a": 1}, [1]]', NOSTORE), ("mma", '{"a": {"a": 1}}', NOSTORE),
    # present keys / elements holding nil are present
    ("mnil", '{"a": nil}', NOSTORE), ("lnil", "[nil]", NOSTORE),
]
QUICK_OPERANDS = {"nil", "true", "false", "i0", "i1", "im1", "i7", "i2p53p1", "i2p53", "imax", "imin", "f0", "fhalf", "fm1h",
                  "f2p53", "fbig", "fnan", "sempty", "sa", "s1", "l1", "ma"}
BINOPS = ["+", "-", "*", "/", "%", "==", "!=", "<", "<=", ">", ">=", "&&", "||", "in"]
ASSIGNOPS = ["+=", "-=", "*=", "/=", "%="]
INT_BIG = {"i2p53p1", "im2p53p1", "imaxm1", "imax", "iminp1", "imin", "i2p53m1"}
FLOATS = {"f0", "fhalf", "fm1h", "f2", "f01", "f2p53", "fbig", "fmbig", "finf", "fnan"}


def _ambiguous(op, a, b):
    """Mixed int/float equality beyond 2^53: exact and promoted comparison differ; both are allowed."""
    return op in ("==", "!=") and ((a in INT_BIG and b in FLOATS) or (b in INT_BIG and a in FLOATS))


def _zero_literal_divisor(op, b):
    return op in ("/", "%") and b in ("i0", "f0", "false")


def gen_ops(quick, seed):
    rng = random.Random(seed)
    ops = [o for o in OPERANDS if (not quick or o[0] in QUICK_OPERANDS)]
    out = []
    n = 0
    for (an, al, av), (bn, bl, bv) in itertools.product(ops, ops):
        for op in BINOPS:
            if _ambiguous(op, an, bn):
                continue
            n += 1
            pid = "op:%s%s%s" % (an, op, bn)
            # literal operands (a zero literal divisor is rejected by the parser: use a variable there)
            if _zero_literal_divisor(op, bn) and bn != "false":
                text = "b = %s\nprobe(%s %s b)" % (bl, al, op)
            else:
                text = "probe(%s %s %s)" % (al, op, bl)
            out.append(ps(pid + ":ll", text, tag="operator table, literal operands"))
            # other operand sources: variable / point key (sampled in quick, all in thorough)
            srcs = []
            if not quick or rng.random() < 0.15:
                srcs.append("vv")
            if av is not NOSTORE and bv is not NOSTORE and (not quick or rng.random() < 0.15):
                srcs += ["pp", "vp", "pv"]
            for s in srcs:
                pt = {"meas": "m", "tags": {}, "fields": {}}
                pre = []
                A, B = "a", "b"
                if s[0] == "v":
                    pre.append("a = %s" % al)
                else:
                    pt["fields"]["pa"] = av
                    A = "pa"
                if s[1] == "v":
                    pre.append("b = %s" % bl)
                else:
                    pt["fields"]["pb"] = bv
                    B = "pb"
                out.append(ps(pid + ":" + s, "\n".join(pre + ["probe(%s %s %s)" % (A, op, B)]), pt=pt,
                              tag="operator table, operands from variables / point keys"))
        for op in ASSIGNOPS:
            if True:
                out.append(ps("op:%s%s%s" % (an, op, bn), "x = %s\ny = %s\nx %s y\nprobe(x)" % (al, bl, op),
                              tag="compound assignment"))
            # the target is a name that exists only as a key of the point (the right operand: a variable or another key): the result
            # is bound to the name - later reads see it, a second compound assignment builds on it
            if av is not NOSTORE and (not quick or rng.random() < 0.25):
                pt = {"meas": "m", "tags": {}, "fields": {"px": av}}
                text = "y = %s\npx %s y\nprobe(px)\npx %s y\nprobe(px, px)" % (bl, op, op)
                if bv is not NOSTORE and rng.random() < 0.5:
                    pt["fields"]["py"] = bv
                    text = "px %s py\nprobe(px)\npx %s py\nprobe(px, py)" % (op, op)
                out.append(ps("op:%s%s%s:pk" % (an, op, bn), text, pt=pt, tag="compound assignment to a name that is only a point key"))
    if quick:
        # containers holding containers: membership / equality / concatenation-like operators against every container class
        nested = [o for o in OPERANDS if o[0] in ("ll1", "lma", "mma", "mnil", "lnil")]
        cont = [o for o in OPERANDS if o[0] in ("l0", "l1", "l1a", "m0", "ma", "ll1", "lma", "mma", "mnil", "lnil", "nil", "i1", "sa")]
        for (an, al, av), (bn, bl, bv) in list(itertools.product(nested, cont)) + list(itertools.product(cont, nested)):
            for op in ["in", "==", "!=", "+", "<", "&&"]:
                out.append(ps("op:%s%s%s:nst" % (an, op, bn), "probe(%s %s %s)" % (al, op, bl), tag="operator table, nested containers"))
                out.append(ps("op:%s%s%s:nstv" % (an, op, bn), "a = %s\nb = %s\nprobe(a %s b)" % (al, bl, op), tag="operator table, nested containers"))
    for (an, al, av) in ops:
        for u in ["-", "+", "!"]:
            out.append(ps("un:%s%s" % (u, an), "x = %s\nprobe(%sx)" % (al, u), tag="unary operator"))
            if av is not NOSTORE:
                out.append(ps("un:%s%s:p" % (u, an), "probe(%spx)" % u, pt={"meas": "m", "tags": {}, "fields": {"px": av}},
                              tag="unary operator on a point key"))
    # compound assignment: the right operand is evaluated exactly once - also when the target does not exist, exists only as a point key,
    # or is of a kind the operator refuses (pv logs its argument and returns it)
    for op in ASSIGNOPS:
        for pre, tgt in [("", "u"), ("", "px"), ("x = 1\n", "x"), ('x = "s"\n', "x"), ("x = nil\n", "x"), ("x = [1]\n", "x"), ("x = 1.5\n", "x")]:
            for rhs in ["pv(3)", "pv(2) + pv(1)", 'pv("t")', "pv(nil)"]:
                out.append(ps("casg:%s%s%s%s" % (pre[:6], tgt, op, rhs), "%s%s %s %s\nprobe(%s)\nprobe(9)" % (pre, tgt, op, rhs, tgt),
                              pt={"meas": "m", "tags": {}, "fields": {"px": 4}}, tag="compound assignment: right operand evaluated once, whatever the target"))
    # evaluation order, exactly once, short circuit: pv(x) logs its argument and returns it
    vals = ["true", "false", "1", "0", '"s"', "nil", "1.5"]
    for op in BINOPS:
        for a, b in itertools.product(vals, vals):
            out.append(ps("ord:%s%s%s" % (a, op, b), "probe(pv(%s) %s pv(%s))" % (a, op, b), tag="evaluation order / short circuit"))
    # nested trees of depth 2 over a few operators and leaves
    leaves = ["1", "2.5", "true", '"a"', "nil", "-3", "9223372036854775807", "[1]"]
    tops = ["+", "*", "==", "<", "&&", "||", "-", "/"]
    trees = []
    for o1, o2, o3 in itertools.product(tops, repeat=3):
        for ls in ([rng.sample(leaves, 4) for _ in range(1 if quick else 4)]):
            trees.append("(%s %s %s) %s (%s %s %s)" % (ls[0], o2, ls[1], o1, ls[2], o3, ls[3]))
            trees.append("%s %s %s %s %s %s %s" % (ls[0], o2, ls[1], o1, ls[2], o3, ls[3]))
    for i, t in enumerate(trees):
        out.append(ps("tree:%d" % i, "probe(%s)" % t, tag="expression tree"))
    seen, uniq = set(), []
    for p in out:
        if p["id"] not in seen:
            seen.add(p["id"])
            uniq.append(p)
    return uniq


# ------------------------------------------------------------------------------------------------
# C04 slices, indexing, aliasing

EXTREMES = ["9223372036854775807", "(" + INT_MIN_EXPR + ")", "4611686018427387904", "-4611686018427387904"]


def gen_slices(quick, seed):
    rng = random.Random(seed)
    if quick:
        bounds = [None, "-7", "-3", "-1", "0", "1", "2", "5", "8", EXTREMES[0], EXTREMES[1]]
    else:
        bounds = [None] + [str(i) for i in range(-8, 9)] + EXTREMES[:2]
    out = []
    objs = []
    for n in range(0, 6):
        objs.append(("list%d" % n, "[" + ", ".join(str(10 + i) for i in range(n)) + "]"))
        objs.append(("str%d" % n, '"' + "abcde"[:n] + '"'))
    objs.append(("strmb", '"aé世b"'))       # multi-byte runes: slices are by bytes (consistent with len())
    objs.append(("listmix", '[1, "a", [2], nil, 1.5]'))
    combos = [(s, e, st) for s in bounds for e in bounds for st in bounds]
    if quick:
        rng.shuffle(combos)
    per = 40
    for oname, olit in objs:
        cs = combos if not quick else combos[:480]
        good = [c for c in cs if c[2] != "0"]
        for bi in range(0, len(good), per):
            lines = ["x = %s" % olit]
            for (s, e, st) in good[bi:bi + per]:
                spell = "%s:%s" % (s or "", e or "")
                if st is not None:
                    spell += ":%s" % st
                lines.append("probe(x[%s])" % spell)
            out.append(ps("slice:%s:%d" % (oname, bi), "\n".join(lines), tag="python slice semantics"))
        # step 0 and ill-typed bounds are errors (one per program)
        for bad in ["x[::0]", "x[1:2:0]", "x[s:]", "x[:f]", "x[::b]", "x[l:]", "x[:m]"]:
            out.append(ps("slice:%s:bad:%s" % (oname, bad), 's = "a"\nf = 1.5\nb = true\nl = [1]\nm = {}\nx = %s\nprobe(%s)\nprobe(1)' % (olit, bad),
                          tag="slice errors"))
        # omitted-bound spellings incl. trailing colon forms
        for sp in ["x[:]", "x[::]", "x[1:]", "x[1::]", "x[:2]", "x[:2:]", "x[::2]", "x[1:3]", "x[1:3:]", "x[1::2]", "x[:3:2]", "x[1:4:2]",
                   "x[::-1]", "x[-1::-1]", "x[:-3:-1]", "x[4:0:-2]"]:
            out.append(ps("slice:%s:form:%s" % (oname, sp), "x = %s\nprobe(%s)" % (olit, sp), tag="the slice forms"))
    # slicing other objects: literals, calls, slices of slices; slice result is a fresh list
    out.append(ps("slice:fresh", "a = [1, 2, 3]\nb = a[:]\nb[0] = 9\nprobe(a, b)\nc = a[1:]\nc[0] = 8\nprobe(a, c)", tag="slice copies"))
    out.append(ps("slice:nested", "a = [[1], [2], [3]]\nb = a[1:]\nx = b[0]\nx[0] = 7\nprobe(a, b)", tag="slice shares elements"))
    out.append(ps("slice:lit", 'probe([1,2,3][1:], "hello"[1:3], [1,2,3,4][::2][1:])', tag="slice of literals"))
    out.append(ps("slice:nonseq", "x = 5\nprobe(x[1:])", tag="slice of a non-sequence"))
    out.append(ps("slice:map", 'x = {"a": 1}\nprobe(x[1:])', tag="slice of a map"))
    return out


def gen_index(quick, seed):
    out = []
    shapes = [
        ('[1, [2, 3], {"k": [4, {"z": 5}]}]', ["0", "1", "2", "-1", "-3", "3", "-4", '"k"', "1.5", "nil", "true"]),
        ('{"a": [1, 2], "b": {"c": 3}, "d": nil}', ['"a"', '"b"', '"d"', '"zz"', "0", "-1", "nil"]),
    ]
    n = 0
    for lit, keys in shapes:
        paths = [[k] for k in keys] + [[a, b] for a in keys for b in keys]
        if not quick:
            paths += [[a, b, c] for a in keys[:5] + keys[7:8] for b in keys[:5] + keys[7:8] for c in keys[:4] + keys[7:8]]
        for p in paths:
            n += 1
            path = "".join("[%s]" % k for k in p)
            out.append(ps("idx:get:%d" % n, "x = %s\nprobe(x%s)\nprobe(x)" % (lit, path), tag="index read"))
            out.append(ps("idx:set:%d" % n, "x = %s\nx%s = 99\nprobe(x)" % (lit, path), tag="index write"))
            if len(p) <= 2:
                out.append(ps("idx:aug:%d" % n, "x = %s\nx%s += 1\nprobe(x)" % (lit, path), tag="index compound write"))
    base = ["x = 5\nprobe(x[0])", 'x = "abc"\nprobe(x[0])', "probe(nosuch[0])", "x = nil\nx[0] = 1\nprobe(x)",
            "x = [1]\nx[0][0] = 2\nprobe(x)", 'x = {}\nx["a"]["b"] = 1\nprobe(x)', 'x = {}\nx["a"] = 1\nx["b"] = x\nprobe(len(x))',
            "x = [1,2]\nprobe(x[9223372036854775807])", "x = [1,2]\nprobe(x[%s])" % EXTREMES[1],
            'probe(len([1,2,3]), len("hé"), len({"a":1,"b":2}), len(5), len(nil), len([]))',
            'x = [1, "a", nil, 2.5, [1], {"k": 1}]\nprobe(1 in x, "a" in x, nil in x, 2.5 in x, [1] in x, {"k": 1} in x, 1.0 in x, "b" in x)',
            'probe("a" in "cat", "" in "cat", "x" in "cat", "a" in {"a": 1}, "b" in {"a": 1})',
            'probe(1 in "cat")', 'probe(1 in {"a": 1})', "probe(1 in 5)", 'probe("a" in nil)',
            # text in text: a text contains itself, the empty text is in every text (also in the empty one), a longer one is in no shorter one;
            # operands of equal length, from literals, variables, slices and point keys
            'probe("abc" in "abc", "" in "", "a" in "a", "ab" in "ba", "abc" in "ab", "bc" in "abc", "hé" in "hé", "é" in "hé", "h" in "é")',
            's = "abc"\nt = "abc"\nprobe(s in s, s in t, s[1:] in "bc", "bc" in s[1:], s[:0] in s[:0], s in s[1:], fs in fs, fs in "sv", "sv" in fs, tg in "tv")',
            'for a in ["", "a", "ab", "ba"] {\nfor b in ["", "a", "ab", "ba"] {\nprobe(a, b, a in b)\n}\n}',
            # a literal written directly as an argument is evaluated like anywhere else: repeated keys collapse, a failing element is
            # an error, elements are evaluated (once, in order)
            'probe(len({"a": 1, "b": 2, "a": 3}))', 'm = {"a": 1, "b": 2, "a": 3}\nprobe(m, len(m))', 'z = [1, 2, 3]\nprobe(len([z[0], z[7]]))\nprobe(9)',
            'probe(len([1 + nil]))\nprobe(9)', 'probe(len({"a": nosuch[0]}))\nprobe(9)', 'probe(len([pv(1), pv(2)]), len({"k": pv(3)}), len("a" + "bc"))',
            'for k in {"a": 1, "a": 2} {\nprobe(k)\n}', 'probe("a" in {"a": 1, "a": nil}, 1 in [pv(1), pv(1)])', 'add_key(n, len({"x": 1, "x": 1}))\nprobe(n)',
            'probe(len([]), len({}), len(""), len([[]]), len({"": nil}))', 'x = len([nosuch, nil, a.b])\nprobe(x)']
    for i, t in enumerate(base):
        out.append(ps("idx:misc:%d" % i, t, tag="indexing / len / in"))
    out.append(ps("idx:point", 'probe(fs[0])', pt=STD_PT, tag="index of a point string"))
    return out


def gen_alias(quick, seed):
    rng = random.Random(seed)
    out = []
    fixed = [
        'a = [1, 2]\nb = a\nb[0] = 9\nprobe(a, b)',
        'a = {"k": [1]}\nb = a["k"]\nb[0] = 7\nprobe(a, b)\na["k"] = [5]\nprobe(a, b)',
        'a = [[1], [2]]\nfor v in a { v[0] = 0 }\nprobe(a)',
        'a = [1, 2]\nadd_key(snap, a)\na[0] = 5\nadd_key(snap2, a)\nprobe(a)',
        'a = {"x": 1}\nb = a\nadd_key(s1, b)\nb["y"] = [a]\nprobe(len(a))',
        'a = [1]\nb = [a, a]\na[0] = 2\nprobe(b)\nc = b[0]\nc[0] = 3\nprobe(a, b)',
        'm = {"l": [1, 2, 3]}\nt = m["l"]\ns = t[1:]\ns[0] = 0\nprobe(m, s)',
        'a = [1]\nb = a\na = [2]\nprobe(a, b)',
        'a = {"p": {"q": 1}}\nb = a["p"]\na["p"]["q"] = 2\nprobe(b)\nb["r"] = 3\nprobe(a)',
        # every evaluation of a literal is a fresh container (also the empty ones, also the same literal evaluated again)
        'a = {}\na["k"] = 1\nb = {}\nprobe(a, b, len({}), "k" in {})\nadd_key(e, {})',
        'a = [0]\na[0] = 1\nb = [0]\nprobe(a, b, [0])',
        'r = [0, 0, 0]\nfor i = 0; i < 3; i = i + 1 {\nm = {}\nprobe(m)\nm["k"] = i\nr[i] = m\n}\nprobe(r)',
        'r = [0, 0]\nfor i = 0; i < 2; i = i + 1 {\nl = [0, []]\nprobe(l)\nl[0] = i + 1\nr[i] = l\n}\nprobe(r)',
        'for v in [1, 2] {\nm = {"n": 0, "e": {}}\nprobe(m)\nm["n"] = v\nm["e"]["x"] = v\n}\nprobe({}, {"n": 0, "e": {}})',
        'a = {}\nb = a\nc = {}\nb["x"] = 1\nc["y"] = 2\nprobe(a, b, c)',
        # the same call site / literal evaluated again (next loop round) after its earlier result was changed in place
        'for i = 0; i < 3; i = i + 1 {\na = load_json("[1,\\"a\\",null]")\nprobe(a)\na[0] = 99\na[2] = i\n}\nprobe(a)',
        'keep = [0, 0]\nfor i = 0; i < 2; i = i + 1 {\nm = load_json("{\\"a\\":{\\"b\\":[true]}}")\nprobe(m)\nm["a"]["b"][0] = i\nm["n"] = i\nkeep[i] = m\n}\nprobe(keep)',
        'for v in [1, 2] {\nl = [v, [0]]\nprobe(l)\nl[1][0] = v\n}\nfor v in [1, 2] {\nx = load_json(fj)\nprobe(x)\nx[0] = v\n}',
        # an empty literal is an empty container like any other: same snapshot text, equal to and contained like an empty slice result
        'one = [1]\nprobe([] == one[1:], one[1:] == [], [] in [one[1:]], one[1:] in [[]], [] != one[1:])\nadd_key(s1, [])\nadd_key(s2, [[], 1])\n'
        'add_key(s3, {"k": []})\nadd_key(s4, one[1:])\nadd_key(s5, {})\nprobe(len([]), [] == [], {} == {})',
        'e = []\nm = {"k": e, "l": [e]}\nadd_key(s1, m)\nset_tag(t1, e)\nprobe(m, e == m["k"], e in m["l"])',
    ]
    for i, t in enumerate(fixed):
        out.append(ps("alias:%d" % i, t, pt={"meas": "m", "tags": {}, "fields": {"fj": '[1,"a",null]'}}, tag="aliasing"))
    # random alias / mutation / snapshot programs
    for k in range(150 if quick else 1500):
        names = ["a", "b", "c"]
        lines = ['a = [1, [2, 3], {"k": 4}]', 'b = {"x": a, "y": [5]}', "c = a[1]"]
        for j in range(rng.randint(4, 10)):
            r = rng.random()
            v = rng.choice(names)
            if r < 0.25:
                lines.append("%s = %s" % (rng.choice(names), rng.choice(["a", "b", "c", "a[1]", 'b["y"]', 'b["x"]', "[7]", '{"n": 1}', "a[:2]", "{}", "[]", "[0]"])))
            elif r < 0.55:
                tgt = rng.choice(["a[0]", "a[1][0]", 'a[2]["k"]', 'b["y"][0]', 'b["x"][0]', "c[0]", "c[1]", 'b["z"]', "a[-1]", 'c["w"]', 'a["w"]'])
                lines.append("%s = %s" % (tgt, rng.choice(["0", '"s"', "nil", "c", "[8]", "1.5"])))
            elif r < 0.7:
                lines.append("add_key(k%d, %s)" % (j, v))
            else:
                lines.append("probe(a, b, c)")
        lines.append("probe(a, b, c)")
        out.append(ps("alias:r%d" % k, "\n".join(lines), tag="random aliasing / mutation / snapshots"))
    return out


# ------------------------------------------------------------------------------------------------
# error propagation: a failing sub-expression in every expression and statement position

ERR_ATOMS = ["(pv(3) + nil)", "a[pv(5)]", "m[pv(1)]", "(-pv(\"s\"))", "nosuch[pv(0)]", "a[0:1:pv(0)]"]
ERR_EXPR_POS = [
    "-@E@", "!@E@", "(@E@)", "[pv(1), @E@, pv(2)]", '{"a": pv(1), "b": @E@, "c": pv(2)}', "a[@E@]", "m[@E@]", "n[0][@E@]", "n[@E@][0]",
    '@E@ in "s"', '"s" in @E@', "@E@ in a", "pv(1) in @E@", "a[@E@:1]", "a[0:@E@]", "a[0:2:@E@]", "a[pv(0):@E@:pv(1)]", "@E@[0:1]", "@E@[0]",
    "@E@ + pv(1)", "pv(1) + @E@", "pv(1) * @E@ - pv(2)", "pv(true) && @E@", "pv(false) && @E@", "pv(true) || @E@", "pv(false) || @E@",
    "@E@ && pv(true)", "@E@ || pv(true)", "@E@ == pv(1)", "pv(1) < @E@", "@E@ != @E@", "len(@E@)", "pv(@E@)", "[[@E@]]", '{"k": [@E@]}',
    "a[0] + a[@E@]", "-(-@E@)", "!(pv(1) == @E@)",
]
ERR_STMT_POS = [
    "for i = @E@; i < 2; i = i + 1 { probe(i) }", "for i = 0; @E@; i = i + 1 { probe(i) }", "for i = 0; i < 2; i = @E@ { probe(i) }",
    "for i = 0; i < 2; i = i + 1 { probe(i)\nx = @E@\nprobe(i) }", "for v in @E@ { probe(v) }", "for v in [1, 2] { probe(v)\nx = @E@ }",
    "for v in a { for w in [@E@] { probe(w) } }", 'for v in "ab" { probe(v)\nx = @E@ }', 'for v in {"k": 1} { probe(v)\nx = @E@ }', 'for v in "a" { if v { x = @E@ } }',
    'for v in [1] { for w in "xy" { x = @E@ } }', "if @E@ { probe(1) } else { probe(2) }",
    "if false { probe(1) } elif @E@ { probe(2) } else { probe(3) }", "if true { probe(1) } elif @E@ { probe(2) }",
    "if false { } elif false { } elif @E@ { probe(2) } else { probe(3) }", "if true { x = @E@ } else { probe(3) }",
    "x = @E@", "x = 1\nx += @E@", "x = 1\nx -= @E@", "a[@E@] = 5", "a[0] = @E@", "a[@E@] += 1", "a[0] += @E@", "a[0] /= @E@", 'm["k"][@E@] = 1',
    'm[@E@] = 1', 'm["k"][0] = @E@', "n[@E@][0] = 1", "n[0][@E@] *= 2", "add_key(k1, @E@)", "probe(pv(1), @E@, pv(2))", "@E@",
    "x = y = @E@" if False else "x = [@E@]", "if !@E@ { probe(1) }", "for ; !(@E@); { probe(1)\nbreak }",
]


def gen_errprop(quick, seed, which="both"):
    """A failing sub-expression in every position: the effects before it happen (in order), nothing after it does, the error
    carries the position of the failing construct."""
    rng = random.Random(seed)
    out = []
    pre = 'probe(0)\na = [1, 2, 3]\nm = {"k": [1, 2]}\nn = [[1, 2], [3]]\n'
    atoms = ERR_ATOMS
    n = 0
    if which in ("both", "expr"):
        for pos in ERR_EXPR_POS:
            for e in atoms:
                n += 1
                body = "probe(%s)" % pos.replace("@E@", e)
                out.append(ps("errx:%d" % n, pre + body + "\nprobe(9)", tag="failing sub-expression in every expression position"))
                if not quick or rng.random() < 0.3:
                    out.append(ps("errx:%dv" % n, pre + "x = " + pos.replace("@E@", e) + "\nprobe(x)\nprobe(9)",
                                  tag="failing sub-expression in every expression position"))
    if which in ("both", "stmt"):
        for pos in ERR_STMT_POS:
            for e in atoms:
                n += 1
                out.append(ps("errs:%d" % n, pre + pos.replace("@E@", e) + "\nprobe(9)", tag="failing sub-expression in every statement position"))
        # the same through use(): the callee fails, the caller's chain gets the call site
        for pos in ERR_STMT_POS[:: (4 if quick else 1)]:
            e = rng.choice(atoms)
            n += 1
            out.append(ps("erru:%d" % n, "probe(0)\nuse(\"b.p\")\nprobe(9)", extra={"b.p": pre + pos.replace("@E@", e) + "\nprobe(8)"},
                          tag="failing sub-expression in a used script"))
    return out


# ------------------------------------------------------------------------------------------------
# C03 control flow and scoping

TRUTH = [("0", False), ("1", True), ("-1", True), ("0.0", False), ("0.5", True), ('""', False), ('"x"', True), ("nil", False),
         ("[]", False), ("[0]", True), ("{}", False), ('{"a": nil}', True), ("true", True), ("false", False), ("nan", True)]


def gen_control(quick, seed):
    rng = random.Random(seed)
    out = []
    n = 0
    conds = [c for c, _ in TRUTH]
    # if / elif / else: all truthiness classes in every position of a 3-way chain
    for c1, c2 in itertools.product(conds, conds):
        n += 1
        out.append(ps("if:%d" % n, "if %s { probe(1) } elif %s { probe(2) } else { probe(3) }\nprobe(4)" % (c1, c2), tag="if/elif/else"))
    # empty blocks: a taken branch without statements is still the taken branch
    for c1, c2 in itertools.product(["0", "1", '""', '"x"', "[]", "nil"], repeat=2):
        n += 1
        out.append(ps("ife:%d" % n, "if %s { } elif %s { } else { probe(3) }\nprobe(4)\nif %s { probe(1) } elif %s { } else { probe(5) }\n"
                      "if %s { } else { probe(6) }\nif %s { } elif %s { probe(7) }\nprobe(8)" % (c1, c2, c1, c2, c2, c1, c2), tag="if/elif/else with empty blocks"))
    for c1 in ["0", "1"]:
        out.append(ps("ife:else:%s" % c1, "if %s { probe(1) } else { }\nprobe(2)\nif %s { } else { }\nprobe(3)\nif %s { } elif 1 { probe(4) } else { }\nprobe(5)" % (c1, c1, c1),
                      tag="if/elif/else with empty blocks"))
    for t in ["\n\n", "# c\nprobe(1)\n# d", "probe(1);probe(2)\n;\nprobe(3)"]:    # ("" and a comment alone are syntax errors)
        n += 1
        out.append(ps("ife:prog:%d" % n, t, tag="empty / comment-only programs and separators"))
    out.append(ps("ife:loop", "n = 0\nfor v in [1, 2, 3, 4] {\nif v == 2 { } elif v == 3 { } else { n = n + 1 }\n}\nprobe(n)\n"
                  "for i = 0; i < 3; i = i + 1 { if i == 1 { } else { probe(i) } }", tag="if/elif/else with empty blocks"))
    for c in conds:
        out.append(ps("if1:%s" % c, "c = %s\nif c { probe(1) }\nif c { probe(2) } else { probe(3) }\nif fs { probe(5) }\nif nosuch { probe(6) }" % c,
                      pt=STD_PT, tag="if with condition from a variable / point"))
    # for: the 8 header shapes, with break/continue
    inits = ["", "i = 0"]
    cnds = ["", "i < 3"]
    posts = ["", "i = i + 1"]
    for a, b, c in itertools.product(inits, cnds, posts):
        for body in ["probe(i)", "probe(i)\nif i == 1 { continue }\nprobe(9)", "if i >= 2 { break }\nprobe(i)"]:
            n += 1
            pre = "i = 0\n" if not a else ""
            inner = body
            if not c:
                inner = body.replace("{ continue }", "{ i = i + 1\ncontinue }") + "\ni = i + 1"
            if not b:
                inner = "if i >= 3 { break }\n" + inner
            out.append(ps("for:%d" % n, "%sfor %s; %s; %s {\n%s\n}\nprobe(i)" % (pre, a, b, c, inner), tag="three-clause for"))
    for body in ["probe(i)", "if i == 2 { continue }\nprobe(i)", "if i == 2 { break }\nprobe(i)", "if i == 2 { exit() }\nprobe(i)"]:
        n += 1
        out.append(ps("forpost:%d" % n, "i = 0\nfor ; i < 4; probe(8, i) {\ni = i + 1\n%s\n}\nprobe(i)" % body, tag="for with a visible loop clause"))
    # for-in over list / string / map / point value; nested loops; break / continue only innermost
    iters = ['[1, "a", nil]', '"ab"', '"hé世"', '{"k1": 1}', "[]", '""', "{}", "fs", "lst", "[[1, 2], [3]]"]
    for it in iters:
        out.append(ps("forin:%s" % it, "lst = [4, 5]\nfor v in %s {\nprobe(v)\n}\nprobe(v)" % it, pt=STD_PT, tag="for-in"))
        out.append(ps("forin:b:%s" % it, "lst = [4, 5]\nn = 0\nfor v in %s {\nn = n + 1\nif n == 2 { break }\nprobe(v)\n}\nprobe(n)" % it, pt=STD_PT, tag="for-in break"))
        out.append(ps("forin:c:%s" % it, "lst = [4, 5]\nn = 0\nfor v in %s {\nn = n + 1\nif n == 1 { continue }\nprobe(v)\n}\nprobe(n)" % it, pt=STD_PT, tag="for-in continue"))
    # the loop variable spelled `_` (the alias of message) or `message`: it is assigned like any variable - through the alias
    for i, t in enumerate(['for _ in [1, 2] {\nprobe(_, message)\n}\nprobe(_, message)', 'for _ in "ab" {\nprobe(_)\nadd_key(k, _)\n}', 'message = "outer"\nfor _ in [7] {\nprobe(message)\n}\nprobe(message, _)',
                           'for message in [1, 2] {\nprobe(_, message)\n}', 'for _ in {"a": 1} {\nprobe(_, message)\n}\nprobe(message)', '_ = 0\nfor _ in [1, 2, 3] {\n}\nprobe(_, message)',
                           'for _ in [1, 2] {\nfor message in ["x"] {\nprobe(_, message)\n}\nprobe(_)\n}']):
        out.append(ps("forin:alias:%d" % i, t, pt=STD_PT, tag="for-in whose loop variable is the message alias"))
    out.append(ps("forin:map2", 'for k in {"a": 1, "b": 2} {\nprobe(k)\n}', maporders=True, tag="for-in over a map: any key order"))
    out.append(ps("forin:map3", 'm = {"a": 1, "b": 2, "c": 3}\ns = 0\nfor k in m {\ns = s + m[k]\n}\nprobe(s)', maporders=True, tag="for-in map sum"))
    for bad in ["5", "nil", "true", "1.5"]:
        out.append(ps("forin:bad:%s" % bad, "x = %s\nfor v in x { probe(v) }\nprobe(1)" % bad, tag="for-in over a non-iterable"))
    nest = """for i = 0; i < 3; i = i + 1 {
  for j in [0, 1, 2] {
    if j == 1 { %s }
    if i == 1 { %s }
    probe(i, j)
  }
  probe(i)
}
probe(i, j)"""
    for x, y in itertools.product(["continue", "break", "probe(7)"], repeat=2):
        out.append(ps("nest:%s:%s" % (x, y), nest % (x, y), tag="nested loops: break/continue affect the innermost loop"))
    # scoping
    scope = [
        "x = 1\nif true { x = 2\ny = 3\nprobe(x, y) }\nprobe(x, y)",
        "if true { z = 1 } else { z = 2 }\nprobe(z)",
        "x = 1\nfor i = 0; i < 2; i = i + 1 { x = x + 1\nw = i\nprobe(w) }\nprobe(x, w, i)",
        "for v in [1, 2] { t = v\nprobe(t) }\nprobe(t, v)",
        "for v in [1, 2] { if v == 2 { probe(t) }\nt = v }",
        "v = 9\nfor v in [1, 2] { probe(v) }\nprobe(v)",
        "fi = 100\nprobe(fi)\nif true { fi = fi + 1 }\nprobe(fi)",
        "probe(fi, fs, tg, nosuch, _)\nif fb { q = fi }\nprobe(q)",
        "x = 1\nif x { if x { x = 5\nu = 1 }\nprobe(u) }\nprobe(x, u)",
        "a = 1\nif true { a += 1\nb = a }\nb += 1\nprobe(a, b)",
        "fi += 1\nprobe(fi)\nnosuch += 1\nprobe(nosuch)",
        "i = 5\nfor i = 0; i < 2; i = i + 1 { }\nprobe(i)",
        "for i = 0; i < 2; i = i + 1 { k = i }\nfor j = 0; j < 1; j = j + 1 { probe(k, i) }",
        "_ = 5\nprobe(_, message)",
        # loop clauses run in the loop's scope, never in a body scope: names first assigned in the body are invisible to the
        # condition / post clause and to the next iteration; names first assigned by a clause are visible to every iteration
        "for i = 0; i < 3; i = i + step { step = 1\nprobe(i) }\nprobe(9)",
        "for i = 0; i == 0 || more; i = i + 1 { more = false\nprobe(i) }\nprobe(9)",
        "for i = 0; i < 2; k = i { if i == 1 { probe(k) }\ni = i + 1 }\nprobe(i, k)",
        "k = 5\nfor i = 0; i < 2; i = i + 1 { probe(k)\nk = 7 }\nprobe(k)",
        "for i = 0; i < 2; i = i + 1 { probe(t)\nt = i }\nprobe(9)",
        "for i = 0; t < 2 && i < 4; i = i + 1 { t = i + 5\nprobe(i) }\nprobe(9)",
        "for i = 0; i < 2; i = i + 1 { if i == 0 { s = 1 } else { probe(s) } }\nprobe(9)",
        "n = 0\nfor ; n < 2; n = n + 1 { for v in [1] { q = v }\nprobe(q, v) }\nprobe(9)",
        "for i = 0; i < 2; probe(b, i) { b = i\ni = i + 1 }\nprobe(9)",
        "for c = 0; c < 2; c = c + 1 { if c == 1 { break }\nd = c }\nprobe(c, d)",
        "for v in [1, 2, 3] { if v == 2 { continue }\nprobe(r)\nr = v }\nprobe(9)",
    ]
    # for-in: body-local names never survive an iteration - whatever the number of locals, whether or not the loop variable's name
    # already exists outside, for every kind of iterable (the point has keys named like some locals)
    for nloc, outer, it in itertools.product([0, 1, 2, 3], [False, True], ['["a", "b", "c"]', '"abc"', '{"p": 1, "q": 2}', "[[1], [2]]"]):
        locs = ["fs", "l2", "fi"][:nloc]
        body = "probe(%s)\n" % ", ".join(["v"] + locs) + "".join("%s = v\n" % l for l in locs)
        scope.append(("v = 0\n" if outer else "") + "for v in %s {\n%s}\nprobe(%s)" % (it, body, ", ".join(["v"] + locs)))
    # ... also when the iteration before was left through continue (or the one before that through a nested break): a name assigned in
    # one pass is not there in the next, for every kind of loop
    for it, first, second in [('["a", "b", "c"]', '"a"', '"b"'), ('"abc"', '"a"', '"b"'), ("[1, 2]", "1", "2")]:
        for leave in ["if v == %s { continue }" % first, "if v == %s {\nif true { continue }\n}" % first, "for w in [1] { break }", ""]:
            scope.append("for v in %s {\nif v == %s { probe(r) }\nr = v\n%s\nprobe(8)\n}\nprobe(9)" % (it, second, leave))
    for leave in ["if i == 0 { continue }", "if i == 0 {\nif true { continue }\n}", ""]:
        scope.append("for i = 0; i < 3; i = i + 1 {\nif i == 1 { probe(r) }\nr = i\n%s\nprobe(8)\n}\nprobe(9)" % leave)
    # the loop's own scope exists whatever clauses are present: a name first assigned by ANY clause of a three-clause for (also when
    # the init clause is absent) is gone after the loop; reads after the loop see the point's key or nil
    for init, cond, post in itertools.product(["", "i = 0", "fs = 0"], ["", "n < 3"], ["", "last = n", "fi = n", "n = n + 1"]):
        scope.append("n = 0\nfor %s; %s; %s {\nn = n + 1\nif n > 3 { break }\n}\nprobe(n, i, last, fi, fs)" % (init, cond, post))
    for t in ["n = 0\nfor ; n < 2; q = n {\nn = n + 1\nprobe(q)\n}\nprobe(q)\nfor ; n < 4; q = n {\nn = n + 1\nprobe(q)\n}",
              "for ;; z = 1 {\nif z { break }\n}\nprobe(z)", "if true {\nfor ; nosuch == nil; nosuch = 1 { }\nprobe(nosuch)\n}\nprobe(nosuch)"]:
        scope.append(t)
    # an assignment updates the nearest variable of that name whatever the value is (nil, zero, empty): the variable stays a variable
    for val in ["nil", "0", '""', "[]", "{}", "false", "nosuch", "q.r"]:
        scope.append("x = 1\nif true {\nx = %s\nprobe(x)\nx = 2\n}\nprobe(x)" % val)
        scope.append("fi = %s\nprobe(fi)\nif true { probe(fi)\nfi = 3 }\nprobe(fi)" % val)
        scope.append("fs = \"seen\"\nfs = %s\nprobe(fs)\nfs += \"x\"\nprobe(fs)" % val)
        scope.append("v = 0\nfor v in [1, %s, 3] { }\nprobe(v)\nfor i = 0; i < 2; i = i + 1 { v = %s\nv = i }\nprobe(v)" % (val if val != "q.r" else "nil", val))
    for i, t in enumerate(scope):
        out.append(ps("scope:%d" % i, t, pt=STD_PT, maporders="{" in t, tag="scoping"))
    # random nestings
    for k in range(250 if quick else 3000):
        out.append(ps("ctl:r%d" % k, rand_block(rng, 0, 3 if quick else 4, ["x", "y", "z"], in_loop=False), pt=STD_PT,
                      tag="random control flow"))
    return out


def rand_expr(rng, names, depth=0):
    r = rng.random()
    if depth > 1 or r < 0.45:
        return rng.choice(["0", "1", "2", '"s"', "nil", "true", "false", "1.5"] + names + ["fi", "fs", "nosuch"])
    if r < 0.8:
        return "%s %s %s" % (rand_expr(rng, names, depth + 1), rng.choice(["+", "-", "*", "==", "<", "!="]), rand_expr(rng, names, depth + 1))
    if r < 0.9:
        return "(%s)" % rand_expr(rng, names, depth + 1)
    return "len(%s)" % rand_expr(rng, names, depth + 1)


def rand_cond(rng, names):
    return rng.choice(["%s < 2" % rng.choice(names), "%s == 1" % rng.choice(names), "true", "false", rng.choice(names), "fs", "nosuch",
                       "%s != nil" % rng.choice(names)])


def rand_block(rng, depth, maxd, names, in_loop):
    lines = []
    for _ in range(rng.randint(1, 4)):
        r = rng.random()
        n = rng.choice(names)
        if depth < maxd and r < 0.2:
            lines.append("if %s {\n%s\n}%s" % (rand_cond(rng, names), rand_block(rng, depth + 1, maxd, names, in_loop),
                                              (" else {\n%s\n}" % rand_block(rng, depth + 1, maxd, names, in_loop)) if rng.random() < 0.4 else ""))
        elif depth < maxd and r < 0.32:
            v = "i%d" % depth
            lines.append("for %s = 0; %s < %d; %s = %s + 1 {\n%s\n}" % (v, v, rng.randint(1, 3), v, v,
                                                                         rand_block(rng, depth + 1, maxd, names + [v], True)))
        elif depth < maxd and r < 0.42:
            v = "e%d" % depth
            lines.append("for %s in %s {\n%s\n}" % (v, rng.choice(['[1, 2]', '"ab"', '{"k": 1}', "[]"]),
                                                    rand_block(rng, depth + 1, maxd, names + [v], True)))
        elif in_loop and r < 0.5:
            lines.append("if %s { %s }" % (rand_cond(rng, names), rng.choice(["break", "continue"])))
        elif r < 0.75:
            lines.append("%s = %s" % (n, rand_expr(rng, names)))
        elif r < 0.82:
            lines.append("%s %s %s" % (n, rng.choice(ASSIGNOPS), rng.choice(["1", "2", n, '"s"'])))
        else:
            lines.append("probe(%s)" % ", ".join(rng.sample(names, min(len(names), 2))))
    lines.append("probe(%s)" % ", ".join(names[:3]))
    return "\n".join(lines)


# ------------------------------------------------------------------------------------------------
# C13 use() / exit(), C14 cancellation, C01 hostile atoms, C18 v2

def gen_use(quick, seed):
    rng = random.Random(seed)
    out = []
    stmts_main = ["x = 1", "probe(x, y, fi)", 'use("b.p")', "probe(x, y, fi)", "add_key(km, x)", "probe(km, kb)"]
    stmts_b = ["probe(x, y)", "y = 2\nx = 5", "add_key(kb, y)", 'use("c.p")', "probe(x, y, fi, km)"]
    stmts_c = ["probe(x, y, kb)", "add_key(kc, 3)", "x = 7"]
    base_extra = {"b.p": "\n".join(stmts_b), "c.p": "\n".join(stmts_c)}
    out.append(ps("use:base", "\n".join(stmts_main), pt=STD_PT, extra=base_extra, tag="use(): shared point, separate variables"))
    # exit() / error injected at every statement position of every script, also inside branches and loops
    wrappers = ["%s", "if true {\n%s\n}", "for i = 0; i < 2; i = i + 1 {\n%s\n}", "for v in [1, 2] {\nif v == 2 {\n%s\n}\nprobe(v)\n}",
                "w = 0\nfor ; w < 2; add_key(pst, w) {\nw = w + 1\n%s\n}", "w = 0\nfor ; w < 3; probe(7, w) {\nw = w + 1\nif w == 2 {\n%s\n}\n}",
                'for c in "xy" {\n%s\nprobe(c)\n}', 'for k in {"a": 1} {\n%s\n}',
                # several elements still to come, and a statement with an effect before the injected one
                'for k in {"a": 1, "b": 2} {\nadd_key(cnt, k)\n%s\nprobe(k)\n}', 'for v in [1, 2, 3] {\nprobe(v)\n%s\nprobe(0)\n}',
                'for c in "xyz" {\nadd_key(cc, c)\n%s\n}',
                # every kind of branch: else, elif, else nested in else
                'if false {\nprobe(0)\n} else {\n%s\n}', 'if false {\n} elif true {\n%s\n} else {\nprobe(0)\n}', 'if false {\n} elif false {\n} else {\nif false {\n} else {\n%s\n}\n}']
    # exit() ends its script wherever the call is written: as a statement of its own, as an assignment source, inside a
    # parenthesis, a list, an argument or an operand
    injections = [("exit", "exit()"), ("fail", "q = 1 + nil"), ("failkey", "add_key(kq, 1 + nil)"),
                  ("exitasg", "q = exit()"), ("exitlist", "q = [exit()]"), ("exitparen", "(exit())"), ("exitarg", "q = len(exit())")]
    n = 0
    for which, stmts in (("main", stmts_main), ("b", stmts_b), ("c", stmts_c)):
        for pos in range(len(stmts) + 1):
            for iname, inj in injections:
                for w in (wrappers if not quick else wrappers[:2] + wrappers[3:]):
                    if quick and iname.startswith("exit") and iname != "exit" and rng.random() < 0.6:
                        continue
                    n += 1
                    body = stmts[:pos] + [w % inj] + stmts[pos:]
                    scripts = {"main": "\n".join(stmts_main), "b": base_extra["b.p"], "c": base_extra["c.p"]}
                    scripts[which] = "\n".join(body)
                    out.append(ps("use:%s:%d:%s:%d" % (which, pos, iname, n), scripts["main"], pt=STD_PT, maporders='{"a": 1, "b": 2}' in w,
                                  extra={"b.p": scripts["b"], "c.p": scripts["c"]}, tag="exit()/error at every position of a call tree"))
    # use() written elsewhere than as a statement of its own - a condition, a loop clause, an operand, an element, an argument, a
    # parenthesis: the callee runs then and there (same point, fresh variables), the call yields "no value", a callee's error carries
    # the use site and the sites of the calls in progress; callee kinds: succeeds, exits, fails, fails two levels down
    positions = ['q = use("b.p")\nprobe(q, kb)', 'q = [pv(1), use("b.p"), pv(2)]\nprobe(q)', 'if use("b.p") { probe(1) } else { probe(2) }',
                 'probe(pv(1), use("b.p"), pv(2))', 'for ; use("b.p"); { probe(3)\nbreak }', 'for v in [use("b.p")] { probe(v) }', '(use("b.p"))',
                 'm = {"k": use("b.p")}\nprobe(m)', 'for i = 0; i < 2; use("b.p") { i = i + 1 }', 'add_key(ku, use("b.p"))', 'add_key(ku, [pv(1), use("b.p")])',
                 'if false { } elif use("b.p") { probe(1) } elif true { probe(2) }', 'q = pv(1) + use("b.p")', 'q = len(use("b.p"))', 'for use("b.p"); false; { }',
                 'x = 3\nq = [use("b.p"), x]\nprobe(q, x)', 'probe(use("b.p"), use("b.p"))', 'add_key(ku, add_key(kv, use("b.p")))']
    callees = [("ok", {"b.p": "probe(8, x)\nx = 5\nadd_key(kb, 1)\nprobe(9, x)", "c.p": "probe(3)"}),
               ("exit", {"b.p": "probe(8)\nadd_key(kb, 1)\nif fi { exit() }\nprobe(9)", "c.p": "probe(3)"}),
               ("fail", {"b.p": "probe(8)\nq = 1 + nil\nprobe(9)", "c.p": "probe(3)"}),
               ("failkey", {"b.p": "probe(8)\nadd_key(kq, 1 + nil)", "c.p": "probe(3)"}),
               ("deepfail", {"b.p": 'probe(8)\nif true {\nq = [1, use("c.p")]\n}\nprobe(9)', "c.p": "add_key(kc, 3)\nfor v in [1] {\nq = 1 + nil\n}"}),
               ("deepok", {"b.p": 'x = 3\nif use("c.p") { probe(1) }\nprobe(x, kc)', "c.p": "add_key(kc, 3)\nx = 9\nprobe(x)"})]
    xi = 0
    for t in positions:
        for cname, extra in callees:
            if quick and cname in ("failkey", "deepok") and rng.random() < 0.6:
                continue
            xi += 1
            out.append(ps("use:expr:%s:%d" % (cname, xi), "x = 1\nprobe(0)\n" + t + "\nprobe(7, x, ku, kb)", pt=STD_PT, extra=extra,
                          tag="use() inside an expression (%s callee)" % cname))
    # use() as the first thing its statement evaluates (value of add_key, source of an assignment, the argument of probe), with callees
    # that share names and keys with the caller, fail at depth one and two, or exit
    lead_forms = ['add_key(ku, use("b.p"))', 'q = use("b.p")', 'probe(use("b.p"))']
    lead_callees = [("ok", {"b.p": "probe(x, y)\ny = 2\nx = 5\nadd_key(kb, y)\nadd_key(ku, 4)\nprobe(x, y, fi, ku)", "c.p": "probe(3)"}),
                    ("fail", {"b.p": "probe(8)\nq = 1 + nil\nprobe(9)", "c.p": "probe(3)"}),
                    ("failkey", {"b.p": "probe(8)\nadd_key(kq, 1 + nil)", "c.p": "probe(3)"}),
                    ("deepfail", {"b.p": 'probe(8)\nuse("c.p")\nprobe(9)', "c.p": "add_key(kc, 3)\nq = 1 + nil"}),
                    ("deeplead", {"b.p": 'probe(8)\nadd_key(kb, use("c.p"))\nprobe(9)', "c.p": "add_key(kc, 3)\nq = 1 + nil"}),
                    ("deepok", {"b.p": 'x = 3\nadd_key(kb, use("c.p"))\nprobe(x, kb, kc)', "c.p": "add_key(kc, 3)\nx = 9\nprobe(x)"}),
                    ("exit", {"b.p": "probe(8)\nadd_key(kb, 1)\nif fi { exit() }\nprobe(9)", "c.p": "probe(3)"})]
    lead_wraps = ["%s", "if true {\n%s\n}", "for v in [1, 2] {\n%s\nprobe(v)\n}"]
    li = 0
    for form in lead_forms:
        for cname, extra in lead_callees:
            for w in (lead_wraps if not quick else lead_wraps[:2]):
                li += 1
                out.append(ps("use:lead:%s:%d" % (cname, li), "x = 1\nprobe(0, x)\n" + (w % form) + "\nprobe(7, x, q, ku, kb)", pt=STD_PT, extra=extra,
                              tag="use() as the first thing its statement evaluates"))
    # the use() call is the very first token of its script (offset 0), also in a script that only forwards
    for i, (m, b, c) in enumerate([('use("b.p")\nprobe(1)', 'use("c.p")', "q = 1 + nil"), ('use("b.p")', 'use("c.p")\nprobe(2)', "probe(3)\nq = len(1, 2)" if False else "probe(3)\nq = 1 + nil"),
                                   ('probe(0)\nuse("b.p")', 'use("c.p")', 'add_key(kq, 1 + nil)'), ('use("b.p")', "q = 1 + nil", "probe(1)"),
                                   ('use("b.p")\nuse("c.p")', "probe(1)", "q = 1 + nil")]):
        out.append(ps("use:first:%d" % i, m, pt=STD_PT, extra={"b.p": b, "c.p": c}, tag="use() at the very start of a script; callee fails"))
    # use() in a loop body after a statement that contains break / continue (in a branch not taken, or taken on another round)
    bb = {"b.p": "add_key(n, 1)\nprobe(n)", "c.p": "probe(3)\nq = 1 + nil"}
    for i, t in enumerate(['for v in [1, 2, 3] {\nif v == 2 { continue }\nuse("b.p")\nprobe(v)\n}\nprobe(9)',
                           'for i = 0; i < 3; i = i + 1 {\nif i == 5 { break }\nuse("b.p")\n}\nprobe(9)',
                           'for v in [1] {\nif v == 2 { break } elif v == 1 {\nprobe(1)\nuse("b.p")\n} else {\nuse("c.p")\n}\n}\nprobe(9)',
                           'for v in [1, 2] {\nif v == 1 { continue }\nuse("c.p")\nprobe(v)\n}\nprobe(9)',
                           'for ;; {\nif nosuch { continue }\nuse("b.p")\nbreak\n}\nfor v in [1] {\nfor w in [1] { if w == 2 { break } }\nuse("b.p")\n}',
                           'if fi {\nfor v in [1] {\nif v == 2 { continue } else { probe(2) }\nif true {\nuse("b.p")\n}\n}\n}']):
        out.append(ps("use:loopctl:%d" % i, t, pt=STD_PT, extra=bb, tag="use() after a conditional break / continue in a loop body"))
    out.append(ps("use:twice", 'use("b.p")\nuse("b.p")\nprobe(n)', pt=STD_PT, extra={"b.p": "add_key(n, 1)\nprobe(n)"}, tag="use twice"))
    out.append(ps("use:loop", 'for i = 0; i < 3; i = i + 1 {\nuse("b.p")\n}\nprobe(i)', pt=STD_PT,
                  extra={"b.p": "for j in [1, 2] {\nif j == 2 { exit() }\nprobe(j)\n}\nprobe(99)"}, tag="use in a loop, exit in callee loop"))
    out.append(ps("use:brk", 'for i = 0; i < 3; i = i + 1 {\nuse("b.p")\nprobe(i)\n}', pt=STD_PT,
                  extra={"b.p": "for j in [1, 2] {\nbreak\n}\nprobe(j)"}, tag="callee break does not leak"))
    return out


def gen_cancel(quick, seed):
    rng = random.Random(seed)
    out = []
    progs = [
        ("inf-empty", "for ;; {\n}", 120),
        ("inf-body", "i = 0\nfor ;; {\ni = i + 1\nprobe(i)\n}", 120),
        ("inf-nested", "for ;; {\nfor ;; {\n}\n}", 120),
        ("inf-cond", "for ; true; {\n}", 120),
        ("count", "for i = 0; i < 4; i = i + 1 {\nprobe(i)\nadd_key(k, i)\n}\nprobe(9)", None),
        ("forin", 'for v in [1, 2, 3] {\nprobe(v)\nfor c in "ab" {\nprobe(c)\n}\n}\nprobe(0)', None),
        ("forin-empty", "for v in [1, 2, 3] {\n}\nprobe(0)", None),
        ("ifs", "x = 1\nif x {\nprobe(1)\nif x {\nprobe(2)\n}\nprobe(3)\n}\nprobe(4)", None),
        ("straight", "probe(1)\nprobe(2)\nadd_key(a, 1)\nprobe(3)", None),
        ("brk", "for i = 0; i < 5; i = i + 1 {\nif i == 2 { break }\nprobe(i)\n}\nprobe(7)", None),
        ("cont", "for v in [1, 2, 3] {\nif v == 2 { continue }\nprobe(v)\n}\nprobe(7)", None),
        ("err", "probe(1)\nfor i = 0; i < 2; i = i + 1 {\nprobe(i)\n}\nq = 1 + nil\nprobe(2)", None),
        ("inf-continue", "for ;; {\ncontinue\n}", 120),
        ("inf-if-continue", "i = 0\nfor ;; {\ni = i + 1\nif i > 1 { continue }\nprobe(i)\n}", 160),
        ("count-continue", "for i = 0; i < 4; i = i + 1 {\nif i == 1 { continue }\nprobe(i)\n}\nprobe(9)", None),
        ("count-continue-post", "i = 0\nfor ; i < 4; probe(8, i) {\ni = i + 1\nif i == 2 { continue }\nprobe(i)\n}\nprobe(9)", None),
        ("nested-continue", "for i = 0; i < 3; i = i + 1 {\nfor j = 0; j < 2; j = j + 1 {\nif j == 0 { continue }\nprobe(i, j)\n}\nif i == 1 { continue }\nprobe(i)\n}", None),
        ("brk-post", "i = 0\nfor ; i < 4; probe(8, i) {\ni = i + 1\nif i == 3 { break }\nprobe(i)\n}\nprobe(9)", None),
        ("exit-post", "i = 0\nfor ; i < 4; probe(8, i) {\ni = i + 1\nif i == 2 { exit() }\nprobe(i)\n}\nprobe(9)", None),
        ("exit", "probe(1)\nfor i = 0; i < 3; i = i + 1 {\nif i == 1 { exit() }\nprobe(i)\n}\nprobe(2)", None),
        # long runs: polling must not thin out with the number of polls already made (bodies of two and three statements)
        ("long2", "n = 0\nfor i = 0; i < 450; i = i + 1 {\nn = n + 1\nx = i\n}\nprobe(n)", 9000),
        ("long3", "n = 0\nfor v in [1, 2, 3, 4, 5, 6, 7, 8] {\nfor i = 0; i < 45; i = i + 1 {\nn = n + v\nx = i\ny = v\n}\n}\nprobe(n)", 9000),
    ]
    for name, text, fuel in progs:
        out.append(ps("cancel:" + name, text, fuel=fuel, tag="cancellation"))
        out.append(ps("cancel:v2:" + name, text.replace("add_key(k, i)", "probe(i, i)").replace("add_key(a, 1)", "probe(0)")
                      .replace("exit()", "probe(5)"), fuel=fuel, v2=True, tag="cancellation, v2"))
    out.append(ps("cancel:use", 'probe(1)\nuse("b.p")\nprobe(2)\nuse("b.p")\nprobe(3)', extra={"b.p": "for v in [1, 2] {\nprobe(v)\n}\nprobe(8)"},
                  tag="cancellation inside use()"))
    out.append(ps("cancel:use-inf", 'probe(1)\nuse("b.p")\nprobe(2)', extra={"b.p": "for ;; {\n}"}, fuel=120, tag="infinite loop in a callee"))
    out.append(ps("cancel:use-deep", 'use("b.p")\nprobe(2)', extra={"b.p": 'probe(1)\nuse("c.p")\nprobe(3)', "c.p": "for i = 0; i < 2; i = i + 1 {\nprobe(i)\n}"},
                  tag="cancellation two levels deep"))
    # use() written inside an expression statement, an argument, a condition: the callee's polls are the implementation's own (the
    # model runs such a callee in one step), and at each of them the run must stop with exactly the effects performed so far
    callee = {"b.p": "for v in [1, 2] {\nprobe(v)\n}\nadd_key(kb, 1)\nprobe(8)"}
    for i, t in enumerate(['probe(1)\n(use("b.p"))\nprobe(2)\nadd_key(m2, 1)', 'probe(1)\nq = [use("b.p")]\nprobe(2)', 'probe(1)\nadd_key(ku, use("b.p"))\nprobe(2)',
                           'probe(1)\nif use("b.p") {\nprobe(3)\n} else {\nprobe(4)\n}\nprobe(2)', 'for i = 0; i < 2; i = i + 1 {\nprobe(i, use("b.p"))\nprobe(5)\n}\nprobe(2)',
                           'probe(1)\nq = use("b.p")\nprobe(2)\nfor v in [use("b.p")] {\nprobe(6)\n}\nprobe(3)']):
        out.append(ps("cancel:use-expr:%d" % i, t, extra=callee, tag="cancellation inside a callee reached from within an expression"))
    for k in range(40 if quick else 400):
        body = rand_block(rng, 0, 3, ["x", "y"], in_loop=False)
        out.append(ps("cancel:r%d" % k, body, pt=STD_PT, tag="random loop-bearing program, every cancellation point"))
        out.append(ps("cancel:v2r%d" % k, "x = 0\ny = 0\nfi = 1\nfs = \"s\"\nnosuch = nil\n" + body.replace("len(", "one("), v2=True,
                      tag="random program, v2, every cancellation point"))
    return out


HOSTILE_VALUES = ["nil", "true", "7", "-1", "9223372036854775807", "(" + INT_MIN_EXPR + ")", "1.5", "inf", "nan", '"s"', '""', "[1, 2]", "[]",
                  '{"a": 1}', "{}", "a.b", "probe()", "fi", "tg", "nosuch",
                  '[[1], {"a": 1}]', '{"m": [1]}']


def gen_hostile(quick, seed):
    rng = random.Random(seed)
    out = []
    vs = HOSTILE_VALUES
    n = 0

    def add(text, tag):
        nonlocal n
        n += 1
        out.append(ps("hostile:%d" % n, text + "\nprobe(1)", pt=STD_PT, tag=tag))

    for a, b in itertools.product(vs, vs):
        if quick and rng.random() < 0.3:
            continue
        for op in (BINOPS if not quick else rng.sample(BINOPS, 7)):
            if op in ("/", "%") and b in ("0", "0.0"):
                continue
            add("x = %s %s %s" % (a, op, b), "hostile operands")
    for a in vs:
        for u in ["-", "+", "!"]:
            add("x = %s%s" % (u, a), "hostile unary")
        add("if %s { probe(2) }" % a, "hostile condition")
        add("for v in %s { probe(v) }" % a if a not in ("nil", "true", "7", "-1", "1.5", "inf", "nan", "9223372036854775807") else "w = %s\nfor v in w { probe(v) }" % a,
            "hostile iterable")
        add("x = [%s, 1]\ny = {\"k\": %s}" % (a, a), "hostile element")
        add("y = {%s: 1}" % a if a not in ("nil", "true", "7", "-1", "1.5", "inf", "nan", "9223372036854775807", "[1, 2]", "[]", '{"a": 1}', "{}", '[[1], {"a": 1}]', '{"m": [1]}')
            else "k = %s\ny = {k: 1}" % a, "hostile map key")
        add("z = [1, 2, 3]\nx = z[%s]" % a, "hostile index")
        add("z = [1, 2, 3]\nz[%s] = 1" % a, "hostile index write")
        add('z = {"a": 1}\nx = z[%s]' % a, "hostile map index")
        add("x = %s\nx[0] = 1" % a, "index write into anything")
        add("x = %s\ny = x[0]" % a, "index read of anything")
        add("x = %s\nx += 1" % a, "compound assign on anything")
        add("x = 1\nx += %s" % a, "compound assign with anything")
        add("add_key(hk, %s)%s" % (a, "" if a[0] in "[{" else "\nprobe(hk)"), "add_key of anything")
        add("x = len(%s)" % a, "len of anything")
        bnd = a if a not in ("1.5", "inf", "nan", '"s"', '""', "[1, 2]", "[]", '[[1], {"a": 1}]') else None
        if bnd:
            add("z = [1, 2, 3]\nx = z[%s:]\ny = z[:%s]\nw = z[::%s]" % (bnd, bnd, bnd) if bnd not in ("0",) else "z = [1]", "hostile slice bounds")
        add("w = %s\nz = [1, 2, 3]\nx = z[w:]" % a, "hostile slice start from a variable")
        add("w = %s\nz = \"abc\"\nx = z[:w]" % a, "hostile slice end from a variable")
        add("w = %s\nz = [1, 2, 3]\nx = z[::w]" % a, "hostile slice step from a variable")
        add("w = %s\nx = w[1:2]" % a, "slice of anything")
    for t in [".[0]", "x = .[0]", "x = .[0][1]", "a.b", "x = a.b.c", "a.b = 1", "x = a.b + 1", "if a.b { probe(2) }", "x = [a.b]", "x = -a.b",
              "x = a[0].b", "probe(a.b)", "1 = 2", "[1][0:1] = 3", "x, y = 1, 2", "x = 1, 2",
              'z = [1,2,3]\nx = z[2:1]', 'z = [1,2,3]\nx = z[3:0:1]', 'z = "abc"\nx = z[2:1]', 'z = "abc"\nx = z[1:3:9223372036854775807]',
              'z = [1,2,3]\nx = z[1:3:9223372036854775807]', 'z = [1,2,3]\nx = z[-1:0:%s]' % EXTREMES[1], 'z = "abc"\nx = z[0:3:%s]' % EXTREMES[1],
              'z = [1,2,3]\nx = z[%s:%s]' % (EXTREMES[1], EXTREMES[0]), 'z = "abc"\nx = z[%s:%s:-1]' % (EXTREMES[0], EXTREMES[1]),
              'x = 9223372036854775807 + 1\nprobe(x)', 'x = (%s) / -1\nprobe(x)' % INT_MIN_EXPR, 'x = (%s) %% -1\nprobe(x)' % INT_MIN_EXPR,
              'x = -(%s)\nprobe(x)' % INT_MIN_EXPR, "x = 1e308 * 10\nprobe(x)", "x = nan == nan\nprobe(x)",
              'for v in fs { probe(v) }', 'x = fs + tg\nprobe(x)', "x = fi / nosuch", "x = fi % fn"]:
        add(t, "hostile atoms")
    # values that have no JSON text (non-finite floats, self-containing collections) stored into the point and read back
    unjson = ['big = 1e308 * 10.0\nadd_key(hk, [1, big])', 'add_key(hk, {"a": nan})', 'a = [0]\na[0] = a\nadd_key(hk, a)',
              'm = {}\nm["m"] = m\nadd_key(hk, m)', 'add_key(fs, [inf])', 'add_key(tg, [inf])', 'add_key(hk, [[-inf]])']
    reads = ["n = len(hk)", "x = hk[0:1]", "x = load_json(hk)", 'q = {"a": 1}\nx = q[hk]', 'x = hk + "s"', "for c in hk { probe(c) }",
             'x = "a" in hk', "x = hk[0]", "trim(hk)", 'cast(hk, "int")', "set_tag(hk)", "x = len(fs)\ny = fs[0:1]", "x = len(tg)",
             "rename(nk, hk)\nx = len(nk)", "uppercase(hk)", "add_key(hk2, hk)\nx = len(hk2)", "if hk { probe(2) }", "x = !hk", "x = -hk"]
    for u in unjson:
        for r in reads:
            add(u + "\n" + r, "values without JSON text stored into the point, then read")
    # values that contain themselves (a[0] = a) handed to everything that formats, converts, compares, measures, iterates or stores
    # values: the model leaves the outcome open (unspec-*), the host must survive
    cyc_pre = ['a = [1]\na[0] = a', 'm = {"x": 1}\nm["x"] = m', 'a = [1, [2]]\na[1][0] = a', 'm = {"k": [0]}\nm["k"][0] = m\na = [m]']
    cyc_sinks = ['printf("%v", V)', 'printf("%s %d", V, V)', 'strfmt(k, "%v", V)', 'strfmt(k, "<%s>", [V])', 'cast(V, "str")', 'cast(V, "int")', 'cast(V, "bool")',
                 'datetime(V, "s", "RFC3339")', 'datetime(V, "ms", "ANSIC")', 'add_key(k, V)', 'set_tag(t, V)', 'x = V == V', 'x = [V] == [V]', 'x = V in [V]',
                 'x = V != 1', 'trim(V)', 'uppercase(V)', 'url_decode(V)', 'replace(V, "x", "y")', 'sql_cover(V)', 'x = grok(V, "%{WORD:w}")', 'x = len(V)',
                 'for e in V {\nprobe(1)\n}', 'x = V + V', 'x = V[0][0][0][0]', 'set_measurement(V)', 'set_measurement(V, true)', 'rename(k, V)', 'xml(V, "/a", o)',
                 'default_time(V)', 'x = load_json(V)', 'if V {\nprobe(1)\n}', 'x = !V', 'x = V && V', 'x = V[0:1]', 'x = V[::-1]', 'probe(len(V))', 'drop_key(V)',
                 'y = V\nadd_key(k)\nk = V\nadd_key(k)', 'x = {"q": V}\nprintf("%v", x)',
                 # ... as an (ill-typed) subscript, slice bound, map key, operand of every operator, argument of every builtin position
                 'b = [1, 2, 3]\nx = b[V]', 'b = [1, 2, 3]\nb[V] = 1', 'b = {"a": 1}\nx = b[V]', 'b = {"a": 1}\nb[V] = 1', 'b = [1, 2, 3]\nx = b[V:]',
                 'b = [1, 2, 3]\nx = b[:V]', 'b = [1, 2, 3]\nx = b[::V]', 'b = "abc"\nx = b[V:V]', 'b = [[1]]\nx = b[0][V]', 'b = [1]\nb[V] += 1',
                 'x = V + 1', 'x = 1 - V', 'x = V * 2', 'x = V / 2', 'x = V % 2', 'x = V < 1', 'x = 1 >= V', 'x = -V', 'x = +V', 'x = "s" + V', 'x = V || true',
                 'x = 1 in V', 'x = V in "abc"', 'x = V in {"a": 1}', 'x = {V: 1}' if False else 'x = [V][0][0]', 'x = 1\nx += V', 'x = V\nx += 1',
                 'rename(V, k)', 'add_key(V, 1)', 'set_tag(V, "v")', 'drop_key(V)', 'cast(k, V)' if False else 'x = get_key(V)', 'trim(k, V)' if False else 'strfmt(V, "%v", 1)',
                 'for i = V; i < 1; i = i + 1 {\nbreak\n}', 'for ; V; {\nbreak\n}', 'if 1 == V {\nprobe(1)\n}', 'x = load_json("[1]")\ny = x[V]']
    # two distinct values of the same self-containing shape, compared / searched with each other
    two = ['a = [1, 0]\na[1] = a\nb = [1, 0]\nb[1] = b', 'a = {"x": 1}\na["x"] = a\nb = {"x": 1}\nb["x"] = b', 'a = [[0]]\na[0][0] = a\nb = [[0]]\nb[0][0] = b',
           'a = [1, 0]\na[1] = a\nb = [1, [1, 0]]\nb[1][1] = b']
    for ti, pre in enumerate(two):
        for si, sink in enumerate(['x = a == b', 'x = a != b', 'x = a in [b]', 'x = [a] == [b]', 'x = [a, 1] != [b, 1]', 'x = b in [1, a]', 'x = {"k": a} == {"k": b}',
                                   'if a == b {\nprobe(1)\n}', 'x = a == b[1]']):
            out.append(ps("host:cyc2:%d:%d" % (ti, si), pre + "\n" + sink + "\nprobe(9)", pt=STD_PT, tag="two self-containing values compared with each other"))
    ci = 0
    for pre in cyc_pre:
        var = "a" if pre.startswith("a") or "\na = " in pre else "m"
        for sink in cyc_sinks:
            ci += 1
            out.append(ps("host:cyc:%d" % ci, pre + "\n" + sink.replace("V", var) + "\nprobe(9)", pt=STD_PT, tag="a value that contains itself, into every sink"))
    return out


V2_VOIDS = ["void()", "a.b", "probe(1)"]


def gen_v2(quick, seed):
    rng = random.Random(seed)
    out = []
    n = 0

    def add(text, tag):
        nonlocal n
        n += 1
        out.append(ps("v2:%d" % n, text, v2=True, tag=tag))

    # the no-value rule: every value position may hold a construct that yields nothing, after an earlier expression
    for vd in V2_VOIDS:
        for prev in ["a = 5", "a = [1]", 'a = "s"', "a = true"]:
            positions = ["b = %s", "if %s { probe(1) } else { probe(2) }", "b = a + %s", "b = %s + a", "b = -%s", "b = !%s", "probe(%s)",
                         "b = [%s]", 'b = {"k": %s}', "c = [1, 2]\nb = c[%s]", "c = [1, 2]\nb = c[%s:]", "c = [1, 2]\nb = c[:%s]",
                         "c = [1, 2]\nb = c[::%s]", "for v in %s { probe(v) }", "for ; %s; { probe(1)\nbreak }", "b = one(%s)", "b = a == %s",
                         "b = a in %s", "b = %s in a", "b = a && %s", "b = (%s)", "c = [1]\nc[0] = %s", "c = [1]\nc[%s] = 2", "a += %s",
                         "b, c = 1, %s", "b = %s[0:1]" if vd == "void()" else "b = 1"]
            for p in positions:
                if "%s" not in p:
                    continue
                add("%s\n%s\nprobe(a)" % (prev, p % vd), "v2: a construct without a value is an error")
    # multi-assignment and multi-value calls
    for t in ["a, b = 1, 2\nprobe(a, b)", "a = 1\nb = 2\na, b = b, a\nprobe(a, b)", "a, b = two()\nprobe(a, b)", "a = two()", "a, b, c = two(), 3\nprobe(a, b, c)",
              "a, b = 1", "a, b = 1, 2, 3", "a = 1, 2", "probe(two())", "a = two() + 1", "a, b = two(), two()", "x = [0, 0]\nx[0], x[1] = 1, 2\nprobe(x)",
              "a = 1\na, a = 2, 3\nprobe(a)", "a = 5\na += 1\nprobe(a)", "a, b = 1, 2\na, b += 1, 1", "b = a", "a = 1\nb = a + c", "probe(nosuch)",
              "if nosuch { probe(1) }", "a = [1]\nprobe(a[0], a[nosuch])", "x = one(7)\nprobe(x, one(x) + 1)", "for v in [1, 2] { probe(v) }\nprobe(v)",
              "_ = 5\nprobe(_)", "message = 1\nprobe(message)"]:
        add(t, "v2 specifics")
    # the shared language: the same programs also run on v1 (C03/C02 families reuse; here random)
    for k in range(200 if quick else 2000):
        body = rand_block(rng, 0, 3, ["x", "y", "z"], in_loop=False).replace("len(", "one(")
        add('x = 0\ny = 0\nz = 0\nfi = 7\nfs = "sv"\nnosuch = nil\n' + body, "v2 random program")
    return out


def write(path, progsets):
    with open(path, "w") as fh:
        for p in progsets:
            fh.write(json.dumps(p) + "\n")


# ------------------------------------------------------------------------------------------------
# C08 load-time checking: every position x every offender

CHECK_TEMPLATES = [
    "x = @", "x = 1 + @", "x = @ * 2", "x = -@", "x = !@", "x = (@)", "x = 1 == @", "x = @ < 1", "x = true && @", "x = @ || true",
    "x = 1 in @", "x = @ in z", "x += @", "z[0] += @", "z[0] = @", "@",
    "if @ { }", "if 1 { } elif @ { }", "if 1 { y = @ }", "if 0 { } else { y = @ }", "if 0 { } elif 1 { y = @ } else { }",
    "for i = @; i < 1; i = i + 1 { }", "for i = 0; @; i = i + 1 { break }", "for i = 0; i < 1; i = @ { }", "for ;; { y = @\nbreak }",
    "for v in @ { }", "for v in [1] { y = @ }", "for v in [1] { if v { y = @ } }",
    "x = [@]", "x = [1, @]", "x = [[@]]", 'x = {"k": @}', 'x = {"a": 1, "b": @}', "x = {@: 1}",
    "z[@] = 1", "x = z[@]", "x = z[0][@]", "z[0][@] = 2",
    "x = 1 + @ + 2", "x = z[0] * @ * 3 - 1", 'x = "p" + @ + "s" + "t"', "x = 1 - 2 - @ - 4", "add_key(k, 1 + @ + 2)", "x = 1 + 2 * @ * 3", "x = 1 < @ + 2 + 3",
    "x = true && @ && false", "x = 1 == @ == 2" if False else "x = (1 + @) + 2",
    "x = .[@]", ".[@]", "x = .[0][@]", "if .[@] == 1 { }", "x = .[@].b", "x = z.b[@]", "x = z.b.c[0][@]", "for ; .[@]; { break }",
    "x = z[@:]", "x = z[:@]", "x = z[::@]", "x = z[1:@]", "x = z[1::@]", "x = z[:1:@]", "x = z[1:2:@]", "x = z[@:1:1]", "x = z[@::1]",
    'x = "abc"[@:]', "x = [1, 2][::@]", "x = z[1:][@:]", "x = len(z)[::@]",
    "z.b[@] = 1", "(z[@]) = 1", "z[@:] = 1", "z.b[@] += 1", "z.b.c[0][@] = 1", "x, z.b[@] = 1, 2", "for z.b[@] = 0; z; { break }", "z[0].b[@] = 1", "@ = 1",
    "len(@)", "add_key(k, @)", "probe(1, @)", "probe(@, 1)", "len(len(@))", "pv(@)", "probe(a = @)", "add_key(k, [1, {\"q\": @}])",
    # the construct as the OBJECT of a slice / of nested slices (a call may be sliced directly)
    "x = @[0:1]", "x = @[1:][0:1]", "y = [@[::2]]", "if @[:1] { }", "for v in @[0:2] { }", "add_key(k, @[-1:])",
    # after a valid break / continue earlier in the same loop (in a branch, or unconditional): later statements, later arguments,
    # the post clause and enclosing blocks of that loop are checked like any other
    "for v in [1] { if v { continue }\ny = 1\ny = @ }", "for ;; { if 1 { break }\ny = @ }", "for i = 0; i < 3; i = @ { if i { continue } }",
    "for v in [1] { if v { break }\nprobe(1, @) }", "for v in [1] { continue\ny = @ }", "for ;; { break\ny = @ }",
    "for v in [1] { if v { if v { continue } }\nif v { y = 1\ny = @ } }", "for v in [1] { for w in [1] { if w { continue } }\ny = 1\ny = @ }",
    "for ;; { break }\nfor ;; { y = 1\ny = @\nbreak }", "for v in [1] { if v { break } elif 1 { y = 1\ny = @ } }",
]
CHECK_OFFENDERS_V1 = [
    "nosuch()", "nosuch(1, 2)", "len()", "len(1, 2)", "add_key()", "add_key(1)", "add_key(a, 1, 2)", "get_key()", "get_key(1)", "drop_key(1)",
    "drop_key(a, b)", "rename(a)", "rename(a, 1)", 'rename(a, "b")', "cast(a)", "cast(a, 1)", 'cast(a, "zz")', "cast(1, \"int\")",
    "set_tag(a, 1)", "set_tag()", "set_measurement(a, 1)", "set_measurement()", "strfmt(a)", "strfmt(a, 1)", "trim(a, 1)", "trim()",
    'replace(a, "x")', 'replace(a, 1, "y")', "use(a)", "use()", 'use("a", "b")', "grok(a)", 'grok(a, "%{NOSUCHPATTERN:x}")', "grok(a, b)",
    'grok(a, "%{WORD:w}", 1)', 'add_pattern(a, "x")', 'add_pattern("p", "%{NOSUCHPATTERN}")', 'xml(a, "x", 1)', 'xml(a, 1, b)',
    'datetime(a, "ms")', 'datetime(a, 1, "RFC3339")', "default_time(a, 1)", "default_time()", "pv()", "pv(1, 2)", "uppercase()", "uppercase(1)",
    "url_decode(1)", "sql_cover()", "load_json()", "printf(1)", "printf()", "{1: 2}", "{nil: 1}", "{[1]: 1}",
]
CHECK_VALID_V1 = ["len(z)", "get_key(k)", "pv(1)", 'grok(a, "%{WORD:w}")', "exit()", 'cast(a, "int")', "add_key(a)", "a.b", "nil", "z[0]",
                  'load_json("1")', "uppercase(a)", 'replace(a, "x", "y")', 'strfmt(a, "%v", 1)', 'set_tag(a, "v")', "rename(a, b)",
                  "printf(a, 1)", 'trim(a, " ")', "set_measurement(a, true)", "default_time(a)", '{"k": 1}']
CHECK_OFFENDERS_V2 = ["nosuch()", "two(1)", "one()", "one(1, 2)", "one(y = 1)", "void(xs = 1)", "probe(a = 1)", "len(1)", "{1: 2}"]
CHECK_VALID_V2 = ["one(1)", "one(x = 1)", "two()", "void()", "void(1, 2)", "probe()", "nil", "z[0]"]
LOOP_TEMPLATES = [
    ("@", False), ("if 1 { @ }", False), ("if 0 { } else { @ }", False), ("for ;; { break }\n@", False), ("for v in [1] { }\n@", False),
    ("for ;; { for v in [1] { } \n break }\n@", False), ("if 1 { for ;; { break } \n @ }", False),
    ("for ;; { @ }", True), ("for v in [1] { @ }", True), ("for ;; { if 1 { @ } \n break }", True), ("if 1 { for v in [1] { if v { @ } } }", True),
    ("for ;; { for v in [1] { } \n @ \n break }", True), ("for i = 0; i < 1; i = i + 1 { if 1 { } else { @ } }", True),
    ("for v in [1] { for w in [1] { @ } }", True),
]


def gen_check(quick, seed):
    rng = random.Random(seed)
    out = []
    n = 0

    def add(text, v2, tag, without=None):
        nonlocal n
        n += 1
        p = ps("chk:%d" % n, text, v2=v2, tag=tag)
        p["without"] = without or []
        out.append(p)

    for t in CHECK_TEMPLATES:
        is_stmt = t == "@"
        for o in CHECK_OFFENDERS_V1:
            if quick and rng.random() < 0.6:
                continue
            if t in ("x = {@: 1}",) and o[0] == "{":
                pass
            add(t.replace("@", o), False, "offender in position: " + t)
        for o in CHECK_VALID_V1:
            if quick and rng.random() < 0.5:
                continue
            add(t.replace("@", o), False, "valid construct in position: " + t)
        if "add_key" in t or "len(" in t or "pv(" in t or "a = @" in t:
            continue
        pre = "z = [1, 2]\ny = 0\n"
        for o in CHECK_OFFENDERS_V2:
            add(pre + t.replace("@", o), True, "v2 offender in position: " + t)
        for o in CHECK_VALID_V2:
            if quick and rng.random() < 0.5:
                continue
            add(pre + t.replace("@", o), True, "v2 valid construct in position: " + t)
    # v2 only: multi-target assignments (more targets than value expressions when a call yields several values)
    for t in ["a, z[@] = two()", "a, z[0], y = 1, @", "z[@], a = two()", "a, z[0], z[@] = 1, two()", "a, b = @, 1", "a, b = 1, @", "a, b = z[@], 2",
              "a, b = two(), @" if False else "a, b, c = two(), @"]:
        pre = "z = [1, 2]\ny = 0\n"
        for o in CHECK_OFFENDERS_V2:
            add(pre + t.replace("@", o), True, "v2 offender in position: " + t)
        for o in CHECK_VALID_V2:
            add(pre + t.replace("@", o), True, "v2 valid construct in position: " + t)
    for t, ok in LOOP_TEMPLATES:
        for kw in ("break", "continue"):
            for v2 in (False, True):
                add(t.replace("@", kw), v2, "break/continue placement (%s)" % ("inside a loop" if ok else "outside every loop"))
    # arbitrary registered function tables: a builtin that is not registered is an unknown function
    for f, use in [("len", "x = len(z)"), ("add_key", "add_key(k, 1)"), ("exit", "if 1 { exit() }"), ("probe", "for ;; { probe(1)\nbreak }"),
                   ("grok", 'x = [grok(a, "%{WORD:w}")]')]:
        add(use, False, "function removed from the registered table", without=[f])
        add(use, False, "same program with the full table")
        # the v1 host registers two tables (implementations, checkers): a name missing from either is not a registered function
        for fld in ("without_call", "without_check"):
            add(use, False, "function removed from one of the two tables (%s)" % fld)
            out[-1][fld] = [f]
            add("x = 1\nif x { y = [1, {\"k\": %s}] }" % use.split(" = ")[-1].split("{ ")[-1].split("\n")[0].rstrip(" }"), False,
                "function removed from one of the two tables (%s), nested position" % fld)
            out[-1][fld] = [f]
    # a pattern name declared in ANOTHER branch of the same if statement (or in a block that has ended) is an unknown name where it is used;
    # declared in an enclosing block before the statement it is known in every branch
    G = 'grok(a, "%{sib:w}")'
    AP = 'add_pattern("sib", "\\\\d+")'
    sib = [("if x {\n%s\n} else {\n%s\n}", False), ("if x {\n%s\n} elif y {\n%s\n}", False), ("if x {\n%s\n} elif y {\nz = 1\n} else {\n%s\n}", False),
           ("if x {\n%s\n} elif %s {\nz = 1\n}", False), ("if x {\n%s\n} else {\nfor v in [1] {\n%s\n}\n}", False),
           ("if x {\nif y {\n%s\n}\n} else {\n%s\n}", False), ("if x {\n%s\n}\n%s", False), ("for v in [1] {\n%s\n}\n%s", False),
           ("if x {\nz = 1\n} elif y {\n%s\n} else {\nq = [%s]\n}", False), ("if x {\n%s\n} else {\nz = 1\n}\nif y {\n%s\n}", False),
           ("%s\nif x {\nz = 1\n} else {\n%s\n}", True), ("%s\nif x {\nz = 1\n} elif %s {\nz = 2\n}", True),
           ("if x {\n%s\nif y {\nz = 1\n} else {\n%s\n}\n}", True), ("for v in [1] {\n%s\nif y {\nz = 1\n} elif z {\n%s\n}\n}", True)]
    AP2 = 'add_pattern("own", "[a-z]+")'
    sib += [("%s\nif x {\n" + AP2 + "\n%s\n}", True), ("%s\nfor v in [1] {\n" + AP2 + "\nif v {\n%s\n}\n}", True),
            ("%s\nif x {\nz = 1\n} else {\n" + AP2 + "\nadd_pattern(\"both\", \"%%{sib} %%{own}\")\n%s\n}", True),
            ("%s\nfor i = 0; i < 1; i = i + 1 {\n" + AP2 + "\n" + AP2.replace("own", "own2") + "\n%s\n}", True),
            ("if x {\n" + AP2 + "\n}\n%s\n%s", True)]
    for t, ok in sib:
        add(t % (AP, G), False, "pattern declared in a sibling branch / ended block" if not ok else "pattern declared in an enclosing block")
    for f, use in [("one", "x = [1, 2][one(0):]"), ("void", "void()")]:
        add(use, True, "v2 function removed from the table", without=[f])
        add(use, True, "v2 same program with the full table")
    return out


# ------------------------------------------------------------------------------------------------
# C11 field-manipulating builtins

# (name, literal, point value or NOSTORE)
BVALS = [("int", "7", 7), ("float", "1.5", 1.5), ("bool", "true", True), ("strpad", '"  aXb \\t"', "  aXb \t"), ("strnum", '"12"', "12"),
         ("strre", '"caat"', "caat"), ("strurl", '"a%20b+c"', "a%20b+c"), ("strbadurl", '"%zz"', "%zz"), ("strab", '"ab"', "ab"),
         ("strjson", '"[1,\\"a\\",null]"', '[1,"a",null]'), ("strbadjson", '"nul"', "nul"), ("strempty", '""', ""), ("nil", "nil", None),
         ("list", "[1, 2]", NOSTORE), ("map", '{"a": 1}', NOSTORE), ("strtrue", '"true"', "true"), ("strneg", '"-3"', "-3"), ("int0", "0", 0),
         ("float0", "0.0", 0.0), ("strx", '"x"', "x"), ("strplus", '"q=a+b +c"', "q=a+b +c"),
         # a variable holding "no value" (what an attribute expression or a call without result yields)
         ("voidattr", "a.b", NOSTORE), ("voidcall", "drop_key(nosuchkey)", NOSTORE)]
SITUATIONS = ["var", "field", "tag", "var+field", "var+tag", "absent"]
BCALLS = [
    "add_key(k)", "add_key(k, 5)", 'add_key("k", 5)', "add_key(k, q.r)\nprobe(k)\nadd_key(k, 5)", "add_key(k, nil)", "set_tag(k, q.r)", "add_key(k, q.r)\nset_tag(k)", "probe(get_key(k))", "set_tag(k)", 'set_tag(k, "v")', "set_tag(k, fi)", "set_tag(k, nosuch)",
    "drop_key(k)", "rename(nk, k)", "rename(k, fi)", "rename(tg, k)", "rename(k, k)", "rename(nk, nosuch)",
    'cast(k, "int")', 'cast(k, "float")', 'cast(k, "str")', 'cast(k, "bool")', 'cast(k, "string")',
    "set_measurement(k)", "set_measurement(k, true)", "set_measurement(k, false)", 'set_measurement("lit")', 'set_measurement("lit", true)',
    "probe(len(k))", "probe(load_json(k))", "x = load_json(k)\nprobe(x)",
    'strfmt(k, "100%%")', 'strfmt(k, "n=%d")', 'strfmt(k, "%s")', 'strfmt(k, "%%%d", 5)',
    'strfmt(k, "%s-%d-%v%%", "a", 1, true)', 'strfmt(nk, "[%v]", k)', 'strfmt(k, "plain")', 'strfmt(k, "%v %v", nosuch, 1 + nil)',
    'printf("%s=%d;%v\\n", "a", 1, k)', "printf(k)", 'printf("%v", 1 + nil)', 'printf("")', "printf(fi)",
    "trim(k)", 'trim(k, "ab")', 'trim(k, " \\t")', 'trim(k, "")', "uppercase(k)", 'replace(k, "a+", "X")', 'replace(k, "(", "X")',
    'replace(k, "(\\\\d+)-(\\\\d+)", "$2-$1")', "url_decode(k)",
]


def gen_builtins(quick, seed):
    rng = random.Random(seed)
    out = []
    n = 0
    for call in BCALLS:
        for sit in SITUATIONS:
            for vn, vlit, vpt in BVALS:
                if sit == "absent" and vn != "int":
                    continue
                if quick and rng.random() < 0.2 and sit not in ("absent",):
                    continue
                pt = {"meas": "m", "tags": {"tg": "tv"}, "fields": {"fi": 7, "fs": "sv", "message": "msg"}}
                pre = []
                if "field" in sit:
                    if vpt is NOSTORE:
                        continue
                    pt["fields"]["k"] = vpt
                if "tag" in sit:
                    if not isinstance(vpt, str):
                        continue
                    pt["tags"]["k"] = vpt
                if "var" in sit:
                    # a variable shadowing the point key holds a different value of the same flavour
                    pre.append("k = %s" % vlit)
                    if "+" in sit and isinstance(vpt, str):
                        pt["tags" if "tag" in sit else "fields"]["k"] = "other"
                n += 1
                reads = "probe(k)" if vn not in ("list", "map") or sit == "var" else "probe(1)"
                text = "\n".join(pre + [call, reads])
                out.append(ps("bi:%d" % n, text, pt=pt, tag="builtin %s; subject: %s %s" % (call.split("(")[0], sit, vn)))
    # a name assigned only inside an earlier block is gone afterwards: builtins in a sibling block / the next loop round / after the
    # block read the point (or nothing), never the vanished variable
    blocky = ["if true {\nk = %s\n}\nif true {\n%s\n}\n%s", "if true {\nk = %s\n}\n%s\n%s", "for i = 0; i < 2; i = i + 1 {\n%s\nk = %s\n}\n%s",
              "if false {\n} else {\nk = %s\n}\nif fi {\nif true {\n%s\n}\n}\n%s", "for v in [1] {\nk = %s\n}\nfor w in [1] {\n%s\n}\n%s"]
    for call in BCALLS:
        if "\n" in call:
            continue
        for bi, tmpl in enumerate(blocky):
            for vn, vlit, vpt in [b for b in BVALS if b[0] in ("strpad", "int", "strurl")]:
                for sit in ("field", "absent"):
                    if quick and rng.random() < 0.55:
                        continue
                    pt = {"meas": "m", "tags": {"tg": "tv"}, "fields": {"fi": 7, "fs": "sv", "message": "msg"}}
                    if sit == "field":
                        pt["fields"]["k"] = "  pT%20x "
                    n += 1
                    args = (call, vlit, "probe(k)") if bi == 2 else (vlit, call, "probe(k)")
                    out.append(ps("bi:%d" % n, tmpl % args, pt=pt, tag="builtin %s after a block-local variable of the subject's name vanished" % call.split("(")[0]))
    # the `_` alias of message and attribute-expression / string-literal key spellings
    for call in ["trim(_)", "uppercase(_)", "add_key(_, 1)", "drop_key(_)", 'cast(_, "int")', "set_tag(_)", "rename(nk, _)", "probe(get_key(_))",
                 'replace(_, "a+", "X")', "url_decode(_)", 'strfmt(_, "%s", "z")', "set_measurement(_, true)", 'add_key(a.b, 1)', 'drop_key("fi")',
                 'trim("fs")', 'cast("fi", "str")', "set_tag(a.b)", 'rename("nk", fi)', 'uppercase(a.b)']:
        for msg in ["  caat ", "12", "a%20b"]:
            n += 1
            out.append(ps("bi:%d" % n, call + "\nprobe(message, _)", pt={"meas": "m", "tags": {"tg": "tv"},
                          "fields": {"fi": 7, "fs": " sv ", "message": msg, "a.b": "dotted"}}, tag="key spellings and the _ alias"))
            # ... with a script variable named `message` (or one spelled through the alias) shadowing the point's key
            for shadow in ['message = "  VAR%20a "', '_ = "  VAR%20a "', 'message = 5']:
                if quick and rng.random() < 0.4:
                    continue
                n += 1
                out.append(ps("bi:%d" % n, shadow + "\n" + call + "\nprobe(message, _, get_key(message), get_key(_))",
                              pt={"meas": "m", "tags": {"tg": "tv"}, "fields": {"fi": 7, "fs": " sv ", "message": msg, "a.b": "dotted"}},
                              tag="the _ alias with a shadowing variable"))
    # white space is every Unicode white-space character, not only the ASCII / Latin-1 ones; a cutset trims exactly its characters
    for pad in ["\u3000", "\u2003", "\u00a0", "\u0085", "\u1680", "\u2028", "\u202f", "\u205f", "\u200a", "\u200b", "\ufeff", "\t\u3000 \u00a0"]:
        for call in ["trim(k)", 'trim(k, "")', 'trim(k, " ")', "trim(_)"]:
            n += 1
            out.append(ps("bi:%d" % n, call + "\nprobe(k, _)", pt={"meas": "m", "tags": {"tg": "tv"},
                          "fields": {"k": pad + "mid dle" + pad + pad, "message": pad + pad + "msg" + pad, "fi": 7}}, tag="trim of Unicode white space"))
    # numeric text is read as a DECIMAL floating-point spelling, whatever it looks like (leading zeros, base prefixes, signs, blanks)
    for txt in ["010", "0000123", "-017", "0755", "0x1f", "0b101", "0o17", "089", "012.9", "1e2", " 12", "12 ", "+5", ".5", "5.", "1_000", "0X1F", "00", "-0", "1e-2", "12abc"]:
        for T in ["int", "float", "bool", "str"]:
            n += 1
            out.append(ps("bi:%d" % n, 'cast(k, "%s")\nprobe(k)' % T, pt={"meas": "m", "tags": {"tg": "tv"}, "fields": {"k": txt, "fi": 7}},
                          tag="cast of numeric-looking text"))
    # one call site executed several times with different inputs (a loop round each): nothing a call site computed on an earlier
    # execution - a subject, a template, a converted argument - may be reused on a later one
    vlists = ['["  aXb \\t", "caat", 7, "a%20b+c"]', '["12", true, "ab", 1.5]', '["[1,\\"a\\",null]", "nul", "-3"]']
    for call in BCALLS:
        if "\n" in call:
            continue
        for li, vl in enumerate(vlists):
            if quick and rng.random() < 0.5:
                continue
            for how in ("var", "field"):
                n += 1
                setk = "k = v" if how == "var" else "add_key(k, v)"
                out.append(ps("bi:%d" % n, "for v in %s {\n%s\n%s\nprobe(k)\n}" % (vl, setk, call),
                              pt={"meas": "m", "tags": {"tg": "tv"}, "fields": {"fi": 7, "fs": "sv", "message": "msg"}},
                              tag="call site executed repeatedly with a changing subject (%s)" % how))
    for t in ['for f in ["a=%d;", "b=%v;", "", "c", "%s%s"] {\nprintf(f, 1)\n}', 'for f in ["a=%d;", "b=%v;"] {\nadd_key(kf, f)\nprintf(kf, 2)\n}',
              'f = "x=%v;"\nprintf(f, 1)\nf = "y=%v;"\nprintf(f, 2)', 'for i = 0; i < 3; i = i + 1 {\nf = "r" + "=%d;"\nif i == 1 {\nf = "q=%d;"\n}\nprintf(f, i)\n}',
              'for v in [1, "s", nil, 1.5] {\nprintf("%v;", v)\nstrfmt(k, "<%v>", v)\nprobe(k)\n}', 'for v in ["int", "str"] {\nfi = v\nprintf(fi)\n}',
              'for v in ["a", "b"] {\nadd_key(k, v)\nset_tag(t2, k)\nrename(k2, k)\nprobe(t2, k2)\n}', 'for v in [" a ", " b "] {\nadd_key(k, v)\ntrim(k)\nset_measurement(k)\nprobe(k)\n}']:
        n += 1
        out.append(ps("bi:%d" % n, t, pt={"meas": "m", "tags": {"tg": "tv"}, "fields": {"fi": 7, "fs": "sv", "message": "msg"}},
                      tag="call site executed repeatedly with a changing template / argument"))
    # random walks over the point: a few keys (message also through its alias `_`), every key-changing builtin, then type-sensitive
    # reads of every key - whatever the sequence, each key reads with the type of the value it holds
    wkeys = ["message", "_", "k", "n", "tg"]
    wvals = ["5", '"s"', "1.5", "true", "nil", '"12"']
    for wi in range(120 if quick else 1500):
        lines = []
        for _ in range(rng.randint(3, 7)):
            a, b = rng.choice(wkeys), rng.choice(wkeys)
            r = rng.random()
            if r < 0.3:
                lines.append("add_key(%s, %s)" % (a, rng.choice(wvals)))
            elif r < 0.55:
                lines.append("rename(%s, %s)" % (a, b))
            elif r < 0.65:
                lines.append("set_tag(%s)" % a if rng.random() < 0.5 else "set_tag(%s, %s)" % (a, rng.choice(['"v"', b])))
            elif r < 0.75:
                lines.append("drop_key(%s)" % a)
            elif r < 0.85:
                lines.append('cast(%s, "%s")' % (a, rng.choice(["int", "str", "float", "bool"])))
            elif r < 0.92:
                lines.append("%s = %s" % (rng.choice(["k", "n", "message"]), rng.choice(wvals)))
            else:
                lines.append("trim(%s)" % a)
        lines.append("probe(len(message), len(k), len(n), len(tg), len(_))")
        lines.append("probe(message, k, n, tg, _, get_key(message), get_key(k), get_key(n))")
        n += 1
        out.append(ps("bi:%d" % n, "\n".join(lines), pt={"meas": "m", "tags": {"tg": "tv"}, "fields": {"message": "msg", "n": 7, "fi": 1}},
                      tag="random walk over the point's keys, then type-sensitive reads"))
    # a list / map stored into the point is JSON text from then on: read back, measured, trimmed, compared, moved to a tag, re-stored
    colls = ['[1, "a<b", nil, true]', '{"z": 1, "a": [1.5, {"q": "x\\ty"}]}', '[]', '{}', '[[1], ["two", false], {"k": nil}]', '{"b": 2, "a": 1, "c": "&"}',
             '[-7, 1.25, 100.0]', '["say \\"hi\\"", "back\\\\slash"]']
    for ci, cl in enumerate(colls):
        for how in ['add_key(k, %s)\nprobe(k, len(k))', 'add_key(k, %s)\nx = k + "!"\nprobe(x)\nadd_key(k2, k)\nprobe(k2, get_key(k))',
                    'v = %s\nset_tag(t2, v)\nprobe(t2, len(t2))\nadd_key(f2, t2)\nprobe(f2)', 'add_key(k, %s)\nset_tag(k)\nprobe(k)\nrename(k3, k)\nprobe(k3)',
                    'add_key(k, %s)\ntrim(k, "[]{}")\nprobe(k)\nuppercase(k)\nprobe(k)', 'add_key(k, %s)\nif k == "[]" { probe(1) } elif k { probe(2) }\nfor c in k { probe(c)\nbreak }',
                    'v = %s\nadd_key(k, v)\nv2 = k\nprobe(v, v2)\ncast(k, "str")\nprobe(k)']:
            n += 1
            out.append(ps("bi:%d" % n, how % cl, pt={"meas": "m", "tags": {"tg": "tv"}, "fields": {"fi": 7, "message": "msg"}},
                          tag="collections stored in the point read back as JSON text"))
    # sequences: the return register is not stale between calls; bystanders untouched
    J1, J2 = '"[1,\\"a\\",null]"', '"{\\"a\\":{\\"b\\":[true]}}"'     # texts of the model's JSON catalog
    seqs = ['a = load_json(%s)\na[0] = 99\nb = load_json(%s)\nprobe(a, b)' % (J1, J1),
            'a = load_json(%s)\na["a"]["b"][0] = 7\na["n"] = 1\nprobe(load_json(%s), a)' % (J2, J2),
            'probe(load_json(%s), load_json(%s))' % (J1, J2),
            'a = load_json(fj)\na[1] = 5\nprobe(load_json(fj))\nb = load_json(fj)\nb[0] = a\nprobe(load_json(fj), b)',
            "x = len(fs)\ny = get_key(nosuch)\nprobe(x, y)", "probe(len(fs), get_key(fi), len(nosuch))", "x = get_key(fi)\nadd_key(q, 1)\ny = x\nprobe(x, y)",
            "x = load_json(\"1\")\ntrim(fs)\nprobe(x)", "cast(fi, \"str\")\nx = get_key(fi)\nprobe(x + \"!\")", "drop_key(fi)\nprobe(fi, get_key(fi))",
            "fi = 100\ncast(fi, \"str\")\nprobe(fi, get_key(fi))", "fs = \"  v \"\ntrim(fs)\nprobe(fs, get_key(fs))"]
    for t in seqs:
        n += 1
        out.append(ps("bi:%d" % n, t, pt={"meas": "m", "tags": dict(STD_PT["tags"]), "fields": dict(STD_PT["fields"], fj='[1,"a",null]')}, tag="builtin sequences"))
    # collections as format operands: nested, empty, holding nil / bool / text with blanks, several map keys (printed in key order), and the
    # SAME list or map reachable twice (twice in one list, under two keys, once directly and once nested): a value that is shared is not a
    # value that contains itself
    colls = ['a = [1, 2]\nv = [a, a]', 'a = [1, 2]\nv = {"p": a, "q": a}', 'a = {"x": 1}\nv = [a, [a]]', 'a = ["s t", true, nil]\nv = [a, 7, a]',
             'a = [1]\nb = [a, a]\nv = {"k": b, "j": [b, a]}', 'v = []', 'v = {}', 'v = [[], {}, [[]]]', 'v = {"b": 2, "a": 1, "ab": [3], "B": nil}',
             'v = [1, "two", false, nil, [3, [4, [5]]]]', 'a = {}\nv = [a, a]', 'a = []\nv = {"x": a, "y": a}', 'a = [1, 2]\nv = a[0:1]\nw = [a, v, a]\nv = w']
    sinks = ['strfmt(k, "%v", v)', 'strfmt(k, "<%v|%v>", v, v)', 'printf("%v;%v\\n", v, 1)', 'strfmt(k, "%v %s", v, "x")\nstrfmt(k2, "%v", v)',
             'for i = 0; i < 2; i = i + 1 {\nstrfmt(k, "%v", v)\nprintf("%v", v)\n}']
    for c in colls:
        for sk in sinks:
            n += 1
            out.append(ps("bi:%d" % n, c + "\n" + sk + "\nprobe(k)", pt={"meas": "m", "tags": dict(STD_PT["tags"]), "fields": dict(STD_PT["fields"])},
                          tag="collections (nested, shared sub-collections) as format operands"))
    return out


# ------------------------------------------------------------------------------------------------
# C12 extraction builtins

def _catalogs():
    import os
    return json.load(open(os.path.join(os.path.dirname(os.path.dirname(os.path.abspath(__file__))), "spec", "catalogs.json")))


def _q(s):
    return json.dumps(s)


SCOPE_D = 'add_pattern("my", "\\\\d+")'
SCOPE_G = 'ok = grok(k, "%{my:num:int}")\nprobe(ok, num)'
SCOPE_TEMPLATES = [
    "@D@\n@G@", "@G@\n@D@", "if true {\n@D@\n@G@\n}", "if true {\n@D@\n}\n@G@", "@D@\nif true {\n@G@\n}", "if true {\n@D@\n} else {\n@G@\n}", "if false {\n} elif true {\n@D@\n@G@\n}",
    "for i = 0; i < 1; i = i + 1 {\n@D@\n@G@\n}", "for v in [1] {\n@D@\n}\n@G@", "@D@\nfor v in [1] {\nif v {\n@G@\n}\n}", "if true {\nif true {\n@D@\n}\n@G@\n}",
    "for v in [1, 2] {\n@G@\n@D@\n}", "for i = 0; i < 2; i = i + 1 {\nif i == 1 {\n@G@\n}\n@D@\n}", "if true {\n@D@\nif true {\nif true {\n@G@\n}\n}\n}",
    "@D@\n@D@\n@G@", 'add_pattern("my", "[a-c]+")\nif true {\n@D@\n@G@\n}\n@G@', '@D@\nif true {\nadd_pattern("my", "[a-c]+")\n}\n@G@',
    'add_pattern("WORD", "\\\\d+")\nok = grok(k, "%{WORD:w:str}")\nprobe(ok, w)', 'if true {\nadd_pattern("WORD", "\\\\d+")\n}\nok = grok(k, "%{WORD:w:str}")\nprobe(ok, w)',
    '@D@\nadd_pattern("pair", "%{my}-%{my}")\nok = grok(k2, "%{pair:p}")\nprobe(ok, p)', 'add_pattern("pair", "%{my}-%{my}")\n@D@\nok = grok(k2, "%{pair:p}")',
    # a dependency re-declared, then the dependent re-declared with the very same text: the new declaration is expanded against what is
    # visible NOW (same block, and from a nested block)
    '@D@\nadd_pattern("pair", "%{my}-%{my}")\nadd_pattern("my", "[a-c]+")\nadd_pattern("pair", "%{my}-%{my}")\nok = grok(k2, "%{pair:p}")\nprobe(ok, p)\nok = grok(k3, "%{pair:p}")\nprobe(ok, p)',
    '@D@\nadd_pattern("pair", "%{my}-%{my}")\nif true {\nadd_pattern("my", "[a-c]+")\nadd_pattern("pair", "%{my}-%{my}")\nok = grok(k3, "%{pair:p}")\nprobe(ok, p)\n}\nok = grok(k2, "%{pair:p}")\nprobe(ok, p)',
    'ok = grok(k, "%{NOSUCHPATTERN:x}")', 'add_pattern("a", "%{NOSUCHPATTERN}")', '@D@\nok = grok(k, "%{my:num:int} %{other:o}")',
    'if true {\n@D@\n}\nif true {\n@G@\n}', 'for v in [1] {\n@D@\n}\nfor v in [1] {\n@G@\n}',
    # empty blocks next to a definition change nothing about where it is visible
    'if false {\n@D@\nif k { }\n} else {\n@G@\n}', 'if false {\n@D@\nif k { } elif k { }\n} elif true {\n@G@\n}',
    'if true {\n@D@\nif k { } elif k { } else { }\nfor v in [] { }\n}\n@G@', 'if true {\nif k { }\n@D@\n@G@\n}',
    'add_pattern("my", "[a-c]+")\nif false {\n@D@\nif k { }\nif k { } elif k { }\n} else {\n@G@\n}\n@G@',
    'if true {\n} else {\n@D@\n}\n@G@', 'for ;; {\n@D@\nif k { }\nbreak\n}\n@G@', 'if k { }\n@D@\nif k { } else { }\n@G@',
]


def gen_scope(quick, seed):
    """Programs for the load-time check of pattern scoping (accepted and rejected)."""
    out = []
    for i, t in enumerate(SCOPE_TEMPLATES):
        text = t.replace("@D@", SCOPE_D).replace("@G@", SCOPE_G)
        p = ps("scope:%d" % i, text, pt={"meas": "m", "tags": {}, "fields": {"k": "abc 123", "k2": "x 12-34 y", "k3": "x ab-ca y"}}, tag="add_pattern scoping")
        p["without"] = []
        out.append(p)
    return out


def gen_extract(quick, seed):
    rng = random.Random(seed)
    cat = _catalogs()
    out = []
    n = 0

    def add(text, pt, tag):
        nonlocal n
        n += 1
        out.append(ps("ex:%d" % n, text, pt=pt, tag=tag))

    base_tags = {"tg": "tv"}
    # grok: every catalog entry x subject situation
    for g in cat["grok"]:
        pre = [("add_pattern(%s, %s)" % (_q(nm), _q(pp))) for nm, pp in reversed(g["env"])]
        call = "ok = grok(k, %s%s)" % (_q(g["p"]), "" if g["trim"] else ", false")
        names = [c[0] for c in g["caps"]] or ["w", "n"]
        probe = "probe(ok, %s)" % ", ".join(names)
        for sit in ["field", "tag", "var", "var+field"]:
            pt = {"meas": "m", "tags": dict(base_tags), "fields": {"fi": 7, "w": "oldw"}}
            lines = list(pre)
            if "field" in sit:
                pt["fields"]["k"] = g["s"] if sit == "field" else "other"
            if sit == "tag":
                pt["tags"]["k"] = g["s"]
            if "var" in sit:
                lines.append("k = %s" % _q(g["s"]))
            add("\n".join(lines + [call, probe]), pt, "grok: subject as %s" % sit)
        if g["s"] == "":
            # the empty subject reached through a nil field, and through a variable holding nil
            pt = {"meas": "m", "tags": dict(base_tags), "fields": {"fi": 7, "w": "oldw", "k": None}}
            add("\n".join(pre + [call, probe]), pt, "grok: nil field as subject")
            pt = {"meas": "m", "tags": dict(base_tags), "fields": {"fi": 7, "w": "oldw"}}
            add("\n".join(pre + ["k = nil", call, probe]), pt, "grok: nil variable as subject")
        # captures land on existing keys of the other kind / are returned through an if
        pt = {"meas": "m", "tags": {"w": "tagw", "n": "tagn"}, "fields": {"k": g["s"], "d": 1.5}}
        add("\n".join(pre + ["if %s {\nprobe(1)\n} else {\nprobe(2)\n}" % call[5:], probe]), pt, "grok as a condition; captures onto existing tags")
    for subj, tag in [("7", "int subject"), ("true", "bool subject"), (None, "absent subject")]:
        pt = {"meas": "m", "tags": {}, "fields": {"fi": 7}}
        if subj == "7":
            pt["fields"]["k"] = 7
        elif subj == "true":
            pt["fields"]["k"] = True
        add('ok = grok(k, "%{WORD:w:str}")\nprobe(ok, w)', pt, "grok: " + tag)
        add('ok = grok(k, "%{WORD:w} %{NUMBER:n:int}")\nprobe(ok, w, n)', pt, "grok: " + tag)
    # default_time
    for t in cat["time"]:
        call = "default_time(ts%s)" % ((", " + _q(t["tz"])) if t["tz"] else "")
        for sit in ["field", "tag", "var"]:
            pt = {"meas": "m", "tags": dict(base_tags), "fields": {"fi": 7}}
            lines = []
            if sit == "field":
                pt["fields"]["ts"] = t["s"]
            elif sit == "tag":
                pt["tags"]["ts"] = t["s"]
            else:
                lines.append("ts = %s" % _q(t["s"]))
            add("\n".join(lines + [call, "probe(ts)"]), pt, "default_time (%s subject)" % sit)
    # the default zone is the zone the host process is in AT THE TIME OF THE CALL: the same zone-less call under a process zone that
    # changes from one run to the next (pt.lz: the harness sets time.Local for the run; the model reads the catalog entry of that zone)
    for t in cat["time"]:
        if t["tz"] in ("Asia/Shanghai", "Europe/London", "America/New_York", "Asia/Tokyo", "Asia/Kolkata", "Australia/Sydney", "Europe/Berlin"):
            pt = {"meas": "m", "tags": dict(base_tags), "fields": {"fi": 7, "ts": t["s"]}, "lz": t["tz"]}
            add("default_time(ts)\nprobe(ts)", pt, "default_time without a zone, process zone " + t["tz"])
            add("default_time(ts)\nprobe(ts)", {"meas": "m", "tags": dict(base_tags), "fields": {"fi": 7, "ts": t["s"]}},
                "default_time without a zone, process zone UTC again")
    add("default_time(nosuch)\nprobe(1)", {"meas": "m", "tags": {}, "fields": {"fi": 7}}, "default_time: absent subject")
    add('default_time(fi)\nprobe(fi)', {"meas": "m", "tags": {}, "fields": {"fi": 7}}, "default_time: non-string subject")
    # datetime, xml, sql_cover
    for d in cat["datetime"]:
        pt = {"meas": "m", "tags": dict(base_tags), "fields": {"v": int(d["v"]), "fi": 7}}
        add("datetime(v, %s, %s)\nprobe(v)" % (_q(d["prec"]), _q(d["fmt"])), pt, "datetime")
        add("v = %s\ndatetime(v, %s, %s)\nprobe(v)" % (d["v"], _q(d["prec"]), _q(d["fmt"])), {"meas": "m", "tags": {}, "fields": {"fi": 7}}, "datetime on a variable")
        # the timestamp as text (what grok extracts): plain digits, and a whole reading rendered with decimals; as field, tag and variable
        for txt in [d["v"], d["v"] + ".0", d["v"] + ".000"]:
            add("datetime(v, %s, %s)\nprobe(v)" % (_q(d["prec"]), _q(d["fmt"])), {"meas": "m", "tags": dict(base_tags), "fields": {"v": txt, "fi": 7}}, "datetime: text subject")
            add("datetime(v, %s, %s)\nprobe(v)" % (_q(d["prec"]), _q(d["fmt"])), {"meas": "m", "tags": dict(base_tags, v=txt), "fields": {"fi": 7}}, "datetime: text subject in a tag")
            add("v = %s\ndatetime(v, %s, %s)\nprobe(v, get_key(v))" % (_q(txt), _q(d["prec"]), _q(d["fmt"])), {"meas": "m", "tags": {}, "fields": {"fi": 7}}, "datetime: text subject in a variable")
    add('datetime(nosuch, "s", "RFC3339")\nprobe(1)', {"meas": "m", "tags": {}, "fields": {}}, "datetime: absent subject")
    for x in cat["xml"]:
        pt = {"meas": "m", "tags": dict(base_tags), "fields": {"doc": x["doc"] if x["doc"] != "7" else 7, "fi": 7}}
        add("xml(doc, %s, out)\nprobe(out)" % _q(x["xp"]), pt, "xml")
        add("xml(doc, %s, \"out.f\")\nxml(doc, %s, fi)\nprobe(fi)" % (_q(x["xp"]), _q(x["xp"])), pt, "xml: destination spellings")
    add('xml(nosuch, "/a", out)\nprobe(out)', {"meas": "m", "tags": {}, "fields": {}}, "xml: absent subject")
    for q in cat["sql"]:
        pt = {"meas": "m", "tags": dict(base_tags), "fields": {"q": q["q"] if q["q"] != "7" else 7, "fi": 7}}
        add("sql_cover(q)\nprobe(q)", pt, "sql_cover")
        add("q = %s\nsql_cover(q)\nprobe(q, get_key(q))" % _q(q["q"]), {"meas": "m", "tags": {}, "fields": {"fi": 7}}, "sql_cover on a variable")
    add("sql_cover(nosuch)\nprobe(1)", {"meas": "m", "tags": {}, "fields": {}}, "sql_cover: absent subject")
    return out



# ------------------------------------------------------------------------------------------------
# C18: the shared language on the v2 interpreter

V2_CALLS = {"probe", "one", "two", "void", "pv"}
_CALL_RE = __import__("re").compile(r"([A-Za-z_][A-Za-z0-9_]*)\s*\(")
_KW = {"if", "elif", "for", "in"}


_SAMPLED = ("op:", "tree:", "ord:", "ctl:r", "alias:r", "slice", "sl:", "idx", "ix:", "if:", "errx", "errs")


def v2ify(progsets, keep=1.0, seed=1):
    """The same program texts on the v2 interpreter (programs calling v1-only builtins are left out; names that v1
    would read from the point are undefined names - errors - on v2, which the specification knows)."""
    rng = random.Random(seed)
    out = []
    for p in progsets:
        text = p["scripts"]["main.p"]
        calls = {c for c in _CALL_RE.findall(text) if c not in _KW}
        if len(p["scripts"]) != 1 or not calls <= V2_CALLS:
            continue
        if p["id"].startswith(_SAMPLED) and not p["id"].endswith((":nst", ":nstv")) and rng.random() > keep:      # only the big enumerated / random families are sampled
            continue
        q = dict(p)
        q["id"] = "v2:" + p["id"]
        q["v2"] = True
        q["pt"] = EMPTY_PT
        q["tag"] = "v2: " + p.get("tag", "")
        out.append(q)
    return out


def gen_v2shared(quick, seed):
    src = ([p for p in gen_ops(quick, seed) if p["id"].endswith((":ll", ":vv", ":nst", ":nstv")) or p["id"].startswith(("un:", "tree:", "ord:"))
            or any(o in p["id"] for o in ASSIGNOPS)]
           + gen_slices(quick, seed) + gen_index(quick, seed) + gen_control(quick, seed) + gen_alias(quick, seed))
    return v2ify(src, keep=0.6 if quick else 1.0, seed=seed) + v2ify(gen_errprop(quick, seed), keep=0.6 if quick else 1.0, seed=seed)


def gen_errexpr(quick, seed):
    return gen_errprop(quick, seed, "expr")


def gen_errstmt(quick, seed):
    return gen_errprop(quick, seed, "stmt")


def gen_v2coll(quick, seed):
    """C04 on the second interpreter: slices, indexing, aliasing and the container operators of the operator table."""
    src = (gen_slices(quick, seed) + gen_index(quick, seed) + gen_alias(quick, seed)
           + [p for p in gen_ops(quick, seed) if p["id"].endswith((":nst", ":nstv")) or (("in" in p["id"].split(":")[1]) and p["id"].endswith(":ll"))])
    return v2ify(src, keep=0.5 if quick else 1.0, seed=seed)
