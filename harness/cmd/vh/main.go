// Command vh is the conformance harness that binds the TLA+ specifications under /verif/spec to the
// real platypus code (replace github.com/GuanceCloud/platypus => /repo, built with -tags verif).
// Every subcommand reads TLC-generated vectors/behaviours or writes recorded traces, and prints one
// JSON summary on stdout. Exit status 0 = ran to completion (the summary carries the verdicts).
package main

import (
	"bufio"
	"encoding/json"
	"fmt"
	"os"
	"runtime/debug"
	"sort"
	"strings"
)

type cmdFn func(args []string) (any, error)

var cmds = map[string]cmdFn{}

func register(name string, f cmdFn) { cmds[name] = f }

func main() {
	if len(os.Args) < 2 {
		names := []string{}
		for k := range cmds {
			names = append(names, k)
		}
		sort.Strings(names)
		fmt.Fprintln(os.Stderr, "usage: vh <cmd> args...; commands:", names)
		os.Exit(3)
	}
	f, ok := cmds[os.Args[1]]
	if !ok {
		fmt.Fprintln(os.Stderr, "unknown command", os.Args[1])
		os.Exit(3)
	}
	res, err := guarded(f, os.Args[2:])
	if err != nil {
		fmt.Fprintln(os.Stderr, "vh:", err)
		os.Exit(4)
	}
	enc := json.NewEncoder(os.Stdout)
	if err := enc.Encode(res); err != nil {
		fmt.Fprintln(os.Stderr, "vh:", err)
		os.Exit(4)
	}
}

// guarded runs a subcommand. A panic that starts inside the code under test (the first frame below runtime.gopanic belongs to
// github.com/GuanceCloud/platypus) while a specified behaviour is being replayed is a disagreement with the specification, not a
// broken harness: it is reported as one mismatch (with the vector being replayed) and the rest of the stage is not run. A panic that
// starts in the harness itself is re-raised (exit 2: broken).
func guarded(f cmdFn, args []string) (res any, err error) {
	defer func() {
		r := recover()
		if r == nil {
			return
		}
		st := string(debug.Stack())
		top := ""
		if i := strings.Index(st, "panic("); i >= 0 {
			rest := st[i:]
			if nl := strings.Index(rest, "\n"); nl >= 0 {
				if nl2 := strings.Index(rest[nl+1:], "\n"); nl2 >= 0 { // skip the file:line of the panic frame
					rest = rest[nl+1+nl2+1:]
				}
			}
			for _, ln := range strings.Split(rest, "\n") {
				if strings.HasPrefix(ln, "\t") || ln == "" {
					continue
				}
				if strings.HasPrefix(ln, "runtime.") || strings.HasPrefix(ln, "reflect.") || strings.HasPrefix(ln, "internal/") {
					continue // the panic was raised by a runtime helper called from the frame below
				}
				if strings.HasPrefix(ln, "github.com/GuanceCloud/platypus/") {
					top = ln
					if p := strings.LastIndex(top, "("); p > 0 {
						top = top[:p]
					}
				}
				break
			}
		}
		if top == "" {
			panic(r)
		}
		if len(st) > 6000 {
			st = st[:6000]
		}
		res = &Summary{Evaluations: 1, Mismatches: []Mismatch{{Sig: "panic:" + top, Detail: map[string]any{"panic": fmt.Sprint(r), "stack": st,
			"note": "the code under test panicked while a specified behaviour was replayed; the rest of this stage was not run"}, Vec: curVec}},
			Samples: []any{map[string]any{"aborted_by_panic_in": top}}, Extra: map[string]any{"aborted_by_panic": true}}
		err = nil
	}()
	return f(args)
}

// Summary is the common shape of a replay result.
type Summary struct {
	Evaluations int            `json:"evaluations"`
	Distinct    int            `json:"distinct"`
	Mismatches  []Mismatch     `json:"mismatches"`
	Samples     []any          `json:"samples"`
	Extra       map[string]any `json:"extra,omitempty"`
}

type Mismatch struct {
	Sig    string          `json:"sig"`           // stable identification of the failing input
	Detail any             `json:"detail"`        // want / got / input
	Vec    json.RawMessage `json:"vec,omitempty"` // the input row, for --replay
}

// curVec is the raw vector being replayed (attached to mismatches so that a violation can be re-run alone).
var curVec json.RawMessage

func (s *Summary) miss(sig string, detail any) {
	if len(s.Mismatches) < 200 {
		s.Mismatches = append(s.Mismatches, Mismatch{sig, detail, curVec})
	} else {
		if s.Extra == nil {
			s.Extra = map[string]any{}
		}
		n, _ := s.Extra["mismatches_dropped"].(int)
		s.Extra["mismatches_dropped"] = n + 1
	}
}

func (s *Summary) sample(v any) {
	if len(s.Samples) < 4 {
		s.Samples = append(s.Samples, v)
	}
}

// readNDJSON streams newline-delimited JSON records.
func readNDJSON(path string, each func(raw json.RawMessage) error) error {
	f, err := os.Open(path)
	if err != nil {
		return err
	}
	defer f.Close()
	sc := bufio.NewScanner(f)
	sc.Buffer(make([]byte, 1<<20), 64<<20)
	for sc.Scan() {
		b := sc.Bytes()
		if len(b) == 0 {
			continue
		}
		cp := make([]byte, len(b))
		copy(cp, b)
		curVec = cp
		if err := each(cp); err != nil {
			return err
		}
	}
	return sc.Err()
}

func bytesOf(xs []int) string {
	b := make([]byte, len(xs))
	for i, x := range xs {
		b[i] = byte(x)
	}
	return string(b)
}

func intsOf(s string) []int {
	r := make([]int, len(s))
	for i := 0; i < len(s); i++ {
		r[i] = int(s[i])
	}
	return r
}
