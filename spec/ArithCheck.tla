------------------------------ MODULE ArithCheck ------------------------------
(* Batch evaluation of the arithmetic substrate on operand vectors written  *)
(* by the harness (vh selfcheck-arith): the results are compared with the   *)
(* machine's int64 / float64 arithmetic.  A mismatch is a FRAMEWORK error.  *)
EXTENDS F64, TLC, Json, IOUtils

Rows == ndJsonDeserialize(IOEnv.VEC_FILE)

Res(r) ==
  CASE r.op = "iadd" -> IAdd(r.a, r.b) [] r.op = "isub" -> ISub(r.a, r.b)
    [] r.op = "imul" -> IMul(r.a, r.b) [] r.op = "iquo" -> IQuo(r.a, r.b)
    [] r.op = "irem" -> IRem(r.a, r.b) [] r.op = "ineg" -> INeg(r.a)
    [] r.op = "icmp" -> ISmall(ICmp(r.a, r.b))
    [] r.op = "fadd" -> FAdd(r.a, r.b) [] r.op = "fsub" -> FSub(r.a, r.b)
    [] r.op = "fmul" -> FMul(r.a, r.b) [] r.op = "fdiv" -> FDiv(r.a, r.b)
    [] r.op = "fromi" -> FFromI64(r.a)
    [] r.op = "fcmp" -> [s |-> FCmp(r.a, r.b)]
    [] r.op = "fdec" -> FFromDecimal(r.neg, r.ds, r.e10)

ASSUME \A i \in 1..Len(Rows) : PrintT("@@" \o ToJson([i |-> i, r |-> Res(Rows[i])]))

VARIABLE x
Init == x = 0
Next == FALSE /\ x' = x
=============================================================================
