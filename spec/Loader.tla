------------------------------- MODULE Loader -------------------------------
(* use() linking (C09): engine.EngineCallRefLinkAndCheck + dfs, written as  *)
(* a small-step machine with ONE ACTION PER HOOK EVENT of                   *)
(* pkg/engine/callref.go (visit, push, cycle, early, bind, fail, pop,       *)
(* unwind), next to a declarative definition of which scripts must be       *)
(* accepted.  The driver picks the next root nondeterministically, so TLC   *)
(* explores every visit order (Go map iteration order).                     *)
(*                                                                          *)
(* The machine is the INTENDED algorithm: the on-path set is popped on the  *)
(* already-resolved early return, and every frame appends the position of   *)
(* its own use() call when an error travels up.                             *)
EXTENDS Integers, Sequences, FiniteSets, TLC, Json

CONSTANTS Scripts,    \* names of the scripts loaded together
          Missing,    \* a name that no script has
          MaxCalls,   \* use() calls per script
          Relink      \* TRUE: the scripts were linked before (a hot reload): every use() call still carries the binding an
                      \* earlier load left on it - to an object that is not part of this set ("stale")

Targets == Scripts \cup {Missing}
CallSeqs == UNION {[1..n -> Targets] : n \in 0..MaxCalls}
Statuses == {"ok", "parse", "check"}

NoErr == [kind |-> "none", name |-> "", sites |-> <<>>]

VARIABLES status,   \* script -> "ok" | "parse" (unparsable) | "check" (check-failing)
          calls,    \* script -> sequence of use() targets (only for ok scripts)
          visited,  \* sequence of roots the driver has started, in order
          stk,      \* DFS stack, bottom first: [name, i] (i = index of the call being examined)
          path,     \* searchPath.path
          onPath,   \* searchPath.nodeMap
          ret,      \* retMap: resolved scripts
          errs,     \* retErrMap for link-stage rejections: root -> error
          bind,     \* set of <<caller, callIndex, callee>> (CallExpr.PrivateData)
          err,      \* the error travelling up, or NoErr
          pc
vars == <<status, calls, visited, stk, path, onPath, ret, errs, bind, err, pc>>
cfgvars == <<status, calls>>

OK(s) == s \in Scripts /\ status[s] = "ok"
OkScripts == {s \in Scripts : OK(s)}
Top == stk[Len(stk)]
Root == stk[1].name
Pop1(s) == SubSeq(s, 1, Len(s) - 1)
InSeq(s, x) == \E k \in 1..Len(s) : s[k] = x

(* ------------------------------ declarative ----------------------------- *)
Succ(s) == IF OK(s) THEN {calls[s][i] : i \in DOMAIN calls[s]} ELSE {}
RECURSIVE Closure(_, _)
Closure(S, n) == IF n = 0 THEN S ELSE Closure(S \cup UNION {Succ(s) : s \in S}, n - 1)
Reach(s) == Closure({s}, Cardinality(Targets))          \* s and everything reachable from it
ReachPlus(s) == Closure(Succ(s), Cardinality(Targets))  \* reachable by >= 1 use() call
OnCycle(t) == t \in ReachPlus(t)
ShouldAccept(s) == /\ OK(s)
                   /\ \A t \in Reach(s) : OK(t) /\ ~OnCycle(t)

(* -------------------------------- machine ------------------------------- *)
Init == /\ status \in [Scripts -> Statuses]
        /\ calls \in [Scripts -> CallSeqs]
        /\ \A s \in Scripts : status[s] # "ok" => calls[s] = <<>>   \* canonical: broken scripts carry no calls
        /\ visited = <<>> /\ stk = <<>> /\ path = <<>> /\ onPath = {}
        /\ ret = {} /\ errs = <<>> /\ err = NoErr /\ pc = "driver"
        /\ bind = IF Relink THEN {<<c[1], c[2], "stale">> : c \in {d \in Scripts \X (1..MaxCalls) : d[2] \in DOMAIN calls[d[1]]}}
                   ELSE {}

\* finishing the root (stack became empty)
RootOk(r) == /\ ret' = ret \cup {r} /\ errs' = errs /\ pc' = "driver"
RootFail(r, e) == /\ errs' = (r :> e) @@ errs /\ ret' = ret /\ pc' = "driver"

Visit(r) == /\ pc = "driver" /\ OK(r) /\ ~InSeq(visited, r)
            /\ visited' = Append(visited, r)
            /\ stk' = <<[name |-> r, i |-> 1]>>
            /\ path' = <<>> /\ onPath' = {}        \* a fresh searchPath per root
            /\ err' = NoErr /\ pc' = "enter"
            /\ UNCHANGED <<cfgvars, ret, errs, bind>>

PushOk == /\ pc = "enter" /\ Top.name \notin onPath
          /\ path' = Append(path, Top.name) /\ onPath' = onPath \cup {Top.name}
          /\ pc' = IF Top.name \in ret THEN "early" ELSE "loop"
          /\ UNCHANGED <<cfgvars, visited, stk, ret, errs, bind, err>>

\* Push fails: the name is already on the path. The caller frame will append its call site.
PushCycle == /\ pc = "enter" /\ Top.name \in onPath
             /\ err' = [kind |-> "cycle", name |-> Top.name, sites |-> <<>>]
             /\ stk' = Pop1(stk) /\ pc' = "unwind"
             /\ UNCHANGED <<cfgvars, visited, path, onPath, ret, errs, bind>>

\* dfs returns nil towards its caller: advance the caller's loop, or finish the root
ReturnNil == IF Len(stk) = 1
               THEN /\ stk' = <<>> /\ RootOk(Root)
               ELSE /\ stk' = [Pop1(stk) EXCEPT ![Len(stk) - 1].i = @ + 1]
                    /\ pc' = "loop" /\ UNCHANGED <<ret, errs>>

\* already resolved through another root or another path: pop and return
Early == /\ pc = "early"
         /\ path' = Pop1(path) /\ onPath' = onPath \ {Top.name}
         /\ ReturnNil
         /\ UNCHANGED <<cfgvars, visited, bind, err>>

CurTarget == calls[Top.name][Top.i]

Bind == /\ pc = "loop" /\ Top.i <= Len(calls[Top.name]) /\ OK(CurTarget)
        \* a call site carries ONE binding: the script of that name in the set being linked replaces whatever was there
        /\ bind' = {b \in bind : ~(b[1] = Top.name /\ b[2] = Top.i)} \cup {<<Top.name, Top.i, CurTarget>>}
        /\ stk' = Append(stk, [name |-> CurTarget, i |-> 1])
        /\ pc' = "enter"
        /\ UNCHANGED <<cfgvars, visited, path, onPath, ret, errs, err>>

\* the target does not exist, or exists but failed to parse / check
Fail == /\ pc = "loop" /\ Top.i <= Len(calls[Top.name]) /\ ~OK(CurTarget)
        /\ LET e == [kind |-> IF CurTarget = Missing THEN "missing" ELSE status[CurTarget],
                     name |-> CurTarget, sites |-> << <<Top.name, Top.i>> >>]
           IN IF Len(stk) = 1
                THEN /\ stk' = <<>> /\ err' = NoErr /\ RootFail(Root, e)
                ELSE /\ stk' = Pop1(stk) /\ err' = e /\ pc' = "unwind" /\ UNCHANGED <<ret, errs>>
        /\ UNCHANGED <<cfgvars, visited, path, onPath, bind>>

\* all calls resolved: record, pop, return nil
Record == /\ pc = "loop" /\ Top.i > Len(calls[Top.name])
          /\ path' = Pop1(path) /\ onPath' = onPath \ {Top.name}
          /\ IF Len(stk) = 1
               THEN /\ stk' = <<>> /\ RootOk(Root)
               ELSE /\ stk' = [Pop1(stk) EXCEPT ![Len(stk) - 1].i = @ + 1]
                    /\ ret' = ret \cup {Top.name} /\ pc' = "loop" /\ errs' = errs
          /\ UNCHANGED <<cfgvars, visited, bind, err>>

\* an error from a callee passes through this frame: append THIS frame's call site
Unwind == /\ pc = "unwind"
          /\ LET e == [err EXCEPT !.sites = Append(@, <<Top.name, Top.i>>)]
             IN IF Len(stk) = 1
                  THEN /\ stk' = <<>> /\ err' = NoErr /\ RootFail(Root, e)
                  ELSE /\ stk' = Pop1(stk) /\ err' = e /\ pc' = "unwind" /\ UNCHANGED <<ret, errs>>
          /\ UNCHANGED <<cfgvars, visited, path, onPath, bind>>

Finish == /\ pc = "driver" /\ \A s \in OkScripts : InSeq(visited, s)
          /\ pc' = "done"
          /\ UNCHANGED <<cfgvars, visited, stk, path, onPath, ret, errs, bind, err>>

Next == (\E r \in Scripts : Visit(r)) \/ PushOk \/ PushCycle \/ Early \/ Bind \/ Fail \/ Record \/ Unwind \/ Finish
Spec == Init /\ [][Next]_vars
FairSpec == Spec /\ WF_vars(Next)

(* ------------------------------- properties ----------------------------- *)
StackNames(n) == {stk[k].name : k \in 1..n}
\* the on-path set is exactly the DFS stack (the frame being entered is not yet on it)
PathMatchesStack ==
  LET n == IF pc = "enter" THEN Len(stk) - 1 ELSE Len(stk)
  IN pc \in {"enter", "early", "loop"} =>
       /\ onPath = StackNames(n)
       /\ Len(path) = n /\ \A k \in 1..n : path[k] = stk[k].name
\* only fully resolved scripts are recorded
RetSound == \A s \in ret : ShouldAccept(s)
BindCorrect == \A b \in bind : OK(b[1]) /\ b[2] \in DOMAIN calls[b[1]] /\ (calls[b[1]][b[2]] = b[3] \/ (Relink /\ b[3] = "stale"))
\* after the load every use() call of an accepted script is bound to the script of that name IN THIS SET - nothing an earlier
\* load left behind survives on it
BoundToLoadedSet == pc = "done" => \A b \in bind : b[1] \in ret => b[3] = calls[b[1]][b[2]]
\* exactly the acyclic, fully resolvable scripts are accepted - whatever the visit order was
OrderIndependent ==
  pc = "done" =>
    /\ \A s \in Scripts : (s \in ret) = ShouldAccept(s)
    /\ DOMAIN errs = {s \in Scripts : OK(s) /\ ~ShouldAccept(s)}
    /\ \A s \in ret : \A i \in DOMAIN calls[s] : <<s, i, calls[s][i]>> \in bind
\* a rejected root's chain ends with the root's own call site, innermost first, each hop a real use() edge
ChainShape ==
  pc = "done" =>
    \A r \in DOMAIN errs :
      LET e == errs[r] IN
        /\ Len(e.sites) >= 1
        /\ e.sites[Len(e.sites)][1] = r
        /\ \A k \in 1..Len(e.sites) : e.sites[k][2] \in DOMAIN calls[e.sites[k][1]]
        /\ \A k \in 2..Len(e.sites) : calls[e.sites[k][1]][e.sites[k][2]] = e.sites[k - 1][1]
        /\ calls[e.sites[1][1]][e.sites[1][2]] = e.name
        /\ e.kind = "missing" => e.name = Missing
        /\ e.kind \in {"parse", "check"} => status[e.name] = e.kind
        /\ e.kind = "cycle" => OnCycle(e.name)
Terminates == <>(pc = "done")

ErrRec(r) == [root |-> r, kind |-> errs[r].kind, name |-> errs[r].name, sites |-> errs[r].sites]
Emit == pc = "done" =>
          PrintT("@@" \o ToJson([status |-> status, calls |-> calls, order |-> visited,
                                 accepted |-> ret,
                                 errs |-> {ErrRec(r) : r \in DOMAIN errs},
                                 bind |-> bind]))
=============================================================================
