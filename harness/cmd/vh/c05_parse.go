package main

import (
	"bytes"
	"encoding/json"
	"flag"
	"fmt"
	"io"
	"math/rand"
	"os"
	"runtime"
	"strings"
	"sync"
	"time"

	"github.com/GuanceCloud/platypus/pkg/errchain"
	"github.com/GuanceCloud/platypus/pkg/parser"
	"github.com/GuanceCloud/platypus/pkg/token"
)

func init() {
	register("record-lexer", recordLexer)
	register("parse-total", parseTotal)
}

func lexClass(t parser.ItemType) string {
	switch {
	case t == parser.ID:
		return "id"
	case t == parser.NUMBER:
		return "num"
	case t == parser.STRING || t == parser.MULTILINE_STRING:
		return "str"
	case t == parser.QUOTED_STRING:
		return "qid"
	case t == parser.EOL:
		return "eol"
	case t == parser.COMMENT:
		return "comment"
	case t.IsOperator() || t == parser.AND || t == parser.OR:
		return "op"
	case t.IsKeyword() || t == parser.FOR || t == parser.IN || t == parser.WHILE || t == parser.BREAK || t == parser.CONTINUE ||
		t == parser.RETURN || t == parser.STR || t == parser.INT || t == parser.FLOAT || t == parser.BOOL || t == parser.LIST || t == parser.MAP:
		return "kw"
	}
	return "punct"
}

// lexTrace runs the exported lexer over src and returns the trace lines (bounded: a runaway lexer is cut off).
func lexTrace(src string) (out []map[string]any) {
	out = []map[string]any{{"ev": "src", "s": intsOf(src), "cls": "", "pos": 0, "len": 0}}
	defer func() {
		// a panic out of the exported lexer is an event no action of the specification matches: the trace is rejected
		if r := recover(); r != nil {
			out = append(out, map[string]any{"ev": "panic", "s": []int{}, "cls": fmt.Sprint(r), "pos": 0, "len": 0})
		}
	}()
	lx := parser.Lex(src)
	for n := 0; n < len(src)+5; n++ {
		var it parser.Item
		lx.NextItem(&it)
		switch it.Typ {
		case parser.EOF:
			return append(out, map[string]any{"ev": "eof", "s": []int{}, "cls": "", "pos": int(it.Pos), "len": 0})
		case parser.ERROR:
			return append(out, map[string]any{"ev": "error", "s": []int{}, "cls": "", "pos": int(it.Pos), "len": 0})
		}
		out = append(out, map[string]any{"ev": "item", "s": []int{}, "cls": lexClass(it.Typ), "pos": int(it.Pos), "len": len(it.Val)})
	}
	return out // no eof/error within len+5 items: the trace spec rejects it (no termination)
}

// record-lexer <inputs.ndjson> <out.ndjson>: item streams of the real lexer for every input (bytes)
func recordLexer(args []string) (any, error) {
	f, err := os.Create(args[1])
	if err != nil {
		return nil, err
	}
	defer f.Close()
	enc := json.NewEncoder(f)
	n, ev := 0, 0
	hung := false
	misses := []any{}
	err = readNDJSON(args[0], func(raw json.RawMessage) error {
		var in struct {
			S []int `json:"s"`
		}
		if err := json.Unmarshal(raw, &in); err != nil {
			return err
		}
		if hung {
			return nil // the stuck lexer keeps spinning: the first hanging input is reported and the sweep stops
		}
		src := bytesOf(in.S)
		ch := make(chan []map[string]any, 1)
		go func() { ch <- lexTrace(src) }()
		select {
		case tr := <-ch:
			for _, l := range tr {
				_ = enc.Encode(l)
				ev++
			}
		case <-time.After(5 * time.Second):
			hung = true
			misses = append(misses, map[string]any{"sig": fmt.Sprintf("lexer-hang:%q", src),
				"detail": map[string]any{"source": src, "problem": "the lexer did not terminate on this input"}})
		}
		n++
		return nil
	})
	return map[string]any{"evaluations": n, "distinct": n, "mismatches": misses, "samples": []any{}, "extra": map[string]any{"events": ev, "stopped_after_hang": hung}}, err
}

// captureStderr runs f with os.Stderr redirected to a pipe.
func captureStderr(f func()) string {
	old := os.Stderr
	r, w, err := os.Pipe()
	if err != nil {
		f()
		return ""
	}
	os.Stderr = w
	done := make(chan string)
	go func() {
		var b bytes.Buffer
		_, _ = io.Copy(&b, r)
		done <- b.String()
	}()
	f()
	_ = w.Close()
	os.Stderr = old
	return <-done
}

// checkParse: the postcondition of C05 for one source text.
func checkParse(src string) (problem string) {
	type res struct {
		n      int
		err    error
		stderr string
		pan    any
	}
	ch := make(chan res, 1)
	go func() {
		var r res
		defer func() {
			if p := recover(); p != nil {
				r.pan = p
			}
			ch <- r
		}()
		r.stderr = captureStderr(func() {
			ss, err := parser.ParsePipeline("in.p", src)
			r.err = err
			r.n = -1
			if ss != nil {
				r.n = len(ss)
			}
		})
	}()
	var r res
	select {
	case r = <-ch:
	case <-time.After(5 * time.Second):
		return "parsing did not terminate within the watchdog"
	}
	if r.pan != nil {
		return fmt.Sprintf("panic escaped the parser: %v", r.pan)
	}
	if strings.Contains(r.stderr, "panic") {
		first := r.stderr
		if i := strings.Index(first, "\n"); i > 0 {
			first = first[:i]
		}
		return "the parser crashed internally (recovered, stack printed to stderr): " + first
	}
	if r.err == nil {
		if r.n < 0 {
			return "neither a syntax tree nor an error was returned"
		}
		return ""
	}
	pe, ok := r.err.(*errchain.PlError)
	if !ok {
		return fmt.Sprintf("error is %T (%v), not a positioned script error", r.err, r.err)
	}
	if len(pe.PosChain) == 0 {
		return "error without position"
	}
	p := pe.PosChain[0]
	if p.File != "in.p" {
		return fmt.Sprintf("error names %q, not the script", p.File)
	}
	if p.Pos < 0 || p.Pos > len(src) {
		return fmt.Sprintf("error position %d outside the source (len %d): %v", p.Pos, len(src), pe.Error())
	}
	ln, col, _ := token.LnCol(src, token.Pos(p.Pos))
	if p.Ln != ln || p.Col != col {
		return fmt.Sprintf("error position %d is %d:%d, reported %d:%d", p.Pos, ln, col, p.Ln, p.Col)
	}
	return ""
}

var tokenPool = []string{"a", "x1", "1", "2.5", "0x1f", `"s"`, "'q'", "`r`", "true", "nil", "if", "elif", "else", "for", "in", "break", "continue",
	"+", "-", "*", "/", "%", "==", "!=", "<", "<=", ">", ">=", "&&", "||", "!", "=", "+=", "-=", "(", ")", "[", "]", "{", "}", ",", ":", ";", ".", "\n", "# c\n",
	"f(", "len(a)", "[1, 2]", `{"k": 1}`, "a[0]", "a[1:2]", "a.b", `"""m"""`, "1e", "0x", "1e+", "1.2.3", "'", `"`, "`", `"\z"`, "&", "|", "@", "\x00", "\xff", "é",
	"\u00a0", "\u3000", "\u2028", "\u0085", "\u0663", "\ufeff", "\ufffd", "\U0001f600", "名字", "\r", "\v", "\f", "\r\n", "x\u3000", "\u00a0y"}

var coldTexts = []string{"", " ", "\n", "#", "#\n", ";", "(", ")", "x", "x =", "\"", "'", "`", "\"\"\"", "1e", "0x", "\xff", "é", "\r\n", "if", "}", "\n\n x = (",
	"a = 1\nb = ", "x = \"\"\"a\nb", "f(1,\n2", "\ufeff", "\u3000"}

// parse-total -seed S -n N [-inputs file] [-programs file]: the parse postcondition on many texts.
func parseTotal(args []string) (any, error) {
	fs := flag.NewFlagSet("parse-total", flag.ContinueOnError)
	seed := fs.Int64("seed", 1, "")
	n := fs.Int("n", 2000, "")
	inputs := fs.String("inputs", "", "ndjson of {s:[bytes]}")
	programs := fs.String("programs", "", "ndjson of program sets: valid programs to mutate")
	if err := fs.Parse(args); err != nil {
		return nil, err
	}
	rng := rand.New(rand.NewSource(*seed))
	sum := &Summary{Extra: map[string]any{}}
	seen := map[string]bool{}
	hung := false
	try := func(kind, src string) {
		if seen[src] || hung {
			return // after a hang the stuck goroutine keeps spinning: the first hanging input is reported and the sweep stops
		}
		seen[src] = true
		sum.Evaluations++
		sum.Distinct++
		if p := checkParse(src); p != "" {
			if strings.Contains(p, "did not terminate") {
				hung = true
				sum.Extra["stopped_after_hang"] = true
			}
			sig := fmt.Sprintf("parse:%q", src)
			if len(sig) > 200 {
				sig = sig[:200]
			}
			sum.miss(sig, map[string]any{"source": src, "kind": kind, "problem": p})
		}
	}
	if *inputs != "" {
		if err := readNDJSON(*inputs, func(raw json.RawMessage) error {
			var in struct {
				S []int `json:"s"`
			}
			if err := json.Unmarshal(raw, &in); err != nil {
				return err
			}
			try("enumerated bytes", bytesOf(in.S))
			return nil
		}); err != nil {
			return nil, err
		}
	}
	// random token sequences
	for i := 0; i < *n; i++ {
		k := 1 + rng.Intn(7)
		parts := make([]string, k)
		for j := range parts {
			parts[j] = tokenPool[rng.Intn(len(tokenPool))]
		}
		try("token sequence", strings.Join(parts, " "))
		if i%3 == 0 {
			try("token sequence (no blanks)", strings.Join(parts, ""))
		}
	}
	// arbitrary bytes / invalid UTF-8
	for i := 0; i < *n/2; i++ {
		b := make([]byte, 1+rng.Intn(12))
		for j := range b {
			if rng.Intn(3) == 0 {
				b[j] = byte(rng.Intn(256))
			} else {
				const pool = "ab1 \n\"'`\\#()[]{}=+-.,:;!<>&|xe0"
				b[j] = pool[rng.Intn(len(pool))]
			}
		}
		try("random bytes", string(b))
	}
	// deep nesting, malformed numbers, unterminated forms
	for _, d := range []int{1, 2, 10, 100, 400, 2000} {
		try("deep nesting", strings.Repeat("(", d)+"1"+strings.Repeat(")", d))
		try("deep nesting", "x = "+strings.Repeat("[", d)+strings.Repeat("]", d))
		try("deep nesting", strings.Repeat("if 1 {\n", d)+strings.Repeat("}\n", d))
		try("deep nesting", strings.Repeat("(", d))
		try("deep nesting", "x = "+strings.Repeat("-", d)+"y")
		try("deep nesting", "x = a"+strings.Repeat("[0]", d))
		try("deep nesting", strings.Repeat("{\"k\":", d)+"1"+strings.Repeat("}", d))
	}
	for _, s := range []string{"0x", "-0x", "1e", "1e+", "x = 1e-", ".e1", "1.2.3", "08", "1_0", "0b1", "x = 1e400", "for a in 1e {}", "-a[1/0]", "a[1/0]",
		"x = 1 % 0", "x = 1 / 0.0", "\"abc", "'abc", "`abc", "\"\"\"abc", "\"a\\", "\"a\\x4\"", "\"\\ud800\"", "#", "# only", "", " ", "\n", ";", ";;", "\n\n;\n",
		"if", "if 1", "if 1 {", "for", "for ;", "for ;;", "for x in", "a =", "= 1", "a[", "a[1", "a[1:", "f(", "f(1,", "{", "}", ")", "]", "a b", "1 2", "a.", ".a", "..",
		"a = b = 3", "x = [1,,2]", "x = {1}", "x = {\"a\"}", "else {}", "elif 1 {}", "if 1 {} else", "if 1 {} else {} else {}", "break break", "x = !",
		"x = 1 +", "x = + ", "x = (", "x = ()", "f(a=)", "f(=1)", "f(1 2)", "a[1 2]", "a[::::]", "a[1:2:3:4]", "x = 'a' 'b'", "x = \"\\", "\xef\xbf\xbd", "x = \"\xef\xbf\xbd\""} {
		try("malformed", s)
	}
	// cold start: the same postcondition when the text is the first thing a parser object ever sees (the pools are emptied by
	// two garbage collections before each parse, as they are at process start and after an idle period)
	for _, s := range coldTexts {
		runtime.GC()
		runtime.GC()
		if p := checkParse(s); p != "" && !hung {
			sum.Evaluations++
			sum.miss(fmt.Sprintf("parse-cold:%q", s), map[string]any{"source": s, "kind": "first text of a fresh parser", "problem": p})
		}
	}
	// valid programs with one token deleted / duplicated / replaced (token boundaries from the real lexer)
	if *programs != "" {
		texts := []string{}
		_ = readNDJSON(*programs, func(raw json.RawMessage) error {
			var ps progSet
			if json.Unmarshal(raw, &ps) == nil {
				for _, t := range ps.Scripts {
					texts = append(texts, t)
				}
			}
			return nil
		})
		for _, src := range texts {
			try("valid program", src)
			type piece struct{ a, b int }
			var ps []piece
			lx := parser.Lex(src)
			for k := 0; k < len(src)+5; k++ {
				var it parser.Item
				lx.NextItem(&it)
				if it.Typ == parser.EOF || it.Typ == parser.ERROR {
					break
				}
				ps = append(ps, piece{int(it.Pos), int(it.Pos) + len(it.Val)})
			}
			for m := 0; m < 6 && len(ps) > 0; m++ {
				p := ps[rng.Intn(len(ps))]
				switch rng.Intn(3) {
				case 0:
					try("token deleted", src[:p.a]+src[p.b:])
				case 1:
					try("token duplicated", src[:p.b]+" "+src[p.a:p.b]+src[p.b:])
				default:
					try("token replaced", src[:p.a]+tokenPool[rng.Intn(len(tokenPool))]+src[p.b:])
				}
			}
		}
	}
	// a host parses from many goroutines: after rejected texts (which take the parser's error path), batches of texts are parsed
	// several at a time; every one must end as it ends alone - tree for the valid ones, the same positioned error for the others -
	// without an internal crash (checkParse's postcondition, evaluated per goroutine)
	if !hung {
		valid := []string{"x = 1\ny = x + 2", "if a { b = 1 } else { b = 2 }", "for i = 0; i < 3; i = i + 1 { f(i) }", "a = [1, 2, {\"k\": \"v\"}]",
			"add_key(k, \"text with spaces\")\nx = a[1:2]", "for v in [1, 2] {\nif v { continue }\n}", "x = \"\"\"multi\nline\"\"\"", "y = -5 + `q r`"}
		rejected := []string{"x = 1 +", "if a {", "x = (1", "x = \"abc", "f(1,", "x = [1", "a b", "x = 'q"}
		outcome := func(src string) string {
			ss, err := parser.ParsePipeline("in.p", src)
			if err != nil {
				return "error: " + err.Error()
			}
			return fmt.Sprintf("tree of %d statements", len(ss))
		}
		alone := map[string]string{}
		for _, t := range append(append([]string{}, valid...), rejected...) {
			alone[t] = outcome(t)
		}
		overl := 0
		for round := 0; round < 150 && len(sum.Mismatches) < 5; round++ {
			for k := 0; k <= round%3; k++ { // one to three failed parses first
				_, _ = parser.ParsePipeline("junk.p", rejected[(round+k)%len(rejected)])
			}
			g := 2 + round%7
			texts := make([]string, g)
			got := make([]string, g)
			for i := 0; i < g; i++ {
				if (i+round)%5 == 4 {
					texts[i] = rejected[(i+round)%len(rejected)]
				} else {
					texts[i] = valid[(i*3+round)%len(valid)]
				}
			}
			batch := func() {
				var wg sync.WaitGroup
				for i := 0; i < g; i++ {
					wg.Add(1)
					go func(i int) {
						defer wg.Done()
						defer func() {
							if r := recover(); r != nil {
								got[i] = fmt.Sprintf("panic escaped the parser: %v", r)
							}
						}()
						got[i] = outcome(texts[i])
					}(i)
				}
				wg.Wait()
			}
			if stderr := captureStderr(batch); strings.Contains(stderr, "panic") {
				first := stderr
				if j := strings.Index(first, "\n"); j > 0 {
					first = first[:j]
				}
				sum.miss("parse-overlapping-crash", map[string]any{"texts": texts, "kind": "parsed while other parses were in flight, after rejected texts",
					"problem": "the parser crashed internally (recovered, stack printed to stderr): " + first})
			}
			for i := 0; i < g; i++ {
				overl++
				sum.Evaluations++
				if got[i] != alone[texts[i]] {
					sum.miss(fmt.Sprintf("parse-overlapping:%q", texts[i]), map[string]any{"source": texts[i], "kind": "parsed while other parses were in flight, after rejected texts",
						"alone": alone[texts[i]], "among_overlapping_parses": got[i]})
				}
			}
		}
		sum.Extra["overlapping_parses"] = overl
	}
	sum.sample("x = 1 +")
	return sum, nil
}
