"""C16 — loaded scripts and the parser are safe for concurrent use."""
import os
import re

from lib import vlib
from checks.common import absorb, tlc_emit

LEVEL = "model_checking"


def run(ck):
    q = ck.tier == "quick"
    # S: ownership discipline + all interleavings of the runs' steps
    threads, steps = ("{1, 2}", 5) if q else ("{1, 2, 3}", 4)
    cfg = ("CONSTANTS Threads = %s\nSteps = %d\nPoolSize = 1\nSPECIFICATION Spec\n"
           "INVARIANTS ExclusiveOwner OwnerConsistent RunsOnlyPublished Emit\nPROPERTY TreeFrozen\nCHECK_DEADLOCK FALSE\n") % (threads, steps)
    res, rows = tlc_emit(ck, "Sharing", cfg, "Sharing(threads=%s, steps=%d)" % (threads, steps), timeout=1800)
    d = vlib.workdir("share")
    sf = os.path.join(d, "sched.ndjson")
    # distinct schedules only (the pool object choice multiplies states, not schedules)
    seen, uniq = set(), []
    for r in rows:
        k = tuple(r["sched"])
        if k not in seen:
            seen.add(k)
            uniq.append(r)
    vlib.write_ndjson(sf, uniq)
    r = vlib.vh_json(["replay-sharing", sf], timeout=3000)
    absorb(ck, r, "gated-interleavings")
    ck.add("traces_validated_against_impl", len(uniq))
    # I: free-running goroutines under the race detector
    rounds, maxg = (150, 8) if q else (3000, 16)
    procs = 5 if q else 20       # several processes: each one begins with a concurrent cold start
    import json
    err_all = ""
    for pi in range(procs):
        rc, out, err = vlib.vh(["race-run", "-seed", str(ck.seed * 1000 + pi), "-rounds", str(rounds // procs), "-max", str(maxg)], race=True,
                               timeout=3000, env={"GORACE": "halt_on_error=0 exitcode=0"}, check=False)
        err_all += err
        rr = None
        try:
            rr = json.loads(out)
        except Exception:
            fatal = re.search(r"fatal error: (concurrent map [a-z ]+)", err)
            if fatal and "github.com/GuanceCloud/platypus/" in err:
                # the Go runtime killed the process because two goroutines used one map at once inside the code under test:
                # that is the data race itself, observed without the detector's help
                frames = re.findall(r"github.com/GuanceCloud/platypus/[^\s(]+", err[fatal.start():])
                ck.disagreement("datarace-fatal:" + "|".join(frames[:2]), {"part": "race detector", "fatal": fatal.group(1), "report": err[fatal.start():][:6000]})
            else:
                raise vlib.Broken("race-run produced no summary (rc=%d):\n%s" % (rc, err[-3000:]))
        if rr is not None:
            absorb(ck, rr, "race-detector-runs")
            ck.note("goroutine_runs", rr["extra"])
    # cold call sites: freshly written scripts (every builtin with a literal no script used before) loaded and first run several at a time
    rc, out, err = vlib.vh(["cold-runs", "-n", "96" if q else "1500", "-g", "12"], race=True, timeout=3000,
                           env={"GORACE": "halt_on_error=0 exitcode=0"}, check=False)
    err_all += err
    try:
        absorb(ck, json.loads(out), "cold-call-sites")
    except Exception:
        fatal = re.search(r"fatal error: (concurrent map [a-z ]+)", err)
        if fatal and "github.com/GuanceCloud/platypus/" in err:
            frames = re.findall(r"github.com/GuanceCloud/platypus/[^\s(]+", err[fatal.start():])
            ck.disagreement("datarace-fatal:" + "|".join(frames[:2]), {"part": "cold call sites", "fatal": fatal.group(1), "report": err[fatal.start():][:6000]})
        else:
            raise vlib.Broken("cold-runs produced no summary (rc=%d):\n%s" % (rc, err[-3000:]))
    err = err_all
    reports = re.findall(r"WARNING: DATA RACE.*?={18}", err, flags=re.S)
    for rep in reports[:5]:
        # identify the race by the first two platypus frames it names
        frames = re.findall(r"github.com/GuanceCloud/platypus/[^\s(]+", rep)
        ck.disagreement("datarace:" + "|".join(frames[:2]), {"part": "race detector", "report": rep[:6000]})
    ck.note("race_reports", len(reports))
    ck.cov["rule"] = ("S: TLC enumerates all interleavings of %s runs x %d gated steps of one published script (ownership invariants "
                      "ExclusiveOwner/TreeFrozen hold in the model); each schedule is replayed with the exit-signal poll as scheduler gate "
                      "on a shared loaded script that uses grok, add_pattern, use(), load_json, collections and renames, each run on a "
                      "private pooled point, and every run's result must equal its sequential result. I: %d processes, each beginning with a "
                      "concurrent cold start (the first parses, loads and runs of the process happen at once), then together %d rounds of 2..%d free-running "
                      "goroutines with random start offsets mixing parses/loads of 8 fixed sources (valid, syntax error, lexical "
                      "error, rejected operand) and of freshly generated sources never parsed before in the process (unique names, "
                      "numbers, strings, keywords in random letter case, some broken) with runs of the shared script, under Go's race "
                      "detector; any report is a violation, and every concurrent parse must return what the same parse returns alone. "
                      "distinct = schedules / rounds." % (threads, steps, procs, rounds, maxg))
    ck.assumptions += ["absence of data races is observational: only schedules the detector saw", "gating adds synchronisation at polls only"]
