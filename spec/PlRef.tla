--------------------------------- MODULE PlRef ---------------------------------
(* Reference semantics of Platypus statements, written from the manual        *)
(* (docs/src/references/01-syntax-spec.md) as a big-step, structurally        *)
(* recursive definition: no control frames, no break/continue/exit flags, no  *)
(* polls.  A statement list yields a new state and an outcome                 *)
(*      "normal" | "break" | "continue" | "exit" | "error".                   *)
(* PlMachine (the implementation-shaped small-step machine) must refine it:   *)
(* TLC checks, for every program it is given, that the machine's              *)
(* uninterrupted run produces exactly the effects, final point and outcome    *)
(* defined here (invariant Refines in PlMachine).                             *)
(*                                                                            *)
(*  - if/elif/else: the first branch whose condition is truthy runs in a      *)
(*    fresh block scope; conditions are evaluated in order in a scope of      *)
(*    their own;                                                              *)
(*  - for init; cond; post: init once in the loop's scope, then while cond    *)
(*    is truthy (absent = true): body in a fresh scope, then post; break      *)
(*    ends the loop, continue goes to post;                                   *)
(*  - for v in x: x is evaluated once; list elements in order, string         *)
(*    characters, map keys (order policy mo); the loop variable is assigned   *)
(*    by the ordinary assignment rule; body-local variables do not survive    *)
(*    an iteration;                                                           *)
(*  - break / continue end the innermost enclosing loop's iteration;          *)
(*  - exit() ends the current script; use(name) runs the named script on the  *)
(*    same point with fresh variables, a callee's exit() ends only the        *)
(*    callee, a callee's error aborts the caller (call site appended);        *)
(*  - an error anywhere ends everything.                                      *)
EXTENDS PlExpr

BRes(st, out, cls, chain, fuel) == [st |-> st, out |-> out, cls |-> cls, chain |-> chain, fuel |-> fuel]
Norm(st, fuel) == BRes(st, "normal", "", <<>>, fuel)
RECURSIVE RepeatP(_, _)
RepeatP(x, n) == IF n = 0 THEN <<>> ELSE <<x>> \o RepeatP(x, n - 1)
\* an expression-level failure inside statement sid of script `name`
Failed(st, cls, name, sid, fuel) == BRes([st EXCEPT !.wrap = 0], "error", cls, RepeatP(<<name, sid>>, 1 + st.wrap), fuel)

PushS(st) == [st EXCEPT !.sc = Append(@, EmptyScope)]
PopS(st, n) == [st EXCEPT !.sc = SubSeq(@, 1, Len(@) - n)]
ClearTop(st) == [st EXCEPT !.sc[Len(st.sc)] = EmptyScope]

SortAscR(ks) ==
  LET Less(a, b) == \E i \in 1..(IF Len(a) < Len(b) THEN Len(a) ELSE Len(b)) + 1 :
                      /\ \A j \in 1..(i - 1) : j <= Len(a) /\ j <= Len(b) /\ a[j] = b[j]
                      /\ \/ (i > Len(a) /\ i <= Len(b))
                         \/ (i <= Len(a) /\ i <= Len(b) /\ a[i] < b[i])
      RECURSIVE Srt(_)
      Srt(S) == IF S = {} THEN <<>>
                ELSE LET mn == CHOOSE a \in S : \A b \in S \ {a} : Less(a, b) IN <<mn>> \o Srt(S \ {mn})
  IN Srt({ks[i] : i \in 1..Len(ks)})
RevR(s) == [i \in 1..Len(s) |-> s[Len(s) + 1 - i]]

\* c: context [prog, name, mo, v2]
RECURSIVE ExecList(_, _, _, _, _), ExecStmt(_, _, _, _), ForLoop(_, _, _, _), ForInLoop(_, _, _, _, _, _, _),
          PickBranch(_, _, _, _, _)

ExecList(ss, i, st, c, fuel) ==
  IF i > Len(ss) THEN Norm(st, fuel)
  ELSE IF fuel = 0 THEN BRes(st, "diverge", "", <<>>, 0)
  ELSE LET r == ExecStmt(ss[i], st, c, fuel - 1)
       IN IF r.out = "normal" THEN ExecList(ss, i + 1, r.st, c, r.fuel) ELSE r

\* first truthy condition: [st, out(normal/error), j]
PickBranch(s, j, st, c, fuel) ==
  IF j > Len(s.cs) THEN [st |-> st, ok |-> TRUE, j |-> 0, cls |-> ""]
  ELSE LET r == NoPend(Use1(st, Eval(s.cs[j], st))) IN
       IF ~r.ok THEN [st |-> r.st, ok |-> FALSE, j |-> 0, cls |-> r.cls]
       ELSE IF Truthy(r.st.heap, r.v) THEN [st |-> r.st, ok |-> TRUE, j |-> j, cls |-> ""]
       ELSE PickBranch(s, j + 1, r.st, c, fuel)

ExecStmt(s, st, c, fuel) ==
  CASE s.k = "break" -> BRes(st, "break", "", <<>>, fuel)
    [] s.k = "continue" -> BRes(st, "continue", "", <<>>, fuel)
    [] s.k = "if" ->
         LET p == PickBranch(s, 1, PushS(st), c, fuel) IN
         IF ~p.ok THEN Failed(p.st, p.cls, c.name, s.sid, fuel)
         ELSE IF p.j = 0 /\ ~s.he THEN Norm(PopS(p.st, 1), fuel)
         ELSE LET r == ExecList(IF p.j # 0 THEN s.bs[p.j] ELSE s.eb, 1, PushS(p.st), c, fuel)
              IN IF r.out \in {"error", "diverge"} THEN r ELSE [r EXCEPT !.st = PopS(r.st, 2)]
    [] s.k = "for" ->
         LET st1 == PushS(st)
             i == IF NoneNode(s.i) THEN R(st1, VVoid) ELSE NoPend(Eval(s.i, st1))
         IN IF ~i.ok THEN Failed(i.st, i.cls, c.name, s.sid, fuel)
            ELSE LET r == ForLoop(s, i.st, c, fuel)
                 IN IF r.out \in {"error", "diverge"} THEN r ELSE [r EXCEPT !.st = PopS(r.st, 1)]
    [] s.k = "forin" ->
         LET st1 == PushS(st)
             it == NoPend(Use1(st1, Eval(s.it, st1)))
         IN IF ~it.ok THEN Failed(it.st, it.cls, c.name, s.sid, fuel)
            ELSE LET kd == KindOf(it.st.heap, it.v) IN
                 IF ~(kd \in {"str", "list", "map"}) THEN Failed(it.st, "not-iterable", c.name, s.sid, fuel)
                 ELSE LET items == CASE kd = "str" -> [k \in 1..Len(Runes(it.v.s)) |-> VStr(Runes(it.v.s)[k])]
                                     [] kd = "list" -> it.st.heap[it.v.l].e
                                     [] kd = "map" -> LET ks == SortAscR(it.st.heap[it.v.l].ks)
                                                          o == IF c.mo = "desc" THEN RevR(ks) ELSE ks
                                                      IN [k \in 1..Len(o) |-> VStr(o[k])]
                          r == ForInLoop(s, items, 1, PushS(it.st), c, fuel, kd = "str")
                      IN IF r.out \in {"error", "diverge"} THEN r ELSE [r EXCEPT !.st = PopS(r.st, 2)]
    [] LeadUse(s).is /\ ~c.v2 /\ LeadUse(s).name \in DOMAIN c.prog ->
         \* the callee first (same point and heap, fresh variables), then the statement itself with "no value" for the call
         LET lu == LeadUse(s)
             inner == ExecList(c.prog[lu.name], 1, [st EXCEPT !.sc = <<EmptyScope>>, !.pend = "", !.xt = FALSE],
                               [c EXCEPT !.name = lu.name], fuel)
         IN IF inner.out = "diverge" THEN inner
            ELSE IF inner.out = "error" THEN [inner EXCEPT !.chain = @ \o RepeatP(<<c.name, s.sid>>, 1 + lu.wrap)]
            ELSE LET r == Eval(s, [inner.st EXCEPT !.sc = st.sc, !.xt = st.xt, !.pend = ""]) IN
                 IF ~r.ok THEN Failed(r.st, r.cls, c.name, s.sid, inner.fuel)
                 ELSE IF r.st.xt THEN BRes([r.st EXCEPT !.pend = ""], "exit", "", <<>>, inner.fuel)
                 ELSE Norm([r.st EXCEPT !.pend = ""], inner.fuel)
    [] OTHER ->
         LET r == IF DirectUse(s) THEN Eval(s, st) ELSE NoPend(Eval(s, st)) IN
         IF ~r.ok THEN Failed(r.st, r.cls, c.name, s.sid, fuel)
         ELSE IF r.st.pend # "" /\ r.st.pend \in DOMAIN c.prog
           THEN \* use(name): the callee runs on the same point and heap with fresh variables
                LET callee == r.st.pend
                    inner == ExecList(c.prog[callee], 1, [r.st EXCEPT !.sc = <<EmptyScope>>, !.pend = "", !.xt = FALSE],
                                      [c EXCEPT !.name = callee], fuel)
                IN IF inner.out = "diverge" THEN inner
                   ELSE IF inner.out = "error" THEN [inner EXCEPT !.chain = Append(@, <<c.name, s.sid>>)]
                   ELSE Norm([inner.st EXCEPT !.sc = r.st.sc, !.xt = r.st.xt, !.pend = ""], inner.fuel)     \* a callee's exit() ends only the callee
         ELSE IF r.st.xt THEN BRes([r.st EXCEPT !.pend = ""], "exit", "", <<>>, fuel)
         ELSE Norm([r.st EXCEPT !.pend = ""], fuel)

\* state st has the loop's scope on top
ForLoop(s, st, c, fuel) ==
  IF fuel = 0 THEN BRes(st, "diverge", "", <<>>, 0)
  ELSE LET cond == IF NoneNode(s.c) THEN R(st, VBool(TRUE)) ELSE NoPend(Use1(st, Eval(s.c, st))) IN
  IF ~cond.ok THEN Failed(cond.st, cond.cls, c.name, s.sid, fuel)
  ELSE IF ~Truthy(cond.st.heap, cond.v) THEN Norm(cond.st, fuel)
  ELSE LET b == ExecList(s.b, 1, PushS(cond.st), c, fuel - 1) IN
       IF b.out \in {"error", "diverge"} THEN b
       ELSE LET st2 == PopS(b.st, 1) IN
            IF b.out = "break" THEN Norm(st2, b.fuel)
            ELSE IF b.out = "exit" THEN BRes(st2, "exit", "", <<>>, b.fuel)
            ELSE LET p == IF NoneNode(s.p) THEN R(st2, VVoid) ELSE NoPend(Eval(s.p, st2)) IN
                 IF ~p.ok THEN Failed(p.st, p.cls, c.name, s.sid, b.fuel)
                 ELSE ForLoop(s, p.st, c, b.fuel)

\* state st has the iteration scope on top
ForInLoop(s, items, i, st, c, fuel, strmode) ==
  IF i > Len(items) THEN Norm(st, fuel)
  ELSE IF fuel = 0 THEN BRes(st, "diverge", "", <<>>, 0)
  ELSE LET st1 == [ClearTop(st) EXCEPT !.sc = SetVar(ClearTop(st).sc, IF c.v2 THEN s.v ELSE Alias(s.v), items[i])]
           b == ExecList(s.b, 1, st1, c, fuel - 1)
       IN IF b.out \in {"error", "diverge"} THEN b
          ELSE IF b.out = "break" THEN Norm(b.st, b.fuel)
          ELSE IF b.out = "exit" THEN BRes(b.st, "exit", "", <<>>, b.fuel)
          ELSE ForInLoop(s, items, i + 1, b.st, c, b.fuel, strmode)

\* a whole run: [status "done"|"error"|"diverge", log, pt, chain, cls]
RefRun(p, mo) ==
  LET prog == [n \in DOMAIN p.scripts |-> Annotate(p.scripts[n])]
      st0 == [sc |-> <<EmptyScope>>, heap |-> <<>>, pt |-> p.pt, log |-> <<>>, xt |-> FALSE, pend |-> "", v2 |-> p.v2, wrap |-> 0]
      r == ExecList(prog[p.main], 1, st0, [prog |-> prog, name |-> p.main, mo |-> mo, v2 |-> p.v2], p.fuel)
  IN [status |-> IF r.out = "error" THEN "error" ELSE IF r.out = "diverge" THEN "diverge" ELSE "done",
      log |-> r.st.log, pt |-> r.st.pt, cls |-> r.cls, chain |-> r.chain]
=============================================================================
