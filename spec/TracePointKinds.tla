--------------------------- MODULE TracePointKinds ---------------------------
(* Trace validation against PointKinds: executions of the real builtins     *)
(* over arbitrary (extreme) values, projected to kinds.                      *)
EXTENDS PointKinds, Json, IOUtils

Trace == ndJsonDeserialize(IOEnv.TRACE_FILE)
VARIABLE l
tvars == <<kvars, l>>
Ev == Trace[l]
Norm(f) == [x \in DOMAIN f |-> f[x]]
SetOf(s) == {s[i] : i \in DOMAIN s}
Post == /\ meta' = Norm(Ev.post.meta) /\ fieldk' = Norm(Ev.post.fieldk) /\ tagged' = SetOf(Ev.post.tagged)

Init == l = 1 /\ meta = <<>> /\ fieldk = <<>> /\ tagged = {}
TReset == /\ l <= Len(Trace) /\ Ev.op.o = "init" /\ l' = l + 1
          /\ meta' = Norm(Ev.post.meta) /\ fieldk' = Norm(Ev.post.fieldk) /\ tagged' = SetOf(Ev.post.tagged)
TOp == /\ l <= Len(Trace) /\ Ev.op.o # "init" /\ l' = l + 1
       /\ Step(Ev.op.o, Ev.op.k, Ev.op.k2, Ev.op.vk, Ev.op.T)
       /\ Post
TraceNext == TReset \/ TOp
TraceSpec == Init /\ [][TraceNext]_tvars

ASSUME TLCSet(1, 0)
HighWater == TLCSet(1, IF l > TLCGet(1) THEN l ELSE TLCGet(1))
Accepted == IF TLCGet(1) = Len(Trace) + 1 THEN TRUE
            ELSE /\ PrintT("@@" \o ToJson([reject |-> TLCGet(1), line |-> Trace[TLCGet(1)]]))
                 /\ FALSE
=============================================================================
