------------------------------- MODULE Literals -------------------------------
(* What a literal's spelling denotes (C07).                                   *)
(*  - quoted strings (single / double quote): Go interpreted-string escape    *)
(*    rules, with \' and \" allowed only for the enclosing quote;             *)
(*  - triple-quoted strings: the raw bytes between matching triple quotes;    *)
(*  - back-quoted identifiers: the raw bytes;                                 *)
(*  - numbers: a decimal or 0x integer up to 2^63-1 is that integer, every    *)
(*    other numeric spelling the nearest double (round to nearest even).      *)
(* Each judgement is "ok + value", "invalid" (must be rejected) or "na"       *)
(* (the spelling is not one literal of that kind / left unspecified).         *)
EXTENDS F64, TLC, Json, IOUtils

Rows == ndJsonDeserialize(IOEnv.LIT_FILE)

OkB(bs) == [v |-> "ok", bytes |-> bs]
Invalid == [v |-> "invalid", bytes |-> <<>>]
NA == [v |-> "na", bytes |-> <<>>]

BSL == 92   DQ == 34   SQ == 39   BQ == 96   NLc == 10

HexVal(b) == IF b >= 48 /\ b <= 57 THEN b - 48
             ELSE IF b >= 97 /\ b <= 102 THEN b - 87
             ELSE IF b >= 65 /\ b <= 70 THEN b - 55 ELSE -1
OctVal(b) == IF b >= 48 /\ b <= 55 THEN b - 48 ELSE -1

\* UTF-8 encoding of a code point (< 2^21)
Utf8(v) == IF v < 128 THEN <<v>>
           ELSE IF v < 2048 THEN <<192 + (v \div 64), 128 + (v % 64)>>
           ELSE IF v < 65536 THEN <<224 + (v \div 4096), 128 + ((v \div 64) % 64), 128 + (v % 64)>>
           ELSE <<240 + (v \div 262144), 128 + ((v \div 4096) % 64), 128 + ((v \div 64) % 64), 128 + (v % 64)>>

RECURSIVE HexRun(_, _, _, _)
\* value of n hex digits starting at s[i], or -1
HexRun(s, i, n, acc) == IF n = 0 THEN acc
                        ELSE IF i > Len(s) \/ HexVal(s[i]) < 0 THEN -1
                        ELSE IF acc > 1114111 THEN -2        \* already beyond U+10FFFF (keeps TLC ints small)
                        ELSE HexRun(s, i + 1, n - 1, acc * 16 + HexVal(s[i]))

RECURSIVE Unq(_, _, _, _)
\* interpreted string body s from position i, enclosing quote q, output so far
Unq(s, i, q, out) ==
  IF i > Len(s) THEN OkB(out)
  ELSE LET b == s[i] IN
  IF b = q THEN NA                       \* an unescaped enclosing quote ends the literal earlier: not one literal
  ELSE IF b = NLc THEN NA                \* a raw line break is a tokenisation matter (C05)
  ELSE IF b # BSL THEN Unq(s, i + 1, q, Append(out, b))
  ELSE IF i + 1 > Len(s) THEN NA         \* the backslash would escape the closing quote: unterminated (C05)
  ELSE LET c == s[i + 1] IN
    CASE c = 97 -> Unq(s, i + 2, q, Append(out, 7))      \* \a
      [] c = 98 -> Unq(s, i + 2, q, Append(out, 8))      \* \b
      [] c = 102 -> Unq(s, i + 2, q, Append(out, 12))    \* \f
      [] c = 110 -> Unq(s, i + 2, q, Append(out, 10))    \* \n
      [] c = 114 -> Unq(s, i + 2, q, Append(out, 13))    \* \r
      [] c = 116 -> Unq(s, i + 2, q, Append(out, 9))     \* \t
      [] c = 118 -> Unq(s, i + 2, q, Append(out, 11))    \* \v
      [] c = BSL -> Unq(s, i + 2, q, Append(out, BSL))
      [] c = q -> Unq(s, i + 2, q, Append(out, q))
      [] c \in {DQ, SQ} -> Invalid                         \* the other quote must not be escaped
      [] c = 120 -> (LET v == HexRun(s, i + 2, 2, 0) IN     \* \xHH : one byte
                     IF v < 0 THEN Invalid ELSE Unq(s, i + 4, q, Append(out, v)))
      [] c = 117 -> (LET v == HexRun(s, i + 2, 4, 0) IN     \* \uHHHH
                     IF v < 0 \/ (v >= 55296 /\ v < 57344) THEN Invalid ELSE Unq(s, i + 6, q, out \o Utf8(v)))
      [] c = 85 -> (LET v == HexRun(s, i + 2, 8, 0) IN      \* \UHHHHHHHH
                    IF v < 0 \/ v > 1114111 \/ (v >= 55296 /\ v < 57344) THEN Invalid ELSE Unq(s, i + 10, q, out \o Utf8(v)))
      [] OctVal(c) >= 0 ->                                  \* \ooo : one byte
           (IF i + 3 > Len(s) \/ OctVal(s[i + 2]) < 0 \/ OctVal(s[i + 3]) < 0 THEN Invalid
            ELSE LET v == 64 * OctVal(c) + 8 * OctVal(s[i + 2]) + OctVal(s[i + 3])
                 IN IF v > 255 THEN Invalid ELSE Unq(s, i + 4, q, Append(out, v)))
      [] OTHER -> Invalid

HasTriple(s) == \E i \in 1..(Len(s) - 2) : s[i] \in {DQ, SQ} /\ s[i + 1] \in {DQ, SQ} /\ s[i + 2] \in {DQ, SQ}
\* kind: "dq" | "sq" | "tdq" | "tsq" | "bq"
StringJudge(kind, body) ==
  CASE kind = "dq" -> Unq(body, 1, DQ, <<>>)
    [] kind = "sq" -> Unq(body, 1, SQ, <<>>)
    [] kind \in {"tdq", "tsq"} -> (IF HasTriple(body) \/ (body # <<>> /\ body[Len(body)] \in {DQ, SQ}) THEN NA ELSE OkB(body))
    [] kind = "bq" -> (IF \E i \in 1..Len(body) : body[i] = BQ THEN NA ELSE OkB(body))
\* a triple-quoted literal must be closed by the quote character that opened it
TripleMixJudge == Invalid

(* -------------------------------- numbers ------------------------------- *)
IsDig(b) == b >= 48 /\ b <= 57
AllDig(s) == \A i \in 1..Len(s) : IsDig(s[i])
AllHex(s) == \A i \in 1..Len(s) : HexVal(s[i]) >= 0
DigVals(s) == [i \in 1..Len(s) |-> s[i] - 48]
RECURSIVE BnFromHexFrom(_, _, _)
BnFromHexFrom(s, i, acc) == IF i > Len(s) THEN acc
                            ELSE BnFromHexFrom(s, i + 1, BnAdd(BnMulSmall(acc, 16), BnFromInt(HexVal(s[i]))))
IntOrFloat(mag) == IF BnCmp(mag, P63) < 0 THEN [v |-> "int", i |-> IMk(FALSE, mag)]
                   ELSE [v |-> "float", f |-> FRound(FALSE, mag, 0, FALSE)]
IndexOf(s, set) == LET S == {i \in 1..Len(s) : s[i] \in set} IN IF S = {} THEN 0 ELSE CHOOSE i \in S : \A j \in S : i <= j
RECURSIVE SmallNum(_, _, _)
SmallNum(s, i, acc) == IF i > Len(s) THEN acc ELSE IF acc > 100000 THEN acc ELSE SmallNum(s, i + 1, acc * 10 + (s[i] - 48))

\* spelling without sign. Result: int / float / invalid / na
NumberJudge(s) ==
  IF s = <<>> THEN [v |-> "na"]
  ELSE IF Len(s) >= 2 /\ s[1] = 48 /\ s[2] \in {120, 88}
    THEN (IF Len(s) = 2 THEN [v |-> "invalid"]
          ELSE IF AllHex(SubSeq(s, 3, Len(s))) THEN IntOrFloat(BnFromHexFrom(SubSeq(s, 3, Len(s)), 1, <<>>))
          ELSE [v |-> "na"])
  ELSE IF AllDig(s) THEN IntOrFloat(BnFromDec(DigVals(s)))
  ELSE LET ePos == IndexOf(s, {101, 69})
           mant == IF ePos = 0 THEN s ELSE SubSeq(s, 1, ePos - 1)
           expo == IF ePos = 0 THEN <<>> ELSE SubSeq(s, ePos + 1, Len(s))
           dot == IndexOf(mant, {46})
           ip == IF dot = 0 THEN mant ELSE SubSeq(mant, 1, dot - 1)
           fp == IF dot = 0 THEN <<>> ELSE SubSeq(mant, dot + 1, Len(mant))
           esign == expo # <<>> /\ expo[1] \in {43, 45}
           edigs == IF esign THEN Tail(expo) ELSE expo
       IN IF ~AllDig(ip) \/ ~AllDig(fp) \/ (ip = <<>> /\ fp = <<>>) THEN [v |-> "na"]
          ELSE IF ePos # 0 /\ (edigs = <<>> \/ ~AllDig(edigs)) THEN [v |-> "invalid"]
          ELSE LET ev == IF ePos = 0 THEN 0 ELSE SmallNum(edigs, 1, 0)
                   e10 == (IF esign /\ expo[1] = 45 THEN 0 - ev ELSE ev) - Len(fp)
               IN IF ev > 290 THEN [v |-> "na"]          \* near / beyond the double range: not demanded
                  ELSE LET f == FFromDecimal(FALSE, DigVals(ip \o fp), e10)
                       IN IF f.c = "unspec" \/ f.c = "inf" THEN [v |-> "na"] ELSE [v |-> "float", f |-> f]

\* keywords are recognised in any letter case
Lower(s) == [i \in 1..Len(s) |-> IF s[i] >= 65 /\ s[i] <= 90 THEN s[i] + 32 ELSE s[i]]
KeywordJudge(s) == CASE Lower(s) = <<116, 114, 117, 101>> -> [v |-> "bool", b |-> TRUE]
                     [] Lower(s) = <<102, 97, 108, 115, 101>> -> [v |-> "bool", b |-> FALSE]
                     [] Lower(s) \in {<<110, 105, 108>>, <<110, 117, 108, 108>>} -> [v |-> "nil"]
                     [] OTHER -> [v |-> "ident"]          \* any other word is an identifier
Judge(r) == CASE r.kind = "num" -> NumberJudge(r.src)
              [] r.kind = "kw" -> KeywordJudge(r.src)
              [] r.kind = "tmix" -> TripleMixJudge
              [] OTHER -> StringJudge(r.kind, r.src)

VARIABLE out
Init == \E i \in 1..Len(Rows) : out = [id |-> Rows[i].id, j |-> Judge(Rows[i])]
Next == UNCHANGED out
Spec == Init /\ [][Next]_out
Emit == PrintT("@@" \o ToJson(out))
=============================================================================
