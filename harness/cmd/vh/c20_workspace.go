package main

import (
	"encoding/json"
	"fmt"
	"os"
	"os/exec"
	"path/filepath"
	"sort"
	"strings"
	"sync"
	"time"

	"github.com/GuanceCloud/platypus/pkg/engine"
	"github.com/GuanceCloud/platypus/pkg/inimpl/guancecloud/funcs"
	"github.com/GuanceCloud/platypus/pkg/inimpl/guancecloud/input"
)

func init() { register("replay-workspace", replayWorkspace) }

type wsEntry struct {
	Name string   `json:"name"`
	Type string   `json:"type"`
	Body string   `json:"body"`
	Uses []string `json:"uses"`
}

type wsRow struct {
	Dir  []wsEntry `json:"dir"`
	Sel  string    `json:"sel"`
	Kind string    `json:"kind"` // printed | loaderr | notfound
	Ran  []string  `json:"ran"`
	Cli  bool      `json:"cli"`
}

func wsMarker(name string) string {
	return "from_" + strings.NewReplacer(".", "_", " ", "_").Replace(name)
}

func wsContent(e wsEntry) string {
	switch e.Body {
	case "syntax":
		return "add_key(x, \n"
	case "check":
		return "nosuch()\n"
	}
	var b strings.Builder
	fmt.Fprintf(&b, "add_key(%s, 1)\n", wsMarker(e.Name))
	for _, u := range e.Uses {
		fmt.Fprintf(&b, "use(%q)\n", u)
	}
	return b.String()
}

func wsIsScript(e wsEntry) bool {
	return (e.Type == "file" || e.Type == "link") && (strings.HasSuffix(e.Name, ".p") || strings.HasSuffix(e.Name, ".ppl"))
}

func markersOf(fields map[string]any) []string {
	out := []string{}
	for k := range fields {
		if strings.HasPrefix(k, "from_") {
			out = append(out, k)
		}
	}
	sort.Strings(out)
	return out
}

// replay-workspace <rows.ndjson> <platypus binary | build> <scratch dir | tmp>: every behaviour of the Workspace model is materialised as a
// directory; (a) the library (ReadPlScriptFromDir + ParseScript + Run) and (b) for the rows marked cli the built runner must
// discover exactly the model's scripts, give the selected name the model's verdict, and leave exactly the markers of the scripts
// the model says ran.
func replayWorkspace(args []string) (any, error) {
	rowsPath, bin, scratch := args[0], args[1], args[2]
	if scratch == "tmp" { // replay of a single recorded vector: own scratch directory, removed afterwards
		base := ""
		if st, err := os.Stat(".work"); err == nil && st.IsDir() {
			base = ".work"
		}
		t, err := os.MkdirTemp(base, "wsreplay")
		if err != nil {
			return nil, err
		}
		scratch, _ = filepath.Abs(t)
		defer os.RemoveAll(scratch)
	}
	if bin == "build" {
		repo := os.Getenv("VERIF_REPO")
		if repo == "" {
			repo = "/repo"
		}
		bin = filepath.Join(scratch, "platypus")
		c := exec.Command("go", "build", "-o", bin, "./cmd/platypus")
		c.Dir = repo
		if out, err := c.CombinedOutput(); err != nil {
			return nil, fmt.Errorf("cli build failed: %v\n%s", err, out)
		}
	}
	sum := &Summary{Extra: map[string]any{}}
	var mu sync.Mutex
	var rows []wsRow
	var raws []json.RawMessage
	err := readNDJSON(rowsPath, func(raw json.RawMessage) error {
		var r wsRow
		if err := json.Unmarshal(raw, &r); err != nil {
			return err
		}
		rows = append(rows, r)
		raws = append(raws, raw)
		return nil
	})
	if err != nil {
		return nil, err
	}
	cliRuns := 0
	work := make(chan int)
	var wg sync.WaitGroup
	var firstErr error
	for w := 0; w < 12; w++ {
		wg.Add(1)
		go func() {
			defer wg.Done()
			for i := range work {
				r := rows[i]
				dir := filepath.Join(scratch, fmt.Sprintf("w%d", i))
				ws := filepath.Join(dir, "ws")
				if err := os.MkdirAll(ws, 0o755); err != nil {
					mu.Lock()
					firstErr = err
					mu.Unlock()
					continue
				}
				wantScripts := []string{}
				texts := map[string]string{}
				for _, e := range r.Dir {
					if e.Type == "dir" {
						_ = os.MkdirAll(filepath.Join(ws, e.Name), 0o755)
						// something inside the sub-directory that would be a script if directories were descended into
						_ = os.WriteFile(filepath.Join(ws, e.Name, "inner.p"), []byte("add_key(from_inner, 1)\n"), 0o644)
						continue
					}
					texts[e.Name] = wsContent(e)
					if e.Type == "link" { // the script is kept outside the workspace; the workspace holds a symbolic link to it
						target := filepath.Join(dir, "kept-elsewhere-"+e.Name)
						_ = os.WriteFile(target, []byte(texts[e.Name]), 0o644)
						if err := os.Symlink(target, filepath.Join(ws, e.Name)); err != nil {
							mu.Lock()
							firstErr = err
							mu.Unlock()
						}
					} else {
						_ = os.WriteFile(filepath.Join(ws, e.Name), []byte(texts[e.Name]), 0o644)
					}
					if wsIsScript(e) {
						wantScripts = append(wantScripts, e.Name)
					}
				}
				sort.Strings(wantScripts)
				wantRan := []string{}
				for _, n := range r.Ran {
					wantRan = append(wantRan, wsMarker(n))
				}
				sort.Strings(wantRan)
				names := []string{}
				for _, e := range r.Dir {
					names = append(names, e.Name)
				}
				sort.Strings(names)
				sig := fmt.Sprintf("workspace:%s:sel=%s:main=%s", strings.Join(names, ","), r.Sel, strings.ReplaceAll(texts["main.p"], "\n", ";"))
				detail := func(problem string, more map[string]any) map[string]any {
					d := map[string]any{"problem": problem, "dir": r.Dir, "select": r.Sel, "model": map[string]any{"kind": r.Kind, "ran": r.Ran}}
					for k, v := range more {
						d[k] = v
					}
					return d
				}
				report := func(part, problem string, more map[string]any) {
					mu.Lock()
					curVec = raws[i]
					sum.miss(part+":"+sig, detail(problem, more))
					mu.Unlock()
				}
				// (a) the library
				func() {
					found, paths, err := engine.ReadPlScriptFromDir(ws)
					if err != nil {
						report("lib", "ReadPlScriptFromDir failed: "+err.Error(), nil)
						return
					}
					got := []string{}
					for k := range found {
						got = append(got, k)
					}
					sort.Strings(got)
					if strings.Join(got, "|") != strings.Join(wantScripts, "|") {
						report("lib", "the scripts discovered in the directory are not the .p/.ppl files of it", map[string]any{"discovered": got, "scripts": wantScripts})
						return
					}
					for k, v := range found {
						if v != texts[k] {
							report("lib", "a discovered script does not carry its file's content", map[string]any{"script": k})
							return
						}
						if paths[k] != filepath.Join(ws, k) {
							report("lib", "a discovered script does not carry its file's path", map[string]any{"script": k, "path": paths[k]})
							return
						}
					}
					ok, errs := engine.ParseScript(found, funcs.FuncsMap, funcs.FuncsCheckMap)
					_, isOK := ok[r.Sel]
					_, isErr := errs[r.Sel]
					gotKind := "notfound"
					if isOK && !isErr {
						gotKind = "printed"
					} else if isErr && !isOK {
						gotKind = "loaderr"
					} else if isOK && isErr {
						gotKind = "both"
					}
					if gotKind != r.Kind {
						report("lib", "verdict of the selected script", map[string]any{"got": gotKind, "error": fmt.Sprint(errs[r.Sel])})
						return
					}
					if gotKind != "printed" {
						return
					}
					pt := &input.Point{}
					input.InitPt(pt, "default_name", nil, map[string]any{"message": "hello"}, time.Unix(1600000000, 0))
					if e := ok[r.Sel].Run(pt, nil); e != nil {
						report("lib", "run of the accepted selection failed: "+e.Error(), nil)
						return
					}
					if g := markersOf(pt.Fields); strings.Join(g, "|") != strings.Join(wantRan, "|") {
						report("lib", "the scripts that ran are not the selection and what it reaches through use()", map[string]any{"ran": g, "want": wantRan})
					}
				}()
				if !r.Cli {
					mu.Lock()
					sum.Evaluations++
					sum.Distinct++
					mu.Unlock()
					continue
				}
				// (b) the runner
				inPath := filepath.Join(dir, "input")
				_ = os.WriteFile(inPath, []byte("hello"), 0o644)
				cliArgs := []string{"run", "-w", ws, "-s", r.Sel, "-i", inPath, "-t", "text", "--output-type", "json"}
				cmd := exec.Command(bin, cliArgs...)
				cmd.Dir = dir
				cmd.Env = append(os.Environ(), "TZ=UTC")
				outB, runErr := cmd.CombinedOutput()
				stdout := string(outB)
				more := map[string]any{"args": cliArgs}
				if len(stdout) > 1200 {
					more["cli_output"] = stdout[:1200]
				} else {
					more["cli_output"] = stdout
				}
				if runErr != nil {
					report("cli", "the command failed: "+runErr.Error(), more)
				} else if got, perr := parseCliOutput(stdout, "json"); perr != nil {
					report("cli", perr.Error(), more)
				} else {
					hasErr := strings.Contains(stdout, "ERROR")
					switch {
					case r.Kind != "printed" && got != nil:
						report("cli", "output was printed although the selection is "+r.Kind, more)
					case r.Kind != "printed" && !hasErr:
						report("cli", "no error was reported although the selection is "+r.Kind, more)
					case r.Kind == "printed" && got == nil:
						report("cli", "no output: the selected script loads (what it does not reach is no reason to refuse it)", more)
					case r.Kind == "printed":
						if g := markersOf(got.Fields); strings.Join(g, "|") != strings.Join(wantRan, "|") {
							more["ran"], more["want"] = g, wantRan
							report("cli", "the printed point does not carry the effects of exactly the selection and what it reaches", more)
						} else if got.Fields["message"] != "hello" || got.Meas != "default_name" {
							report("cli", "the printed point is not the input point plus the scripts' effects", more)
						}
					}
				}
				mu.Lock()
				sum.Evaluations += 2
				sum.Distinct++
				cliRuns++
				if len(sum.Samples) < 3 {
					sum.Samples = append(sum.Samples, map[string]any{"dir": names, "select": r.Sel, "model": r.Kind, "ran": r.Ran})
				}
				mu.Unlock()
				_ = os.RemoveAll(dir)
			}
		}()
	}
	for i := range rows {
		work <- i
	}
	close(work)
	wg.Wait()
	if firstErr != nil {
		return nil, firstErr
	}
	for i := range rows {
		_ = os.RemoveAll(filepath.Join(scratch, fmt.Sprintf("w%d", i)))
	}
	sum.Extra["cli_runs"] = cliRuns
	sum.Extra["library_runs"] = len(rows)
	return sum, nil
}
