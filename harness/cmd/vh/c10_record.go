package main

import (
	"encoding/json"
	"flag"
	"fmt"
	"math"
	"math/rand"
	"os"
	"sort"
	"strings"

	"github.com/GuanceCloud/platypus/pkg/inimpl/guancecloud/input"
)

func init() {
	register("record-point", recordPoint)
	register("record-point-kinds", recordPointKinds)
}

// specVal renders a Go point value in the spec's record shape (exact field sets, so TLC equality works).
func specVal(g any) map[string]any {
	switch x := g.(type) {
	case nil:
		return map[string]any{"k": "nil"}
	case int64:
		return map[string]any{"k": "int", "n": x}
	case float64:
		t := int64(x * 10)
		if float64(t)/10 != x {
			return map[string]any{"k": "float", "t": -999999, "raw": fmt.Sprint(x)}
		}
		return map[string]any{"k": "float", "t": t}
	case bool:
		return map[string]any{"k": "bool", "b": x}
	case string:
		return map[string]any{"k": "str", "s": x}
	}
	return map[string]any{"k": fmt.Sprintf("%T", g)}
}

func projPoint(pt *input.Point) map[string]any {
	meta, fields, tags := map[string]any{}, map[string]any{}, map[string]any{}
	for k, m := range pt.Meta {
		flag := "field"
		if m.PtFlag == input.PtTag {
			flag = "tag"
		}
		meta[k] = map[string]any{"dt": m.DType.String(), "flag": flag}
	}
	for k, v := range pt.Fields {
		fields[k] = specVal(v)
	}
	for k, v := range pt.Tags {
		tags[k] = v
	}
	return map[string]any{"meta": meta, "fields": fields, "tags": tags, "meas": pt.Measurement}
}

func opRec(o sop) map[string]any {
	v := map[string]any{"k": o.V.K}
	switch o.V.K {
	case "int":
		v["n"] = o.V.N
	case "float":
		v["t"] = o.V.T
	case "bool":
		v["b"] = o.V.B
	case "str":
		v["s"] = o.V.S
	}
	return map[string]any{"o": o.O, "k": o.K, "k2": o.K2, "v": v, "T": o.T}
}

// goKind: the kind of a Go value held in Point.Fields, as PointKinds knows kinds; anything a field must not hold is "other:<type>".
func goKind(v any) string {
	switch v.(type) {
	case nil:
		return "nil"
	case int64:
		return "int"
	case float64:
		return "float"
	case bool:
		return "bool"
	case string:
		return "str"
	}
	return fmt.Sprintf("other:%T", v)
}

// projPointKinds: the point projected to PointKinds' variables.
func projPointKinds(pt *input.Point) map[string]any {
	meta, fieldk := map[string]any{}, map[string]any{}
	tagged := []string{}
	for k, m := range pt.Meta {
		flag := "field"
		if m.PtFlag == input.PtTag {
			flag = "tag"
		}
		meta[k] = map[string]any{"dt": m.DType.String(), "flag": flag}
	}
	for k, v := range pt.Fields {
		fieldk[k] = goKind(v)
	}
	for k := range pt.Tags {
		tagged = append(tagged, k)
	}
	sort.Strings(tagged)
	return map[string]any{"meta": meta, "fieldk": fieldk, "tagged": tagged}
}

// extreme values: literal spelling in a script, kind, and (for initial fields) the Go value
type xval struct {
	lit  string
	kind string
	gv   any
}

var extremeVals = []xval{
	{"9223372036854775807", "int", int64(math.MaxInt64)}, {"(-9223372036854775807 - 1)", "int", int64(math.MinInt64)},
	{"9007199254740993", "int", int64(9007199254740993)}, {"0", "int", int64(0)}, {"-1", "int", int64(-1)},
	{"9223372036854775808.0", "float", float64(9223372036854775808.0)}, {"-9223372036854775808.0", "float", float64(-9223372036854775808.0)},
	{"1e300", "float", 1e300}, {"-1e300", "float", -1e300}, {"(1e308 * 10.0)", "float", math.Inf(1)}, {"(-1e308 * 10.0)", "float", math.Inf(-1)},
	{"((1e308 * 10.0) - (1e308 * 10.0))", "float", math.NaN()}, {"0.5", "float", 0.5}, {"1e-320", "float", 1e-320},
	{"true", "bool", true}, {"false", "bool", false}, {"nil", "nil", nil},
	{`"1e19"`, "str", "1e19"}, {`"-1e19"`, "str", "-1e19"}, {`"inf"`, "str", "inf"}, {`"-Inf"`, "str", "-Inf"}, {`"NaN"`, "str", "NaN"},
	{`"9223372036854775807"`, "str", "9223372036854775807"}, {`"9223372036854775808"`, "str", "9223372036854775808"},
	{`"-9223372036854775809"`, "str", "-9223372036854775809"}, {`"0x7fffffffffffffff"`, "str", "0x7fffffffffffffff"},
	{`"1_000"`, "str", "1_000"}, {`" 12 "`, "str", " 12 "}, {`"1.5e3"`, "str", "1.5e3"}, {`"TRUE"`, "str", "TRUE"}, {`"t"`, "str", "t"},
	{`""`, "str", ""}, {`"\u4e16\u754c\u00e9"`, "str", "\u4e16\u754c\u00e9"}, {`"\x00\xff"`, "str", "\x00\xff"},
	{`"` + strings.Repeat("9", 400) + `"`, "str", strings.Repeat("9", 400)}, {`"` + strings.Repeat("ab", 5000) + `"`, "str", strings.Repeat("ab", 5000)},
	{"[1, [2, [3, {\"a\": [nil, 1.5]}]]]", "list", nil}, {"[]", "list", nil}, {"{}", "map", nil}, {"{\"k\": 9223372036854775807}", "map", nil},
	{"some.attr", "void", nil}, {"[(1e308 * 10.0)]", "unconv", nil},
}

// record-point-kinds -seed S -n N -len L -keys K -out file: random builtin sequences over EXTREME values; after every call the point is
// projected to kinds (PointKinds): the trace is validated by TLC against TracePointKinds.
func recordPointKinds(args []string) (any, error) {
	fs := flag.NewFlagSet("record-point-kinds", flag.ContinueOnError)
	seed := fs.Int64("seed", 1, "")
	n := fs.Int("n", 20, "")
	ln := fs.Int("len", 100, "")
	nk := fs.Int("keys", 8, "")
	out := fs.String("out", "", "")
	if err := fs.Parse(args); err != nil {
		return nil, err
	}
	rng := rand.New(rand.NewSource(*seed))
	f, err := os.Create(*out)
	if err != nil {
		return nil, err
	}
	defer f.Close()
	enc := json.NewEncoder(f)
	keys := []string{"message"}
	for i := 1; i < *nk; i++ {
		keys = append(keys, fmt.Sprintf("k%d", i))
	}
	cache := newScriptCache()
	sum := &Summary{}
	events := 0
	rec0 := func(o, k, k2, vk, T string) map[string]any {
		return map[string]any{"o": o, "k": k, "k2": k2, "vk": vk, "T": T}
	}
	for t := 0; t < *n; t++ {
		tags := map[string]string{}
		fields := map[string]any{}
		for _, k := range keys[:*nk/2] {
			switch rng.Intn(3) {
			case 0:
				tags[k] = []string{"tv", "", "1e19", "9223372036854775807"}[rng.Intn(4)]
			case 1:
				for {
					x := extremeVals[rng.Intn(len(extremeVals))]
					if x.kind == "int" || x.kind == "float" || x.kind == "bool" || x.kind == "str" || x.kind == "nil" {
						fields[k] = x.gv
						break
					}
				}
			}
		}
		pt := input.GetPoint()
		input.InitPt(pt, "m0", tags, fields, fixedTime)
		_ = enc.Encode(map[string]any{"op": rec0("init", "", "", "nil", ""), "post": projPointKinds(pt)})
		for i := 0; i < *ln; i++ {
			k := keys[rng.Intn(len(keys))]
			k2 := keys[rng.Intn(len(keys))]
			for k2 == k {
				k2 = keys[rng.Intn(len(keys))]
			}
			sk, sk2 := spellKey(k), spellKey(k2)
			var op map[string]any
			var script string
			switch rng.Intn(12) {
			case 0, 1, 2, 3:
				x := extremeVals[rng.Intn(len(extremeVals))]
				op, script = rec0("add_key", k, "", x.kind, ""), fmt.Sprintf("add_key(%s, %s)", sk, x.lit)
			case 4:
				op, script = rec0("set_tag", k, "", "nil", ""), fmt.Sprintf("set_tag(%s)", sk)
			case 5:
				op, script = rec0("set_tag_from", k, k2, "nil", ""), fmt.Sprintf("set_tag(%s, %s)", sk, sk2)
			case 6:
				op, script = rec0("drop_key", k, "", "nil", ""), fmt.Sprintf("drop_key(%s)", sk)
			case 7:
				op, script = rec0("rename", k, k2, "nil", ""), fmt.Sprintf("rename(%s, %s)", sk, sk2)
			default:
				T := []string{"int", "float", "str", "bool"}[rng.Intn(4)]
				op, script = rec0("cast", k, "", "nil", T), fmt.Sprintf("cast(%s, %q)", sk, T)
			}
			sc, err := cache.load(script)
			if err != nil {
				return nil, fmt.Errorf("load %q: %v", script, err)
			}
			rec := map[string]any{"op": op, "script": script}
			if e := sc.Run(pt, nil); e != nil {
				rec["run_error"] = e.Error()
			}
			rec["post"] = projPointKinds(pt)
			_ = enc.Encode(rec)
			events++
		}
		input.PutPoint(pt)
		sum.Evaluations++
		sum.sample(map[string]any{"trace": t, "ops": *ln, "keys": *nk})
	}
	sum.Distinct = sum.Evaluations
	sum.Extra = map[string]any{"events": events}
	return sum, nil
}

// record-point -seed S -n N -len L -keys K -out file: long random builtin sequences on one point.
func recordPoint(args []string) (any, error) {
	fs := flag.NewFlagSet("record-point", flag.ContinueOnError)
	seed := fs.Int64("seed", 1, "")
	n := fs.Int("n", 20, "")
	ln := fs.Int("len", 100, "")
	nk := fs.Int("keys", 12, "")
	out := fs.String("out", "", "")
	if err := fs.Parse(args); err != nil {
		return nil, err
	}
	rng := rand.New(rand.NewSource(*seed))
	f, err := os.Create(*out)
	if err != nil {
		return nil, err
	}
	defer f.Close()
	enc := json.NewEncoder(f)
	keys := []string{}
	for i := 0; i < *nk; i++ {
		keys = append(keys, fmt.Sprintf("k%d", i))
	}
	vals := []sval{{K: "int", N: 7}, {K: "int", N: 0}, {K: "int", N: 12}, {K: "float", T: 15}, {K: "float", T: 0},
		{K: "bool", B: true}, {K: "bool", B: false}, {K: "str", S: "x"}, {K: "str", S: "12"}, {K: "str", S: ""},
		{K: "str", S: "true"}, {K: "str", S: "1.5"}, {K: "nil"}, {K: "list"}, {K: "map"}, {K: "void"}}
	cache := newScriptCache()
	sum := &Summary{}
	events := 0
	for t := 0; t < *n; t++ {
		tags := map[string]string{}
		fields := map[string]any{}
		for _, k := range keys[:*nk/2] {
			switch rng.Intn(4) {
			case 0:
				tags[k] = []string{"tv", "", "7"}[rng.Intn(3)]
			case 1:
				fields[k] = vals[rng.Intn(13)].goVal()
			}
		}
		pt := input.GetPoint()
		input.InitPt(pt, "m0", tags, fields, fixedTime)
		_ = enc.Encode(map[string]any{"op": opRec(sop{O: "init", V: sval{K: "nil"}}), "post": projPoint(pt)})
		for i := 0; i < *ln; i++ {
			k := keys[rng.Intn(len(keys))]
			k2 := keys[rng.Intn(len(keys))]
			for k2 == k {
				k2 = keys[rng.Intn(len(keys))]
			}
			o := sop{K: k, V: sval{K: "nil"}}
			switch rng.Intn(10) {
			case 0, 1, 2:
				o.O, o.V = "add_key", vals[rng.Intn(len(vals))]
			case 3:
				o.O, o.V = "set_tag_lit", sval{K: "str", S: "x"}
			case 4:
				o.O = "set_tag"
			case 5:
				o.O, o.K2 = "set_tag_from", k2
			case 6:
				o.O = "drop_key"
			case 7, 8:
				o.O, o.K2 = "rename", k2
			default:
				o.O = "cast"
				o.T = []string{"int", "float", "str", "bool"}[rng.Intn(4)]
				if o.T == "bool" {
					if v, _, err := pt.Get(k); err == nil {
						switch v.(type) {
						case int64, float64: // cast(number, "bool") belongs to C11, not to the index model
							o.T = "str"
						}
					}
				}
			}
			if rng.Intn(40) == 0 {
				o = sop{O: "set_measurement", K: k, V: sval{K: "nil"}}
			}
			if rng.Intn(25) == 0 {
				o = sop{O: "set_tag_unconv", K: k, V: sval{K: "nil"}, T: []string{"attr", "inflist"}[rng.Intn(2)]}
			}
			sc, err := cache.load(o.script())
			if err != nil {
				return nil, fmt.Errorf("load %q: %v", o.script(), err)
			}
			rec := map[string]any{"op": opRec(o)}
			if e := sc.Run(pt, nil); e != nil {
				rec["run_error"] = e.Error()
			}
			rec["post"] = projPoint(pt)
			_ = enc.Encode(rec)
			events++
		}
		input.PutPoint(pt)
		sum.Evaluations++
		sum.sample(map[string]any{"trace": t, "ops": *ln, "keys": *nk})
	}
	sum.Distinct = sum.Evaluations
	sum.Extra = map[string]any{"events": events}
	return sum, nil
}
