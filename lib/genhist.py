"""The operation pool for the History specification (C15): program sets, one per operation kind (History!Kinds)."""
from lib.gen import ps, STD_PT


def gen_ops():
    ops = []

    def add(kind, text, **kw):
        p = ps("h%d:%s" % (len(ops) + 1, kind), text, **kw)
        p["kind"] = kind
        ops.append(p)

    add("run_ok", 'x = 1\nfor v in [1, 2] { x = x + v }\nadd_key(r, x)\nset_tag(fs)\nprobe(x, fi, fs)', pt=STD_PT)
    add("parse_err_eof", "x = 1 +")
    add("parse_err_mid", "x = (1 + ] 2\ny = 3")
    add("lex_err", 'x = "abc\ny = 1')
    add("check_err", "x = 1\nnosuch(x)\nbreak")
    # fails inside nested loop bodies, after assigning top-level variables (one shadowing a point key)
    add("run_err_in_loops", 'lvl = "stale"\nfi = "shadow"\nl = [1]\nfor i = 0; i < 2; i = i + 1 {\nfor v in [1, 2] {\nif v == 2 { break }\nprobe(i, v)\n}\n'
        'if i == 1 { continue }\nw = 3\nq = l[5]\n}\nprobe(9)', pt=STD_PT)
    add("run_exit_in_loop", "ev = 1\nfs = 0\nfor v in [1, 2, 3] {\nif v == 2 { exit() }\nadd_key(k, v)\nprobe(v)\n}\nprobe(9)", pt=STD_PT)
    p = ps("h8:run_cancelled", "cv = 1\ntg = 0\nfor i = 0; i < 50; i = i + 1 {\nadd_key(c, i)\nprobe(i)\n}\nprobe(9)", pt=STD_PT)
    p["kind"] = "run_cancelled"
    p["fire_at"] = 7
    ops.append(p)
    add("run_use", 'probe(1)\nuse("b.p")\nprobe(x, kb)', pt=STD_PT, extra={"b.p": "x = 5\nadd_key(kb, x)\nif kb { exit() }\nprobe(8)"})
    add("run_err_after_return", "y = len(fs)\nz = get_key(fi) + nil\nprobe(y)", pt=STD_PT)
    add("run_rename_drop", "rename(nf, fi)\ndrop_key(fs)\nset_tag(nf)\nrename(t2, tg)\nadd_key(fs, 2.5)\ndrop_key(message)\nprobe(nf, fs, t2, fi)", pt=STD_PT)
    add("parse_rejected_operand", "x = -0x\ny = 1 / 0")
    add("run_v2", 'a, b = 1, "s"\nfor v in [a, 2] { probe(v, b) }\nprobe(one(a) + 1)', v2=True)
    # fails inside an if body / an elif condition, after assigning top-level variables
    add("run_err_in_if", 'z = 1\nmessage = "shadow"\nif z == 1 {\nzz = 2\nif true { q = 1 + nil }\n}\nprobe(9)', pt=STD_PT)
    add("run_err_in_cond", 'y1 = 1\nfb = 0\nfor ; y1 + nil; { }\nprobe(9)', pt=STD_PT)
    # variables named like keywords and functions (back-quoted): later scripts still use the words as keywords
    add("run_bq_keywords", '`in` = 1\n`true` = 2\n`nil` = 3\n`for` = `in` + `true`\n`len` = `for`\nprobe(`for`, `nil`, `len`)', pt=STD_PT)
    # literals are fresh every time: a map / list born from an empty literal and then written into, later empty literals observed
    add("run_emptymap_write", 'm = {}\nm[fs] = fi\nl = []\nadd_key(mm, m)\nprobe(m, l)', pt=STD_PT)
    add("run_emptymap_read", 'd = {}\nif d { probe(1) }\nfor k in {} { probe(k) }\nadd_key(dd, d)\nprobe(d, len(d), [], len([]), "sv" in {})', pt=STD_PT)
    # a value-less expression stored into an existing tag / field (index entries are recycled when the point is), then a script whose
    # outcome depends on the type of every key of its point
    add("run_void_into_keys", 'add_key(tg, a.b)\nadd_key(fi, a.b)\nset_tag(fs, a.b)\nprobe(tg, fi, fs)', pt=STD_PT)
    add("run_typed_fields", 'add_key(rx, fi + fi)\nadd_key(ry, ff + 1)\nadd_key(rz, fs + "s")\nif fb { add_key(rb, fb) }\nprobe(fi, ff, fs, fb, fn, tg)', pt=STD_PT)
    # a decoded literal is fresh on every evaluation and every run: its result is changed in place, the script is run again
    add("run_loadjson_mutate", 'a = load_json("[1,\\"a\\",null]")\nprobe(a)\na[0] = fi\na[2] = fs\nadd_key(lj, a)\nm = {"k": [0]}\nprobe(m)\nm["k"][0] = fi', pt=STD_PT)
    # a load rejected at an offender inside loop bodies, and a load that must be rejected for a stray break / continue
    add("check_err_in_loop", 'for i = 0; i < 3; i = i + 1 {\nfor v in [1] {\nnosuchfn(i)\n}\n}')
    add("check_err_stray_break", 'add_key(a, 1)\nif true {\nbreak\n}\nadd_key(b, 1)')
    # the same grok text under different local definitions of the alias it names, and with no definition at all
    add("run_grok_digits", 'add_pattern("hw", "\\\\d+")\nok = grok(fs, "%{hw:w}")\nprobe(ok, w)', pt={"meas": "m", "tags": {}, "fields": {"fs": "abc 123"}})
    add("run_grok_letters", 'add_pattern("hw", "[a-c]+")\nok = grok(fs, "%{hw:w}")\nprobe(ok, w)', pt={"meas": "m", "tags": {}, "fields": {"fs": "abc 123"}})
    add("check_err_grok", 'ok = grok(fs, "%{hw:w}")\nprobe(ok, w)', pt={"meas": "m", "tags": {}, "fields": {"fs": "abc 123"}})
    # sql_cover on subjects whose reading depends on how backslashes in string literals are treated
    add("run_sql_bs1", "sql_cover(fs)\nprobe(fs)", pt={"meas": "m", "tags": {}, "fields": {"fs": "SELECT * FROM files WHERE dir = 'C:\\tmp\\'"}})
    add("run_sql_bs2", "sql_cover(fs)\nprobe(fs)", pt={"meas": "m", "tags": {}, "fields": {"fs": "SELECT * FROM files WHERE dir = 'C:\\tmp\\' AND owner = 'bob' -- it's a comment"}})
    # the point's time: a script that sets it, and an input point whose time is the zero time (the host gave none) and whose script
    # leaves it alone - recycled point objects carry nothing over
    add("run_default_time", 'add_key(ts, "2021-03-04 05:06:07")\ndefault_time(ts)\nprobe(fi)', pt=STD_PT)
    add("run_zero_time", 'add_key(zt, 1)\nprobe(fi, zt)', pt=STD_PT)
    ops[-1]["pt_time"] = "zero"
    # a callee that fails at run time - at a call whose pattern cannot be compiled, and in an ordinary expression: the error a run
    # returns (message and chain of positions) is the same every time the loaded scripts are run
    add("run_use_badregex", 'probe(1)\nif true {\nuse("b.p")\n}', pt=STD_PT, extra={"b.p": 'probe(2)\nreplace(fs, "(", "X")\nprobe(3)'})
    add("run_use_callee_err", 'probe(1)\nuse("b.p")', pt=STD_PT, extra={"b.p": 'use("c.p")', "c.p": 'add_key(kq, 1 + nil)'})
    # a run that fails while a call is collecting its arguments (some already evaluated), and runs that format values afterwards
    add("run_err_in_call_args", 'l2 = [1]\nprintf("%v %v %v;", 7, "stale", l2[5])\nprobe(9)', pt=STD_PT)
    add("run_strfmt", 'strfmt(out, "%v-%v", fs, "y")\nprintf("%v|", fi)\nprobe(out)', pt=STD_PT)
    # two script sets whose main script has the SAME name and text but whose callee differs: what a loaded set does when run (again)
    # is fixed by that set, not by a set loaded later
    add("run_use_lib_a", 'probe(1)\nuse("lib.p")\nprobe(kl)', pt=STD_PT, extra={"lib.p": 'add_key(kl, "A")'})
    add("run_use_lib_b", 'probe(1)\nuse("lib.p")\nprobe(kl)', pt=STD_PT, extra={"lib.p": 'add_key(kl, "B")\nadd_key(extra, 1)'})
    # arguments that differ from an earlier run's only in letter case (a zone name that exists / one that does not as spelled; two
    # regular expressions): what a run does with its own argument does not depend on what an earlier run was given
    add("run_zone_name", 'add_key(ts, "2021-03-04 05:06:07")\ndefault_time(ts, "Asia/Tokyo")\nprobe(ts)', pt=STD_PT)
    add("run_zone_name_lower", 'add_key(ts, "2021-03-04 05:06:07")\ndefault_time(ts, "asia/tokyo")\nprobe(ts)', pt=STD_PT)
    add("run_replace_upper", 'replace(fs, "S+", "X")\nprobe(fs)', pt=STD_PT)
    add("run_replace_lower", 'replace(fs, "s+", "X")\nprobe(fs)', pt=STD_PT)
    # reads every name an earlier script assigned (they must all be the point's keys or nil here)
    add("run_ok", 'probe(r, x, k, c, kb, nf, t2, lvl, l, w, q, i, v, ev, cv, z, zz, y1)\nadd_key(r, "second")\nprobe(fi, fs, tg, fb, message, _)', pt=STD_PT)
    return ops
