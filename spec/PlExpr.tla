-------------------------------- MODULE PlExpr --------------------------------
(* Values, heap, operators, indexing, slicing and expression evaluation of  *)
(* the Platypus language (C01 C02 C04 C18), written from the reference      *)
(* manual (docs/src/references/01-syntax-spec.md) and the property texts.   *)
(*                                                                          *)
(* Values:  nil | bool | int (I64) | float (F64) | str (byte sequence) |    *)
(*          ref (location of a list or map on the heap) | void (no value)   *)
(* Lists and maps live on a heap and are shared by reference.               *)
(* Expression trees are records with a field k (node kind), exactly the     *)
(* JSON the harness produces from the real parser's tree (astconv).         *)
(* Eval threads a state record st = [sc, heap, pt, log, xt, pend, v2, wrap,  *)
(* pre, c] (c: the running script's context [prog, name, mo, v2]).          *)
EXTENDS Patterns

(* ------------------------------- values --------------------------------- *)
VNil == [t |-> "nil"]
VVoid == [t |-> "void"]
VBool(b) == [t |-> "bool", b |-> b]
VInt(i) == [t |-> "int", i |-> i]
VFloat(f) == [t |-> "float", f |-> f]
VStr(s) == [t |-> "str", s |-> s]
VRef(l) == [t |-> "ref", l |-> l]
VMulti(vs) == [t |-> "multi", vs |-> vs]
VSmall(n) == VInt(ISmall(n))

KindOf(h, v) == IF v.t = "ref" THEN h[v.l].t ELSE v.t     \* nil bool int float str list map void multi

HList(es) == [t |-> "list", e |-> es]
HMap(ks, vs) == [t |-> "map", ks |-> ks, vs |-> vs]      \* parallel sequences, keys distinct (insertion order kept)

MapFind(o, key) == LET S == {i \in 1..Len(o.ks) : o.ks[i] = key} IN IF S = {} THEN 0 ELSE CHOOSE i \in S : TRUE
MapPut(o, key, v) == LET i == MapFind(o, key)
                     IN IF i = 0 THEN HMap(Append(o.ks, key), Append(o.vs, v))
                        ELSE HMap(o.ks, [o.vs EXCEPT ![i] = v])

Truthy(h, v) ==
  CASE v.t = "bool" -> v.b
    [] v.t = "int" -> ~IIsZero(v.i)
    [] v.t = "float" -> ~FIsZero(v.f)
    [] v.t = "str" -> v.s # <<>>
    [] v.t = "ref" -> (IF h[v.l].t = "list" THEN h[v.l].e # <<>> ELSE h[v.l].ks # <<>>)
    [] OTHER -> FALSE

(* deep structural value (for logs, snapshots and comparisons), bounded by fuel against cycles *)
RECURSIVE Deep(_, _, _)
Deep(h, v, fuel) ==
  IF v.t # "ref" THEN v
  ELSE IF fuel = 0 THEN [t |-> "cycle"]
  ELSE IF h[v.l].t = "list"
         THEN [t |-> "list", e |-> [i \in 1..Len(h[v.l].e) |-> Deep(h, h[v.l].e[i], fuel - 1)]]
         ELSE [t |-> "map", ks |-> h[v.l].ks,
               vs |-> [i \in 1..Len(h[v.l].vs) |-> Deep(h, h[v.l].vs[i], fuel - 1)]]
DeepV(h, v) == Deep(h, v, 6)

\* reflect.DeepEqual on interpreter values: type-strict, floats by ==, maps as sets of pairs
RECURSIVE DeepEq(_, _)
DeepEq(a, b) ==
  IF a.t # b.t THEN FALSE
  ELSE CASE a.t = "int" -> ICmp(a.i, b.i) = 0
         [] a.t = "float" -> FCmp(a.f, b.f) = "eq"
         [] a.t = "list" -> /\ Len(a.e) = Len(b.e)
                            /\ \A i \in 1..Len(a.e) : DeepEq(a.e[i], b.e[i])
         [] a.t = "map" -> /\ Len(a.ks) = Len(b.ks)
                           /\ \A i \in 1..Len(a.ks) :
                                \E j \in 1..Len(b.ks) : b.ks[j] = a.ks[i] /\ DeepEq(a.vs[i], b.vs[j])
         [] OTHER -> a = b

(* ------------------------------ strings --------------------------------- *)
Contains(hay, nd) == \E i \in 1..(Len(hay) - Len(nd) + 1) : SubSeq(hay, i, i + Len(nd) - 1) = nd
StrIn(nd, hay) == nd = <<>> \/ Contains(hay, nd)
Cont(b) == b >= 128 /\ b <= 191
RuneLenAt(s, i) ==     \* length of the valid UTF-8 sequence starting at i, or 0 if invalid
  LET b == s[i] n == Len(s) IN
  IF b < 128 THEN 1
  ELSE IF b >= 194 /\ b <= 223 /\ i + 1 <= n /\ Cont(s[i + 1]) THEN 2
  ELSE IF b >= 224 /\ b <= 239 /\ i + 2 <= n /\ Cont(s[i + 1]) /\ Cont(s[i + 2])
          /\ (b = 224 => s[i + 1] >= 160) /\ (b = 237 => s[i + 1] <= 159) THEN 3
  ELSE IF b >= 240 /\ b <= 244 /\ i + 3 <= n /\ Cont(s[i + 1]) /\ Cont(s[i + 2]) /\ Cont(s[i + 3])
          /\ (b = 240 => s[i + 1] >= 144) /\ (b = 244 => s[i + 1] <= 143) THEN 4
  ELSE 0
RECURSIVE RunesFrom(_, _)
RunesFrom(s, i) == IF i > Len(s) THEN <<>>
                   ELSE LET n == RuneLenAt(s, i)
                        IN IF n = 0 THEN <<<<239, 191, 189>>>> \o RunesFrom(s, i + 1)
                           ELSE <<SubSeq(s, i, i + n - 1)>> \o RunesFrom(s, i + n)
Runes(s) == RunesFrom(s, 1)      \* what `for c in s` yields: one string per character


(* ------------------- string forms and string builtins ------------------- *)
\* decimal digits of a natural number (BigNat), most significant first, as bytes
RECURSIVE BnDecDigits(_)
BnDecDigits(a) == IF a = <<>> THEN <<>>
                  ELSE LET qr == BnDivModSmall(a, 10) IN BnDecDigits(qr[1]) \o <<48 + qr[2]>>
DecStr(i) == IF i.mag = <<>> THEN <<48>> ELSE (IF i.neg THEN <<45>> ELSE <<>>) \o BnDecDigits(i.mag)
RECURSIVE Pow5(_)
Pow5(n) == IF n = 0 THEN <<1>> ELSE BnMulSmall(Pow5(n - 1), 5)
RECURSIVE PadLeft(_, _)
PadLeft(s, n) == IF Len(s) >= n THEN s ELSE PadLeft(<<48>> \o s, n)
\* shortest decimal form of a double, defined for integral values below 2^53 and for dyadic fractions with
\* at most 4 binary places (their exact expansion is also the shortest one); otherwise unspecified
FloatStr(f) ==
  IF f.c # "fin" THEN [ok |-> FALSE, s |-> <<>>]
  ELSE IF f.man = <<>> THEN [ok |-> TRUE, s |-> (IF f.neg THEN <<45, 48>> ELSE <<48>>)]
  ELSE IF f.exp >= 0 /\ BnBitLen(f.man) + f.exp <= 53
    THEN [ok |-> TRUE, s |-> (IF f.neg THEN <<45>> ELSE <<>>) \o BnDecDigits(BnShl(f.man, f.exp))]
  ELSE IF f.exp < 0 /\ f.exp >= -4 /\ BnBitLen(f.man) <= 40
    THEN LET k == 0 - f.exp
             ds == PadLeft(BnDecDigits(BnMul(f.man, Pow5(k))), k + 1)
         IN [ok |-> TRUE, s |-> (IF f.neg THEN <<45>> ELSE <<>>) \o SubSeq(ds, 1, Len(ds) - k) \o <<46>> \o SubSeq(ds, Len(ds) - k + 1, Len(ds))]
  ELSE [ok |-> FALSE, s |-> <<>>]
TRUEs == <<116, 114, 117, 101>>
FALSEs == <<102, 97, 108, 115, 101>>
\* Conv2String: the string form builtins work on; lists and maps (JSON text) are left unspecified
ToStrV(v) ==
  CASE v.t = "str" -> [ok |-> TRUE, s |-> v.s]
    [] v.t = "int" -> [ok |-> TRUE, s |-> DecStr(v.i)]
    [] v.t = "bool" -> [ok |-> TRUE, s |-> IF v.b THEN TRUEs ELSE FALSEs]
    [] v.t \in {"nil", "void"} -> [ok |-> TRUE, s |-> <<>>]
    [] v.t = "float" -> FloatStr(v.f)
    [] OTHER -> [ok |-> FALSE, s |-> <<>>]

IsSpaceB(b) == b \in {32, 9, 10, 11, 12, 13}
RECURSIVE TrimL(_, _), TrimR(_, _)
TrimL(s, set) == IF s # <<>> /\ s[1] \in set THEN TrimL(Tail(s), set) ELSE s
TrimR(s, set) == IF s # <<>> /\ s[Len(s)] \in set THEN TrimR(SubSeq(s, 1, Len(s) - 1), set) ELSE s
TrimSet(s, set) == TrimR(TrimL(s, set), set)
SpaceSet == {32, 9, 10, 11, 12, 13}
\* strings.TrimSpace removes every Unicode white-space character (White_Space property), as UTF-8 byte sequences:
\* the ASCII ones, U+0085, U+00A0, U+1680, U+2000..U+200A, U+2028, U+2029, U+202F, U+205F, U+3000
SpaceSeqs == {<<b>> : b \in SpaceSet} \cup {<<194, 133>>, <<194, 160>>, <<225, 154, 128>>, <<226, 128, 168>>, <<226, 128, 169>>,
                                            <<226, 128, 175>>, <<226, 129, 159>>, <<227, 128, 128>>}
             \cup {<<226, 128, b>> : b \in 128..138}
HasPrefixQ(s, q) == Len(s) >= Len(q) /\ SubSeq(s, 1, Len(q)) = q
HasSuffixQ(s, q) == Len(s) >= Len(q) /\ SubSeq(s, Len(s) - Len(q) + 1, Len(s)) = q
RECURSIVE TrimLU(_), TrimRU(_)
TrimLU(s) == IF \E q \in SpaceSeqs : HasPrefixQ(s, q)
               THEN TrimLU(SubSeq(s, Len(CHOOSE q \in SpaceSeqs : HasPrefixQ(s, q)) + 1, Len(s))) ELSE s
TrimRU(s) == IF \E q \in SpaceSeqs : HasSuffixQ(s, q)
               THEN TrimRU(SubSeq(s, 1, Len(s) - Len(CHOOSE q \in SpaceSeqs : HasSuffixQ(s, q)))) ELSE s
TrimSpaceU(s) == TrimRU(TrimLU(s))
BytesOf(s) == {s[i] : i \in 1..Len(s)}
Upper(s) == [i \in 1..Len(s) |-> IF s[i] >= 97 /\ s[i] <= 122 THEN s[i] - 32 ELSE s[i]]
IsAscii(s) == \A i \in 1..Len(s) : s[i] < 128
HexV(b) == IF b >= 48 /\ b <= 57 THEN b - 48 ELSE IF b >= 97 /\ b <= 102 THEN b - 87 ELSE IF b >= 65 /\ b <= 70 THEN b - 55 ELSE -1
RECURSIVE UrlDec(_, _, _)
\* url.QueryUnescape: %XX and '+'; a malformed escape is an error
UrlDec(s, i, out) ==
  IF i > Len(s) THEN [ok |-> TRUE, s |-> out]
  ELSE IF s[i] = 43 THEN UrlDec(s, i + 1, Append(out, 32))
  ELSE IF s[i] # 37 THEN UrlDec(s, i + 1, Append(out, s[i]))
  ELSE IF i + 2 > Len(s) \/ HexV(s[i + 1]) < 0 \/ HexV(s[i + 2]) < 0 THEN [ok |-> FALSE, s |-> <<>>]
  ELSE UrlDec(s, i + 3, Append(out, 16 * HexV(s[i + 1]) + HexV(s[i + 2])))

JLess(a, b) == \E i \in 1..(IF Len(a) < Len(b) THEN Len(a) ELSE Len(b)) + 1 :
                 /\ \A j \in 1..(i - 1) : j <= Len(a) /\ j <= Len(b) /\ a[j] = b[j]
                 /\ \/ (i > Len(a) /\ i <= Len(b))
                    \/ (i <= Len(a) /\ i <= Len(b) /\ a[i] < b[i])
RECURSIVE JSortIdx(_, _)
JSortIdx(ks, S) == IF S = {} THEN <<>>
                   ELSE LET mn == CHOOSE a \in S : \A b \in S \ {a} : JLess(ks[a], ks[b]) IN <<mn>> \o JSortIdx(ks, S \ {mn})
\* fmt's %v of a list / map (Go []any / map[string]any): elements separated by one blank inside [ ], a map as map[k:v ...] with its keys in
\* ascending byte order, strings unquoted, nil as <nil>.  Floats inside collections and collections deeper than Deep's fuel are left open.
RECURSIVE FmtText(_), FmtSeq(_, _, _), FmtPairs(_, _, _, _)
FmtText(d) ==
  CASE d.t \in {"nil", "void"} -> [ok |-> TRUE, s |-> <<60, 110, 105, 108, 62>>]
    [] d.t = "bool" -> [ok |-> TRUE, s |-> IF d.b THEN TRUEs ELSE FALSEs]
    [] d.t = "int" -> [ok |-> TRUE, s |-> DecStr(d.i)]
    [] d.t = "str" -> [ok |-> TRUE, s |-> d.s]
    [] d.t = "list" -> (LET r == FmtSeq(d.e, 1, <<91>>) IN IF r.ok THEN [ok |-> TRUE, s |-> Append(r.s, 93)] ELSE r)
    [] d.t = "map" -> (LET r == FmtPairs(d.ks, d.vs, JSortIdx(d.ks, 1..Len(d.ks)), <<109, 97, 112, 91>>) IN IF r.ok THEN [ok |-> TRUE, s |-> Append(r.s, 93)] ELSE r)
    [] OTHER -> [ok |-> FALSE, s |-> <<>>]
FmtSeq(es, i, out) ==
  IF i > Len(es) THEN [ok |-> TRUE, s |-> out]
  ELSE LET r == FmtText(es[i]) IN
       IF ~r.ok THEN r ELSE FmtSeq(es, i + 1, (IF i > 1 THEN Append(out, 32) ELSE out) \o r.s)
FmtPairs(ks, vs, order, out) ==
  IF order = <<>> THEN [ok |-> TRUE, s |-> out]
  ELSE LET j == Head(order)
           r == FmtText(vs[j]) IN
       IF ~r.ok THEN r
       ELSE FmtPairs(ks, vs, Tail(order), (IF Len(out) > 4 THEN Append(out, 32) ELSE out) \o ks[j] \o <<58>> \o r.s)

\* fmt.Sprintf restricted to %s %d %v %% on strings, integers, booleans and nil (%v of nil is "<nil>")
VerbStr(verb, v) ==
  CASE verb = 115 /\ v.t = "str" -> [ok |-> TRUE, s |-> v.s]                          \* %s
    [] verb = 100 /\ v.t = "int" -> [ok |-> TRUE, s |-> DecStr(v.i)]                  \* %d
    [] verb = 118 /\ v.t \in {"str", "int", "bool"} -> ToStrV(v)                      \* %v
    [] verb = 118 /\ v.t \in {"nil", "void"} -> [ok |-> TRUE, s |-> <<60, 110, 105, 108, 62>>]
    [] verb = 118 /\ v.t = "float" -> FloatStr(v.f)
    [] verb = 118 /\ v.t \in {"list", "map"} -> FmtText(v)                           \* operands are deep values (DeepV)
    [] OTHER -> [ok |-> FALSE, s |-> <<>>]
RECURSIVE Sprintf(_, _, _, _, _)
Sprintf(f, i, args, a, out) ==
  IF i > Len(f) THEN [ok |-> a > Len(args), s |-> out]           \* surplus arguments are not modelled
  ELSE IF f[i] # 37 THEN Sprintf(f, i + 1, args, a, Append(out, f[i]))
  ELSE IF i + 1 > Len(f) THEN [ok |-> FALSE, s |-> out]
  ELSE IF f[i + 1] = 37 THEN Sprintf(f, i + 2, args, a, Append(out, 37))
  ELSE IF a > Len(args)           \* a verb without an operand is spelled out: %!d(MISSING)
    THEN (IF f[i + 1] \in {100, 115, 118, 102, 116, 113, 120} THEN Sprintf(f, i + 2, args, a, out \o <<37, 33, f[i + 1]>> \o <<40, 77, 73, 83, 83, 73, 78, 71, 41>>)
          ELSE [ok |-> FALSE, s |-> out])
  ELSE LET x == VerbStr(f[i + 1], args[a])
       IN IF ~x.ok THEN [ok |-> FALSE, s |-> out] ELSE Sprintf(f, i + 2, args, a + 1, out \o x.s)

\* catalogs: engines that are not modelled are represented by finite tables that are part of the specification;
\* the harness checks every entry against the engine itself (a wrong entry is a framework error, never a verdict)
\* JsonCatalog: in Catalogs (generated from spec/catalogs.json, verified against encoding/json by `vh catalog-check`)
JsonLookup(txt) == LET S == {i \in 1..Len(JsonCatalog) : JsonCatalog[i].t = txt}
                   IN IF S = {} THEN [known |-> FALSE] ELSE [known |-> TRUE, e |-> JsonCatalog[CHOOSE i \in S : TRUE]]
\* RegexCatalog: in Catalogs (generated from spec/catalogs.json, verified against Go's regexp by `vh catalog-check`)
RegexLookup(p, subj, r) == LET S == {i \in 1..Len(RegexCatalog) : RegexCatalog[i].p = p /\ RegexCatalog[i].s = subj /\ RegexCatalog[i].r = r}
                           IN IF S = {} THEN [known |-> FALSE] ELSE [known |-> TRUE, e |-> RegexCatalog[CHOOSE i \in S : TRUE]]
RegexBad(p) == \E i \in 1..Len(RegexCatalog) : RegexCatalog[i].p = p /\ ~RegexCatalog[i].ok

\* numeric reading of a string for cast: strconv.ParseFloat on the whole string (no trimming).  A plain decimal spelling
\* ([+-] digits [. digits] [e [+-] digits]) is its nearest double; a string containing any byte that no float spelling contains
\* (anything but digits + - . _ and the letters of e/x/p/inf/infinity/nan) and the empty string read as 0; the rest is unknown.
DigB(b) == b >= 48 /\ b <= 57
AllDigB(s) == \A i \in 1..Len(s) : DigB(s[i])
FirstOf(s, set) == LET S == {i \in 1..Len(s) : s[i] \in set} IN IF S = {} THEN 0 ELSE CHOOSE i \in S : \A j \in S : i <= j
RECURSIVE SmallDec(_, _, _)
SmallDec(s, i, acc) == IF i > Len(s) THEN acc ELSE SmallDec(s, i + 1, acc * 10 + (s[i] - 48))
PlainDec(s) ==
  LET sg == Len(s) >= 1 /\ s[1] \in {43, 45}
      body == IF sg THEN Tail(s) ELSE s
      ePos == FirstOf(body, {101, 69})
      mant == IF ePos = 0 THEN body ELSE SubSeq(body, 1, ePos - 1)
      expo == IF ePos = 0 THEN <<>> ELSE SubSeq(body, ePos + 1, Len(body))
      dot == FirstOf(mant, {46})
      ip == IF dot = 0 THEN mant ELSE SubSeq(mant, 1, dot - 1)
      fp == IF dot = 0 THEN <<>> ELSE SubSeq(mant, dot + 1, Len(mant))
      esg == expo # <<>> /\ expo[1] \in {43, 45}
      ed == IF esg THEN Tail(expo) ELSE expo
      ok == AllDigB(ip) /\ AllDigB(fp) /\ (ip # <<>> \/ fp # <<>>) /\ Len(ip) + Len(fp) <= 18
            /\ (ePos # 0 => (ed # <<>> /\ AllDigB(ed) /\ Len(ed) <= 2))
      ev == IF ePos = 0 \/ ~ok THEN 0 ELSE SmallDec(ed, 1, 0)
  IN [ok |-> ok, neg |-> sg /\ s[1] = 45, ds |-> [i \in 1..Len(ip \o fp) |-> (ip \o fp)[i] - 48],
      e10 |-> (IF esg /\ expo[1] = 45 THEN 0 - ev ELSE ev) - Len(fp)]
FloatAlphabet == (48..57) \cup {43, 45, 46, 95} \cup {101, 69, 120, 88, 112, 80, 105, 73, 110, 78, 102, 70, 116, 84, 121, 89, 97, 65}
\* (a hexadecimal float needs a p exponent: without one the text is no float spelling)
StrNotNumber(s) == \/ s = <<>> \/ (\E i \in 1..Len(s) : ~(s[i] \in FloatAlphabet)) \/ s \in {<<120>>, <<101>>, <<46>>, <<45>>, <<43>>}
                   \/ ((\E i \in 1..Len(s) : s[i] \in {120, 88}) /\ ~(\E i \in 1..Len(s) : s[i] \in {112, 80}))
StrNumKnown(s) == PlainDec(s).ok \/ StrNotNumber(s)
StrNum(s) == LET d == PlainDec(s) IN IF d.ok THEN FFromDecimal(d.neg, d.ds, d.e10) ELSE FZero(FALSE)
\* the timestamp a datetime() subject denotes: an integer, or text (what grok extracts) made of decimal digits without a leading zero,
\* possibly followed by a fraction of zeros only ("1638253518", "1638253518.000"); other texts are not specified here
TsOf(v) ==
  IF v.t = "int" THEN [ok |-> TRUE, i |-> v.i]
  ELSE IF v.t # "str" \/ v.s = <<>> THEN [ok |-> FALSE, i |-> IZero]
  ELSE LET dot == FirstOf(v.s, {46})
           ip == IF dot = 0 THEN v.s ELSE SubSeq(v.s, 1, dot - 1)
           fp == IF dot = 0 THEN <<>> ELSE SubSeq(v.s, dot + 1, Len(v.s))
       IN IF /\ ip # <<>> /\ (\A k \in 1..Len(ip) : ip[k] >= 48 /\ ip[k] <= 57) /\ (ip[1] # 48 \/ Len(ip) = 1)
             /\ Len(ip) <= 15 /\ (dot = 0 \/ (fp # <<>> /\ \A k \in 1..Len(fp) : fp[k] = 48))
            THEN [ok |-> TRUE, i |-> IMk(FALSE, BnFromDec([k \in 1..Len(ip) |-> ip[k] - 48]))]
          ELSE [ok |-> FALSE, i |-> IZero]
\* float -> int64 by truncation (only values below 2^53 are used)
FTrunc(f) == IF f.c # "fin" \/ f.man = <<>> THEN IZero
             ELSE IF f.exp >= 0 THEN IMk(f.neg, BnShl(f.man, f.exp)) ELSE IMk(f.neg, BnShr(f.man, 0 - f.exp))
ParseBoolTrue == {<<49>>, <<116>>, <<84>>, <<84, 82, 85, 69>>, <<116, 114, 117, 101>>, <<84, 114, 117, 101>>}
\* doCast: the documented conversion of a value to "bool" | "int" | "float" | "str" ("string" is an alias of "str")
CastV(v, T) ==
  LET num == CASE v.t = "int" -> FFromI64(v.i) [] v.t = "float" -> v.f [] v.t = "bool" -> FFromBool(v.b)
               [] v.t = "str" -> StrNum(v.s) [] OTHER -> FZero(FALSE)
  IN CASE T = "int" -> [ok |-> (v.t = "str" => StrNumKnown(v.s)), v |-> (IF v.t = "int" THEN v ELSE VInt(FTrunc(num)))]
       [] T = "float" -> [ok |-> (v.t = "str" => StrNumKnown(v.s)), v |-> VFloat(num)]
       [] T \in {"str", "string"} -> (LET x == ToStrV(v) IN [ok |-> x.ok, v |-> VStr(x.s)])
       [] T = "bool" -> [ok |-> TRUE, v |-> VBool(CASE v.t = "bool" -> v.b [] v.t = "int" -> ~IIsZero(v.i)
                                                    [] v.t = "float" -> ~FIsZero(v.f) [] v.t = "str" -> v.s \in ParseBoolTrue
                                                    [] OTHER -> FALSE)]
       [] OTHER -> [ok |-> FALSE, v |-> VNil]


(* ---------------------- catalog lookups (C12 engines) ------------------- *)
CatFind(cat, P(_)) == LET S == {i \in 1..Len(cat) : P(cat[i])} IN IF S = {} THEN [known |-> FALSE] ELSE [known |-> TRUE, e |-> cat[CHOOSE i \in S : TRUE]]
GrokLookup(p, env, subj, trim) == LET P(x) == x.p = p /\ x.env = env /\ x.s = subj /\ x.trim = trim IN CatFind(GrokCatalog, P)
TimeLookup(subj, tz) == LET P(x) == x.s = subj /\ x.tz = tz IN CatFind(TimeCatalog, P)
XmlLookup(doc, xp) == LET P(x) == x.doc = doc /\ x.xp = xp IN CatFind(XmlCatalog, P)
DatetimeLookup(v, prec, fmt) == LET P(x) == x.v = v /\ x.prec = prec /\ x.fmt = fmt IN CatFind(DatetimeCatalog, P)
SqlLookup(q) == LET P(x) == x.q = q IN CatFind(SqlCatalog, P)
PLMSG == "pl_msg"

(* ----------------------------- operators -------------------------------- *)
Ok(v) == [ok |-> TRUE, v |-> v]
Bad(c) == [ok |-> FALSE, v |-> VNil, cls |-> c]

IsNum(v) == v.t \in {"int", "float", "bool"}
AsI(v) == IF v.t = "bool" THEN ISmall(IF v.b THEN 1 ELSE 0) ELSE v.i
AsF(v) == IF v.t = "float" THEN v.f ELSE IF v.t = "bool" THEN FFromBool(v.b) ELSE FFromI64(v.i)

ArithOp(op, a, b) ==      \* a, b plain values (refs excluded by kind check)
  IF ~(a.t \in {"int", "float", "bool", "str"}) \/ ~(b.t \in {"int", "float", "bool", "str"}) THEN Bad("operand-type")
  ELSE IF a.t = "str" \/ b.t = "str"
    THEN (IF op = "+" /\ a.t = "str" /\ b.t = "str" THEN Ok(VStr(a.s \o b.s)) ELSE Bad("operand-type"))
  ELSE IF a.t = "float" \/ b.t = "float"
    THEN LET x == AsF(a) y == AsF(b) IN
         CASE op = "+" -> Ok(VFloat(FAdd(x, y))) [] op = "-" -> Ok(VFloat(FSub(x, y)))
           [] op = "*" -> Ok(VFloat(FMul(x, y)))
           [] op = "/" -> (IF FIsZero(y) THEN Bad("div-zero") ELSE Ok(VFloat(FDiv(x, y))))
           [] OTHER -> Bad("float-mod")
  ELSE LET x == AsI(a) y == AsI(b) IN
       CASE op = "+" -> Ok(VInt(IAdd(x, y))) [] op = "-" -> Ok(VInt(ISub(x, y)))
         [] op = "*" -> Ok(VInt(IMul(x, y)))
         [] op = "/" -> (IF IIsZero(y) THEN Bad("div-zero") ELSE Ok(VInt(IQuo(x, y))))
         [] op = "%" -> (IF IIsZero(y) THEN Bad("div-zero") ELSE Ok(VInt(IRem(x, y))))
         [] OTHER -> Bad("op")

NumEq(a, b) == IF a.t = "float" \/ b.t = "float" THEN FCmp(AsF(a), AsF(b)) = "eq"
               ELSE ICmp(AsI(a), AsI(b)) = 0
\* == : numeric exactly (after promotion when a float is present); unrelated kinds are never equal
EqOp(h, a, b) ==
  IF IsNum(a) THEN (IF IsNum(b) THEN NumEq(a, b) ELSE FALSE)
  ELSE IF a.t = "str" THEN (b.t = "str" /\ a.s = b.s)
  ELSE IF a.t = "nil" THEN b.t = "nil"
  ELSE DeepEq(DeepV(h, a), DeepV(h, b))

CmpOp(op, a, b) ==
  IF ~IsNum(a) \/ ~IsNum(b) THEN Bad("not-comparable")
  ELSE IF op \in {"&&", "||"}
    THEN (IF a.t = "bool" /\ b.t = "bool"
            THEN Ok(VBool(IF op = "&&" THEN a.b /\ b.b ELSE a.b \/ b.b)) ELSE Bad("operand-type"))
  ELSE IF a.t = "float" \/ b.t = "float"
    THEN LET c == FCmp(AsF(a), AsF(b)) IN
         Ok(VBool(CASE op = "<" -> c = "lt" [] op = "<=" -> c \in {"lt", "eq"}
                    [] op = ">" -> c = "gt" [] op = ">=" -> c \in {"gt", "eq"}))
  ELSE LET c == ICmp(AsI(a), AsI(b)) IN
       Ok(VBool(CASE op = "<" -> c < 0 [] op = "<=" -> c <= 0 [] op = ">" -> c > 0 [] op = ">=" -> c >= 0))

CondOp(h, op, a, b) ==
  CASE op = "==" -> Ok(VBool(EqOp(h, a, b)))
    [] op = "!=" -> Ok(VBool(~EqOp(h, a, b)))
    [] OTHER -> CmpOp(op, a, b)

InOp(h, a, b) ==
  LET kb == KindOf(h, b) IN
  CASE kb = "str" -> (IF a.t = "str" THEN Ok(VBool(StrIn(a.s, b.s))) ELSE Bad("operand-type"))
    [] kb = "map" -> (IF a.t = "str" THEN Ok(VBool(MapFind(h[b.l], a.s) # 0)) ELSE Bad("operand-type"))
    [] kb = "list" -> Ok(VBool(\E i \in 1..Len(h[b.l].e) : DeepEq(DeepV(h, a), DeepV(h, h[b.l].e[i]))))
    [] OTHER -> Bad("operand-type")

UnOp(op, a, v2) ==
  IF op = "!" THEN
    CASE a.t \in {"nil", "void"} -> Ok(VBool(TRUE))
      [] a.t = "bool" -> Ok(VBool(~a.b))
      [] a.t = "int" -> Ok(VBool(IIsZero(a.i)))
      [] a.t = "float" -> Ok(VBool(FIsZero(a.f)))
      [] a.t = "str" -> Ok(VBool(a.s = <<>>))
      [] OTHER -> Bad("operand-type")          \* refs are handled by the caller (needs the heap)
  ELSE
    CASE a.t = "bool" -> Ok(VSmall(IF a.b THEN (IF op = "-" THEN -1 ELSE 1) ELSE 0))
      [] a.t = "int" -> Ok(VInt(IF op = "-" THEN INeg(a.i) ELSE a.i))
      [] a.t = "float" -> Ok(VFloat(IF op = "-" THEN FNeg(a.f) ELSE a.f))
      [] OTHER -> Bad("operand-type")

(* ------------------------------ slicing --------------------------------- *)
\* position of an integer bound relative to a sequence of length n: a native number in -1..n
\* (below / inside / at-or-above), after counting a negative bound from the end
BoundPos(x, n) ==
  IF x.neg THEN (IF ~IFits(x) \/ BnToInt(x.mag) > n THEN -1 ELSE n - BnToInt(x.mag))
  ELSE (IF ~IFits(x) \/ BnToInt(x.mag) >= n THEN n ELSE BnToInt(x.mag))
StepSmall(st, n) == IF IFits(st) /\ BnToInt(st.mag) <= n THEN IToInt(st)
                    ELSE IF st.neg THEN 0 - (n + 1) ELSE n + 1
RECURSIVE Walk(_, _, _)
Walk(i, e, st) == IF (st > 0 /\ i < e) \/ (st < 0 /\ i > e) THEN <<i>> \o Walk(i + st, e, st) ELSE <<>>
\* Python slice semantics: 0-based indices selected from a sequence of length n.
\* hs/he/hst: bound present; s, e, st: I64 (st # 0)
PySlice(n, hs, s, he, e, hst, st) ==
  LET stp == IF hst THEN StepSmall(st, n) ELSE 1
      fwd == stp > 0
      ps == IF ~hs THEN (IF fwd THEN 0 ELSE n - 1)
            ELSE LET p == BoundPos(s, n) IN IF fwd THEN (IF p < 0 THEN 0 ELSE p) ELSE (IF p >= n THEN n - 1 ELSE p)
      pe == IF ~he THEN (IF fwd THEN n ELSE -1)
            ELSE LET p == BoundPos(e, n) IN IF fwd THEN (IF p < 0 THEN 0 ELSE p) ELSE (IF p >= n THEN n - 1 ELSE p)
  IN Walk(ps, pe, stp)

(* ------------------------------- state ---------------------------------- *)
\* scopes: sequence (innermost last) of [ns |-> names seq, vs |-> values seq]
EmptyScope == [ns |-> <<>>, vs |-> <<>>]
ScFind(s, n) == LET S == {i \in 1..Len(s.ns) : s.ns[i] = n} IN IF S = {} THEN 0 ELSE CHOOSE i \in S : TRUE
RECURSIVE LookupFrom(_, _, _)
LookupFrom(sc, n, i) == IF i = 0 THEN [found |-> FALSE, v |-> VNil]
                        ELSE LET j == ScFind(sc[i], n)
                             IN IF j # 0 THEN [found |-> TRUE, v |-> sc[i].vs[j]] ELSE LookupFrom(sc, n, i - 1)
Lookup(sc, n) == LookupFrom(sc, n, Len(sc))
RECURSIVE SetFrom(_, _, _, _)
SetFrom(sc, n, v, i) ==      \* update the nearest enclosing definition, else define in the innermost scope
  IF i = 0 THEN [sc EXCEPT ![Len(sc)] = [ns |-> Append(@.ns, n), vs |-> Append(@.vs, v)]]
  ELSE LET j == ScFind(sc[i], n)
       IN IF j # 0 THEN [sc EXCEPT ![i].vs[j] = v] ELSE SetFrom(sc, n, v, i - 1)
SetVar(sc, n, v) == SetFrom(sc, n, v, Len(sc))

Alias(n) == IF n = "_" THEN "message" ELSE n

\* point: [meas, ks (key names), es (entries [flag, v])]
(* The text a list / map has once it is stored in the point (a field or tag keeps collections as JSON text): no blanks, map keys *)
(* in ascending byte order, strings quoted with the escapes \" \\ \n \r \t and \u003c \u003e \u0026 for < > &.  Defined for   *)
(* ASCII strings without other control characters and for floats FloatStr covers (below 1e21); otherwise not defined here.   *)
JHex == <<48, 49, 50, 51, 52, 53, 54, 55, 56, 57, 97, 98, 99, 100, 101, 102>>
RECURSIVE JStrBody(_, _, _)
JStrBody(s, i, out) ==
  IF i > Len(s) THEN [ok |-> TRUE, s |-> out]
  ELSE LET b == s[i] IN
       IF b = 34 \/ b = 92 THEN JStrBody(s, i + 1, out \o <<92, b>>)
       ELSE IF b = 10 THEN JStrBody(s, i + 1, out \o <<92, 110>>)
       ELSE IF b = 13 THEN JStrBody(s, i + 1, out \o <<92, 114>>)
       ELSE IF b = 9 THEN JStrBody(s, i + 1, out \o <<92, 116>>)
       ELSE IF b \in {60, 62, 38} THEN JStrBody(s, i + 1, out \o <<92, 117, 48, 48, JHex[(b \div 16) + 1], JHex[(b % 16) + 1]>>)
       ELSE IF b < 32 \/ b >= 127 THEN [ok |-> FALSE, s |-> <<>>]
       ELSE JStrBody(s, i + 1, Append(out, b))
JStr(s) == LET r == JStrBody(s, 1, <<34>>) IN IF r.ok THEN [ok |-> TRUE, s |-> Append(r.s, 34)] ELSE r
RECURSIVE JsonText(_), JsonSeq(_, _, _), JsonPairs(_, _, _, _)
JsonText(d) ==
  CASE d.t \in {"nil", "void"} -> [ok |-> TRUE, s |-> <<110, 117, 108, 108>>]
    [] d.t = "bool" -> [ok |-> TRUE, s |-> IF d.b THEN TRUEs ELSE FALSEs]
    [] d.t = "int" -> [ok |-> TRUE, s |-> DecStr(d.i)]
    [] d.t = "float" -> FloatStr(d.f)
    [] d.t = "str" -> JStr(d.s)
    [] d.t = "list" -> (LET r == JsonSeq(d.e, 1, <<91>>) IN IF r.ok THEN [ok |-> TRUE, s |-> Append(r.s, 93)] ELSE r)
    [] d.t = "map" -> (LET r == JsonPairs(d.ks, d.vs, JSortIdx(d.ks, 1..Len(d.ks)), <<123>>) IN IF r.ok THEN [ok |-> TRUE, s |-> Append(r.s, 125)] ELSE r)
    [] OTHER -> [ok |-> FALSE, s |-> <<>>]
JsonSeq(es, i, out) ==
  IF i > Len(es) THEN [ok |-> TRUE, s |-> out]
  ELSE LET r == JsonText(es[i]) IN
       IF ~r.ok THEN r ELSE JsonSeq(es, i + 1, (IF i > 1 THEN Append(out, 44) ELSE out) \o r.s)
JsonPairs(ks, vs, order, out) ==
  IF order = <<>> THEN [ok |-> TRUE, s |-> out]
  ELSE LET k == JStr(ks[order[1]])
           r == JsonText(vs[order[1]]) IN
       IF ~k.ok THEN k ELSE IF ~r.ok THEN r
       ELSE JsonPairs(ks, vs, Tail(order), (IF Len(out) > 1 THEN Append(out, 44) ELSE out) \o k.s \o <<58>> \o r.s)
\* what reading a stored value gives: a collection reads as its JSON text (where defined above)
Readable(v) == IF v.t = "json" THEN (LET j == JsonText(v.d) IN IF j.ok THEN [t |-> "str", s |-> j.s] ELSE v)
               ELSE IF v.t = "tagstr" /\ v.of.t = "json" THEN (LET j == JsonText(v.of.d) IN IF j.ok THEN [t |-> "str", s |-> j.s] ELSE v)
               ELSE v

PtFind(pt, k) == LET S == {i \in 1..Len(pt.ks) : pt.ks[i] = k} IN IF S = {} THEN 0 ELSE CHOOSE i \in S : TRUE
\* a tag whose value was replaced by "no value" (add_key(tag, <value-less expression>)) is gone from the output point and reads as
\* nil, but the key is still known as a tag: a later write makes it a tag again.  Such an entry holds the marker NoTag.
NoTag == [t |-> "notag"]
PtGet(pt, k) == LET i == PtFind(pt, k) IN IF i = 0 THEN [found |-> FALSE, v |-> VNil]
                                          ELSE [found |-> TRUE, v |-> IF pt.es[i].v = NoTag THEN VNil ELSE Readable(pt.es[i].v)]
PtDel(pt, k) == LET i == PtFind(pt, k)
                IN IF i = 0 THEN pt
                   ELSE [pt EXCEPT !.ks = SubSeq(@, 1, i - 1) \o SubSeq(@, i + 1, Len(@)),
                                   !.es = SubSeq(@, 1, i - 1) \o SubSeq(@, i + 1, Len(@))]
\* Point.Set with an already stored-form value sv (lists/maps are stored as a snapshot marker [t |-> "json", d |-> deep])
VoidStored == [t |-> "voidstored"]          \* stored form of "no value"
UnVoid(sv) == IF sv = VoidStored THEN VNil ELSE sv
PtSetField(pt, k, sv) ==
  LET i == PtFind(pt, k)
  IN IF i = 0 THEN [pt EXCEPT !.ks = Append(@, k), !.es = Append(@, [flag |-> "field", v |-> UnVoid(sv)])]
     ELSE IF pt.es[i].flag = "field" THEN [pt EXCEPT !.es[i].v = UnVoid(sv)]
     ELSE IF sv = VoidStored THEN [pt EXCEPT !.es[i].v = NoTag]
     ELSE LET x == IF sv.t = "json" THEN [ok |-> FALSE, s |-> <<>>] ELSE ToStrV(sv)     \* a tag keeps being a tag
          IN [pt EXCEPT !.es[i].v = IF x.ok THEN VStr(x.s) ELSE [t |-> "tagstr", of |-> sv]]
\* Point.SetTag: create the key as a tag or move it to the tags, with the value's string form
PtSetTag(pt, k, sv0) ==
  LET sv == UnVoid(sv0)                   \* no value has the empty string form
      x == IF sv.t = "json" THEN [ok |-> FALSE, s |-> <<>>] ELSE ToStrV(sv)
      tv == IF x.ok THEN VStr(x.s) ELSE [t |-> "tagstr", of |-> sv]
      i == PtFind(pt, k)
  IN IF i = 0 THEN [pt EXCEPT !.ks = Append(@, k), !.es = Append(@, [flag |-> "tag", v |-> tv])]
     ELSE [pt EXCEPT !.es[i] = [flag |-> "tag", v |-> tv]]
\* rename(to, from): the key moves with its kind and value; an existing destination is replaced
PtRename(pt, to, from) ==
  LET i == PtFind(pt, from)
  IN IF to = from \/ i = 0 THEN pt
     ELSE LET e == pt.es[i]
              p1 == PtDel(PtDel(pt, from), to)
          IN [p1 EXCEPT !.ks = Append(@, to), !.es = Append(@, e)]
StoredForm(h, v) == IF v.t = "ref" THEN [t |-> "json", d |-> DeepV(h, v)]
                    ELSE IF v.t = "void" THEN VoidStored ELSE v

\* read a name: innermost variable, else point key (v1 only), else nil / error (v2)
ReadName(st, n0) ==
  LET n == IF st.v2 THEN n0 ELSE Alias(n0)
      l == Lookup(st.sc, n)
  IN IF l.found THEN Ok(l.v)
     ELSE IF st.v2 THEN Bad("undefined")
     ELSE LET p == PtGet(st.pt, n)
          IN IF ~p.found THEN Ok(VNil)
             ELSE IF p.v.t \in {"json", "tagstr"} THEN Bad("unspec-read")   \* a collection whose JSON text JsonText does not define
             ELSE Ok(p.v)
\* GetKey as the builtins use it: variable, else point, else not found
GetKey(st, n0) ==
  LET n == Alias(n0)
      l == Lookup(st.sc, n)
  IN IF l.found THEN l ELSE PtGet(st.pt, n)
\* the subject of the builtins that read their key as text (trim, uppercase, url_decode, replace, grok, xml, sql_cover, default_time):
\* a variable holding "no value" is no subject - the builtin does what it does for an absent key
Subj(st, n0) == LET g == GetKey(st, n0) IN IF g.found /\ g.v.t = "void" THEN [found |-> FALSE, v |-> VNil] ELSE g

R(st, v) == [st |-> st, ok |-> TRUE, v |-> v, cls |-> ""]
E(st, c) == [st |-> st, ok |-> FALSE, v |-> VNil, cls |-> c]
Lift(st, r) == IF r.ok THEN R(st, r.v) ELSE E(st, r.cls)

\* allocate a deep value (catalog result) on the heap
RECURSIVE FromDeep(_, _), FromDeepSeq(_, _, _, _)
FromDeepSeq(ds, i, st, acc) == IF i > Len(ds) THEN [st |-> st, vs |-> acc]
                               ELSE LET r == FromDeep(ds[i], st) IN FromDeepSeq(ds, i + 1, r.st, Append(acc, r.v))
FromDeep(d, st) ==
  IF d.t = "list" THEN LET r == FromDeepSeq(d.e, 1, st, <<>>)
                       IN [st |-> [r.st EXCEPT !.heap = Append(@, HList(r.vs))], v |-> VRef(Len(r.st.heap) + 1)]
  ELSE IF d.t = "map" THEN LET r == FromDeepSeq(d.vs, 1, st, <<>>)
                           IN [st |-> [r.st EXCEPT !.heap = Append(@, HMap(d.ks, r.vs))], v |-> VRef(Len(r.st.heap) + 1)]
  ELSE [st |-> st, v |-> d]

Alloc(st, obj) == [st |-> [st EXCEPT !.heap = Append(@, obj)], l |-> Len(st.heap) + 1]

\* a value used as an operand / element / condition: in v2 "no value" and multi-values are errors
\* use("name") written as a statement of its own is run by the statement level (PlRef: by recursion; PlMachine: as a task of its
\* own, with its own frames and polls).  A use call in any other position - a condition, a loop clause, an operand, an element, an
\* argument - runs the callee then and there, to completion, on the same point and heap with fresh variables, and yields "no
\* value"; a callee's error becomes the expression's error, its chain (st.pre) followed by the use site and the sites of the calls
\* in progress.  InlineFuel bounds the statements of such a callee (beyond it the model does not say: unspec-diverge).
InlineFuel == 400
DirectUse(s) == s.k = "call" /\ s.f = "use"
Use1(st, r) == IF ~r.ok THEN r
               ELSE IF st.v2 /\ r.v.t = "void" THEN E(r.st, "no-value")
               ELSE IF r.v.t = "multi" THEN E(r.st, "multi-value")
               ELSE r

KeyNameOf(e) == CASE e.k = "id" -> [ok |-> TRUE, n |-> e.n]
                  [] e.k = "str" -> [ok |-> TRUE, n |-> e.name]     \* astconv adds the ASCII text of string literals
                  [] e.k = "attr" -> [ok |-> TRUE, n |-> e.text]
                  [] OTHER -> [ok |-> FALSE, n |-> ""]

(* ------------------------------ evaluation ------------------------------ *)
RECURSIVE Eval(_, _), EvalSeq(_, _, _, _), EvalIdxGet(_, _, _, _), EvalIdxSet(_, _, _, _, _), EvalCall(_, _),
          EvalAssign(_, _), EvalSlice(_, _), EvalMapLit(_, _, _, _, _),
          ExecList(_, _, _, _, _), ExecStmt(_, _, _, _), ForLoop(_, _, _, _), ForInLoop(_, _, _, _, _, _, _), PickBranch(_, _, _, _, _)

\* evaluate es[i..] left to right; acc collects values; stops at the first error
EvalSeq(es, i, st, acc) ==
  IF i > Len(es) THEN [st |-> st, ok |-> TRUE, vs |-> acc, cls |-> ""]
  ELSE LET r == Use1(st, Eval(es[i], st))
       IN IF ~r.ok THEN [st |-> r.st, ok |-> FALSE, vs |-> acc, cls |-> r.cls]
          ELSE EvalSeq(es, i + 1, r.st, Append(acc, r.v))

Eval(e, st) ==
  CASE e.k = "nil" -> R(st, VNil)
    [] e.k = "bool" -> R(st, VBool(e.b))
    [] e.k = "int" -> R(st, VInt(e.i))
    [] e.k = "float" -> R(st, VFloat(e.f))
    [] e.k = "str" -> R(st, VStr(e.s))
    [] e.k = "id" -> Lift(st, ReadName(st, e.n))
    [] e.k = "paren" -> Eval(e.e, st)
    [] e.k = "attr" -> R(st, VVoid)
    [] e.k = "list" ->
         LET r == EvalSeq(e.es, 1, st, <<>>)
         IN IF ~r.ok THEN E(r.st, r.cls)
            ELSE LET a == Alloc(r.st, HList([i \in 1..Len(r.vs) |-> IF r.vs[i].t = "void" THEN VNil ELSE r.vs[i]]))
                 IN R(a.st, VRef(a.l))
    [] e.k = "map" -> EvalMapLit(e, 1, st, <<>>, <<>>)
    [] e.k = "un" ->
         LET r == Use1(st, Eval(e.e, st))
         IN IF ~r.ok THEN r
            ELSE IF e.op = "!" /\ r.v.t = "ref"
                   THEN R(r.st, VBool(~Truthy(r.st.heap, r.v)))
            ELSE Lift(r.st, UnOp(e.op, r.v, st.v2))
    [] e.k = "bin" ->
         LET a == Use1(st, Eval(e.l, st)) IN
         IF ~a.ok THEN a
         ELSE IF e.op = "||" /\ a.v.t = "bool" /\ a.v.b THEN R(a.st, VBool(TRUE))
         ELSE IF e.op = "&&" /\ a.v.t = "bool" /\ ~a.v.b THEN R(a.st, VBool(FALSE))
         ELSE LET b == Use1(a.st, Eval(e.r, a.st)) IN
              IF ~b.ok THEN b
              ELSE IF e.op \in {"+", "-", "*", "/", "%"}
                     THEN (IF a.v.t = "ref" \/ b.v.t = "ref" THEN E(b.st, "operand-type")
                           ELSE Lift(b.st, ArithOp(e.op, a.v, b.v)))
              ELSE IF e.op = "in" THEN Lift(b.st, InOp(b.st.heap, a.v, b.v))
              ELSE Lift(b.st, CondOp(b.st.heap, e.op, a.v, b.v))
    [] e.k = "idx" ->
         IF ~e.ho THEN E(st, "no-object")
         ELSE LET o == IF st.v2 THEN (LET l == Lookup(st.sc, e.n) IN l) ELSE GetKey(st, e.n)
              IN IF ~o.found THEN E(st, "undefined")
                 ELSE IF o.v.t # "ref" THEN E(st, "unindexable")
                 ELSE EvalIdxGet(e.is, 1, st, o.v)
    [] e.k = "slice" -> EvalSlice(e, st)
    [] e.k = "assign" -> EvalAssign(e, st)
    [] e.k = "call" -> EvalCall(e, st)
    [] OTHER -> E(st, "unsupported-node")

EvalMapLit(e, i, st, ks, vs) ==
  IF i > Len(e.ks)
    THEN LET a == Alloc(st, HMap(ks, vs)) IN R(a.st, VRef(a.l))
  ELSE LET k == Use1(st, Eval(e.ks[i], st)) IN
       IF ~k.ok THEN k
       ELSE IF k.v.t # "str" THEN E(k.st, "map-key")
       ELSE LET v == Use1(k.st, Eval(e.vs[i], k.st)) IN
            IF ~v.ok THEN v
            ELSE IF v.v.t = "void" THEN E(v.st, "map-value")
            ELSE LET o == MapPut(HMap(ks, vs), k.v.s, v.v)
                 IN EvalMapLit(e, i + 1, v.st, o.ks, o.vs)

\* walk cur (a value) along index expressions is[i..]; a missing map key reads nil at once
EvalIdxGet(is, i, st, cur) ==
  IF i > Len(is) THEN R(st, cur)
  ELSE LET k == Use1(st, Eval(is[i], st)) IN
       IF ~k.ok THEN k
       ELSE IF cur.t # "ref" THEN E(k.st, "not-indexable")
       ELSE LET o == k.st.heap[cur.l] IN
            IF o.t = "map"
              THEN (IF k.v.t # "str" THEN E(k.st, "key-type")
                    ELSE LET j == MapFind(o, k.v.s)
                         IN IF j = 0 THEN R(k.st, VNil) ELSE EvalIdxGet(is, i + 1, k.st, o.vs[j]))
              ELSE (IF k.v.t # "int" THEN E(k.st, "key-type")
                    ELSE LET n == Len(o.e)
                             p == BoundPos(k.v.i, n)
                         IN IF p < 0 \/ p >= n THEN E(k.st, "index-range")
                            ELSE EvalIdxGet(is, i + 1, k.st, o.e[p + 1]))

\* write val at the end of the index path starting from cur
EvalIdxSet(is, i, st, cur, val) ==
  LET k == Use1(st, Eval(is[i], st)) IN
  IF ~k.ok THEN k
  ELSE IF cur.t # "ref" THEN E(k.st, "not-indexable")
  ELSE LET o == k.st.heap[cur.l]
           last == i = Len(is) IN
       IF o.t = "map"
         THEN (IF k.v.t # "str" THEN E(k.st, "key-type")
               ELSE IF last THEN R([k.st EXCEPT !.heap[cur.l] = MapPut(o, k.v.s, val)], val)
               ELSE LET j == MapFind(o, k.v.s)
                    IN IF j = 0 THEN E(k.st, "key-missing") ELSE EvalIdxSet(is, i + 1, k.st, o.vs[j], val))
         ELSE (IF k.v.t # "int" THEN E(k.st, "key-type")
               ELSE LET n == Len(o.e)
                        p == BoundPos(k.v.i, n)
                    IN IF p < 0 \/ p >= n THEN E(k.st, "index-range")
                       ELSE IF last THEN R([k.st EXCEPT !.heap[cur.l].e[p + 1] = val], val)
                       ELSE EvalIdxSet(is, i + 1, k.st, o.e[p + 1], val))

NoneNode(x) == x.k = "none"
EvalSlice(e, st) ==
  LET o == Use1(st, Eval(e.o, st)) IN
  IF ~o.ok THEN o ELSE
  LET s == IF NoneNode(e.s) THEN R(o.st, VNil) ELSE Use1(o.st, Eval(e.s, o.st)) IN
  IF ~s.ok THEN s ELSE
  LET en == IF NoneNode(e.e) THEN R(s.st, VNil) ELSE Use1(s.st, Eval(e.e, s.st)) IN
  IF ~en.ok THEN en ELSE
  LET sp == IF NoneNode(e.st) THEN R(en.st, VNil) ELSE Use1(en.st, Eval(e.st, en.st)) IN
  IF ~sp.ok THEN sp ELSE
  LET h == sp.st.heap
      ko == KindOf(h, o.v)
      hs == ~NoneNode(e.s) hen == ~NoneNode(e.e) hst == ~NoneNode(e.st) IN
  IF ~(ko \in {"str", "list"}) THEN E(sp.st, "slice-object")
  ELSE IF hst /\ sp.v.t # "int" THEN E(sp.st, "slice-type")
  ELSE IF hst /\ IIsZero(sp.v.i) THEN E(sp.st, "slice-step-zero")
  ELSE IF hs /\ s.v.t # "int" THEN E(sp.st, "slice-type")
  ELSE IF hen /\ en.v.t # "int" THEN E(sp.st, "slice-type")
  ELSE LET n == IF ko = "str" THEN Len(o.v.s) ELSE Len(h[o.v.l].e)
           ix == PySlice(n, hs, IF hs THEN s.v.i ELSE IZero, hen, IF hen THEN en.v.i ELSE IZero,
                         hst, IF hst THEN sp.v.i ELSE IZero)
       IN IF ko = "str" THEN R(sp.st, VStr([j \in 1..Len(ix) |-> o.v.s[ix[j] + 1]]))
          ELSE LET a == Alloc(sp.st, HList([j \in 1..Len(ix) |-> h[o.v.l].e[ix[j] + 1]]))
               IN R(a.st, VRef(a.l))

ArithAssignOp(op) == CASE op = "+=" -> "+" [] op = "-=" -> "-" [] op = "*=" -> "*" [] op = "/=" -> "/" [] op = "%=" -> "%"
                       [] OTHER -> "?"
\* single assignment (v1, and v2 with one target); v2 multi-assignment is EvalMultiAssign below
AssignTo(l, op, st, val) ==
  IF l.k = "id" THEN
    (IF op = "=" THEN R([st EXCEPT !.sc = SetVar(@, IF st.v2 THEN l.n ELSE Alias(l.n), val)], val)
     ELSE LET cur == IF st.v2 THEN Lookup(st.sc, l.n) ELSE GetKey(st, l.n) IN
          IF ~cur.found THEN (IF st.v2 THEN E(st, "undefined") ELSE R(st, VNil))
          ELSE IF cur.v.t = "ref" \/ val.t = "ref" THEN E(st, "operand-type")
          ELSE LET x == ArithOp(ArithAssignOp(op), cur.v, val)
               IN IF ~x.ok THEN E(st, x.cls)
                  ELSE R([st EXCEPT !.sc = SetVar(@, IF st.v2 THEN l.n ELSE Alias(l.n), x.v)], x.v))
  ELSE IF l.k = "idx" THEN
    (IF ~l.ho THEN E(st, "no-object")
     ELSE LET o == IF st.v2 THEN Lookup(st.sc, l.n) ELSE GetKey(st, l.n) IN
          IF ~o.found THEN E(st, "undefined")
          ELSE IF op = "=" THEN EvalIdxSet(l.is, 1, st, o.v, val)
          ELSE LET cur == EvalIdxGet(l.is, 1, st, o.v) IN
               IF ~cur.ok THEN cur
               ELSE IF cur.v.t = "ref" \/ val.t = "ref" THEN E(cur.st, "operand-type")
               ELSE LET x == ArithOp(ArithAssignOp(op), cur.v, val)
                    IN IF ~x.ok THEN E(cur.st, x.cls) ELSE EvalIdxSet(l.is, 1, cur.st, o.v, x.v))
  ELSE IF st.v2 THEN E(st, "assign-target") ELSE R(st, VVoid)

RECURSIVE AssignAll(_, _, _, _, _)
AssignAll(ls, op, vals, i, st) ==
  IF i > Len(ls) THEN R(st, VVoid)
  ELSE LET r == AssignTo(ls[i], op, st, vals[i])
       IN IF ~r.ok THEN r ELSE AssignAll(ls, op, vals, i + 1, r.st)

RECURSIVE EvalRhs(_, _, _, _, _)
\* v2: evaluate the whole right side first; multi-valued calls spread when there are several targets
EvalRhs(rs, i, st, acc, nl) ==
  IF i > Len(rs) THEN [st |-> st, ok |-> TRUE, vs |-> acc, cls |-> ""]
  ELSE LET r == Eval(rs[i], st) IN
       IF ~r.ok THEN [st |-> r.st, ok |-> FALSE, vs |-> acc, cls |-> r.cls]
       ELSE IF r.v.t = "void" THEN [st |-> r.st, ok |-> FALSE, vs |-> acc, cls |-> "no-value"]
       ELSE IF r.v.t = "multi"
              THEN (IF nl = 1 THEN [st |-> r.st, ok |-> FALSE, vs |-> acc, cls |-> "multi-value"]
                    ELSE EvalRhs(rs, i + 1, r.st, acc \o r.v.vs, nl))
       ELSE EvalRhs(rs, i + 1, r.st, Append(acc, r.v), nl)

EvalAssign(e, st) ==
  IF ~st.v2 THEN
    (IF Len(e.ls) # 1 \/ Len(e.rs) # 1 THEN E(st, "multi-assign")
     ELSE LET r == Eval(e.rs[1], st)        \* the right side first, then the target's index expressions
          IN IF ~r.ok THEN r
             ELSE LET val == IF r.v.t = "void" THEN VVoid ELSE r.v
                  IN AssignTo(e.ls[1], e.op, r.st, val))
  ELSE LET r == EvalRhs(e.rs, 1, st, <<>>, Len(e.ls)) IN
       IF ~r.ok THEN E(r.st, r.cls)
       ELSE IF Len(r.vs) # Len(e.ls) THEN E(r.st, "assign-count")
       ELSE IF e.op # "=" /\ Len(r.vs) # 1 THEN E(r.st, "assign-count")
       ELSE AssignAll(e.ls, e.op, r.vs, 1, r.st)

LogProbe(st, vs) == [st EXCEPT !.log = Append(@, [ev |-> "probe", vs |-> [i \in 1..Len(vs) |-> DeepV(st.heap, vs[i])]])]

EvalCall(e, st) ==
  IF st.v2 THEN
    CASE e.f = "void" -> (LET r == EvalSeq(e.as, 1, st, <<>>) IN IF r.ok THEN R(r.st, VVoid) ELSE E(r.st, r.cls))
      [] e.f = "one" -> (LET r == EvalSeq(e.as, 1, st, <<>>) IN
                         IF ~r.ok THEN E(r.st, r.cls) ELSE IF Len(r.vs) # 1 THEN E(r.st, "arg-count") ELSE R(r.st, r.vs[1]))
      [] e.f = "pv" -> (LET r == EvalSeq(e.as, 1, st, <<>>) IN      \* logs its argument and returns it
                        IF ~r.ok THEN E(r.st, r.cls) ELSE IF Len(r.vs) # 1 THEN E(r.st, "arg-count")
                        ELSE R(LogProbe(r.st, r.vs), r.vs[1]))
      [] e.f = "two" -> R(st, VMulti(<<VSmall(1), VSmall(2)>>))
      [] e.f = "probe" -> (LET r == EvalSeq(e.as, 1, st, <<>>) IN
                           IF ~r.ok THEN E(r.st, r.cls) ELSE R(LogProbe(r.st, r.vs), VVoid))
      [] OTHER -> E(st, "unknown-function")
  ELSE
    CASE e.f = "probe" ->
           (LET r == EvalSeq(e.as, 1, st, <<>>) IN
            IF ~r.ok THEN E(r.st, r.cls) ELSE R(LogProbe(r.st, r.vs), VVoid))
      [] e.f = "pv" ->        \* host-supplied: logs its argument and returns it (evaluation-order observer)
           (LET r == Use1(st, Eval(e.as[1], st)) IN
            IF ~r.ok THEN r ELSE R(LogProbe(r.st, <<r.v>>), r.v))
      [] e.f = "exit" -> R([st EXCEPT !.xt = TRUE], VVoid)
      [] e.f = "use" ->        \* not a statement of its own (see EvalTop): the callee runs here, to completion
           (LET name == e.as[1].name IN
            IF name \notin DOMAIN st.c.prog THEN R(st, VVoid)
            ELSE LET cc == [st.c EXCEPT !.name = name]
                     inner == ExecList(st.c.prog[name], 1, [st EXCEPT !.sc = <<EmptyScope>>, !.xt = FALSE, !.wrap = 0, !.pre = <<>>, !.c = cc],
                                       cc, InlineFuel)
                 IN IF inner.out = "diverge" THEN E(st, "unspec-diverge")
                    ELSE IF inner.out = "error"
                      THEN E([inner.st EXCEPT !.sc = st.sc, !.xt = st.xt, !.c = st.c, !.wrap = st.wrap, !.pre = inner.chain], inner.cls)
                    ELSE R([inner.st EXCEPT !.sc = st.sc, !.xt = st.xt, !.c = st.c, !.wrap = st.wrap, !.pre = st.pre], VVoid))   \* a callee's exit() ends only the callee
      [] e.f = "len" ->
           (LET r == Eval(e.as[1], st) IN
            IF ~r.ok THEN r
            ELSE LET k == KindOf(r.st.heap, r.v) IN
                 R(r.st, VSmall(CASE k = "str" -> Len(r.v.s)
                                  [] k = "list" -> Len(r.st.heap[r.v.l].e)
                                  [] k = "map" -> Len(r.st.heap[r.v.l].ks)
                                  [] OTHER -> 0)))
      [] e.f = "add_key" ->
           (LET kn == KeyNameOf(e.as[1]) IN
            IF Len(e.as) = 1
              THEN (LET g == GetKey(st, kn.n) IN
                    IF ~g.found THEN R([st EXCEPT !.log = Append(@, [ev |-> "add_key", k |-> Alias(kn.n)])], VVoid)
                    ELSE R([st EXCEPT !.pt = PtSetField(@, Alias(kn.n), StoredForm(st.heap, g.v)),
                                      !.log = Append(@, [ev |-> "add_key", k |-> Alias(kn.n)])], VVoid))
              ELSE (LET r == Eval(e.as[2], st) IN
                    IF ~r.ok THEN E([r.st EXCEPT !.wrap = @ + 1], r.cls)     \* add_key appends its own call site
                    ELSE R([r.st EXCEPT !.pt = PtSetField(@, Alias(kn.n), StoredForm(r.st.heap, r.v)),
                                        !.log = Append(@, [ev |-> "add_key", k |-> Alias(kn.n)])], VVoid)))
      [] e.f = "drop_key" ->
           (LET kn == KeyNameOf(e.as[1]) IN
            R([st EXCEPT !.pt = PtDel(@, Alias(kn.n)), !.log = Append(@, [ev |-> "drop_key", k |-> Alias(kn.n)])], VVoid))
      [] e.f = "get_key" ->
           (LET kn == KeyNameOf(e.as[1])
                p == PtGet(st.pt, Alias(kn.n)) IN
            IF p.found /\ p.v.t \in {"json", "tagstr"} THEN E(st, "unspec-read") ELSE R(st, p.v))
      [] e.f = "set_tag" ->
           (LET kn == KeyNameOf(e.as[1]) IN
            IF Len(e.as) = 2
              THEN (LET r == Eval(e.as[2], st) IN
                    IF ~r.ok THEN r
                    ELSE R([r.st EXCEPT !.pt = PtSetTag(@, Alias(kn.n), StoredForm(r.st.heap, r.v)),
                                        !.log = Append(@, [ev |-> "call", k |-> "set_tag"])], VVoid))
              ELSE (LET g == GetKey(st, kn.n) IN
                    R([st EXCEPT !.pt = PtSetTag(@, Alias(kn.n), IF g.found THEN StoredForm(st.heap, g.v) ELSE VStr(<<>>)),
                                 !.log = Append(@, [ev |-> "call", k |-> "set_tag"])], VVoid)))
      [] e.f = "rename" ->
           R([st EXCEPT !.pt = PtRename(@, Alias(KeyNameOf(e.as[1]).n), Alias(KeyNameOf(e.as[2]).n)),
                        !.log = Append(@, [ev |-> "call", k |-> "rename"])], VVoid)
      [] e.f = "cast" ->
           (LET kn == KeyNameOf(e.as[1])
                g == GetKey(st, kn.n) IN
            IF ~g.found THEN R([st EXCEPT !.log = Append(@, [ev |-> "call", k |-> "cast"])], VVoid)
            ELSE IF g.v.t \in {"ref", "json", "tagstr"} THEN E(st, "unspec-cast")
            ELSE LET c == CastV(g.v, e.as[2].name) IN
                 IF ~c.ok THEN E(st, "unspec-cast")
                 ELSE R([st EXCEPT !.pt = PtSetField(@, Alias(kn.n), c.v), !.log = Append(@, [ev |-> "call", k |-> "cast"])], VVoid))
      [] e.f = "set_measurement" ->
           (LET r == Eval(e.as[1], st)                     \* the first argument is evaluated as an expression
                st1 == IF r.ok THEN r.st ELSE st
                st2 == IF r.ok /\ r.v.t = "str" /\ IsAscii(r.v.s) THEN [st1 EXCEPT !.pt.meas = r.v.s] ELSE st1
                del == Len(e.as) = 2 /\ e.as[2].k = "bool" /\ e.as[2].b /\ e.as[1].k \in {"id", "attr"}
                st3 == IF r.ok /\ del THEN [st2 EXCEPT !.pt = PtDel(@, Alias(KeyNameOf(e.as[1]).n))] ELSE st2
            IN IF r.ok /\ r.v.t = "str" /\ ~IsAscii(r.v.s) THEN E(st, "unspec-measurement")
               ELSE R([st3 EXCEPT !.log = Append(@, [ev |-> "call", k |-> "set_measurement"])], VVoid))
      [] e.f \in {"trim", "uppercase", "url_decode", "replace"} ->
           (LET kn == KeyNameOf(e.as[1])
                g == Subj(st, kn.n)
                lg == [st EXCEPT !.log = Append(@, [ev |-> "call", k |-> e.f])] IN
            IF e.f = "replace" /\ RegexBad(e.as[2].s) THEN E(st, "bad-regexp")       \* compiled before the subject is read
            ELSE IF ~g.found THEN R(lg, VVoid)
            ELSE IF g.v.t \in {"json", "tagstr"} THEN E(st, "unspec-subject")
            ELSE LET x == IF g.v.t = "ref" THEN [ok |-> FALSE, s |-> <<>>] ELSE ToStrV(g.v) IN
                 IF ~x.ok THEN E(st, "unspec-subject")
                 ELSE LET res ==
                        CASE e.f = "trim" -> [ok |-> TRUE, known |-> TRUE,
                                              s |-> IF Len(e.as) = 2 /\ e.as[2].s # <<>> THEN TrimSet(x.s, BytesOf(e.as[2].s))
                                                    ELSE TrimSpaceU(x.s)]
                          [] e.f = "uppercase" -> [ok |-> TRUE, known |-> IsAscii(x.s), s |-> Upper(x.s)]
                          [] e.f = "url_decode" -> (LET u == UrlDec(x.s, 1, <<>>) IN [ok |-> u.ok, known |-> TRUE, s |-> u.s])
                          [] e.f = "replace" -> (LET q == RegexLookup(e.as[2].s, x.s, e.as[3].s) IN
                                                 IF ~q.known THEN [ok |-> TRUE, known |-> FALSE, s |-> <<>>]
                                                 ELSE [ok |-> q.e.ok, known |-> TRUE, s |-> q.e.out])
                      IN IF ~res.known THEN E(st, "unspec-engine")
                         ELSE IF ~res.ok THEN E(st, "data-error")
                         ELSE R([lg EXCEPT !.pt = PtSetField(@, Alias(kn.n), VStr(res.s))], VVoid))
      [] e.f = "load_json" ->
           (LET r == Eval(e.as[1], st) IN
            IF ~r.ok THEN r
            ELSE IF r.v.t # "str" THEN E(r.st, "operand-type")
            ELSE LET q == JsonLookup(r.v.s) IN
                 IF ~q.known THEN E(r.st, "unspec-engine")
                 ELSE IF ~q.e.ok THEN E(r.st, "data-error")
                 ELSE LET a == FromDeep(q.e.d, r.st) IN R(a.st, a.v))
      [] e.f \in {"strfmt", "printf"} ->
           (LET first == IF e.f = "strfmt" THEN 3 ELSE 2
                RECURSIVE Args(_, _, _)
                \* a failing operand is the call's failure, for strfmt as for printf (D29: strfmt used to format it as nil and go on)
                Args(i, s0, acc) == IF i > Len(e.as) THEN [st |-> s0, ok |-> TRUE, vs |-> acc, cls |-> ""]
                                    ELSE LET r == Eval(e.as[i], s0) IN
                                         IF ~r.ok THEN [st |-> r.st, ok |-> FALSE, vs |-> acc, cls |-> r.cls]
                                         ELSE Args(i + 1, r.st, Append(acc, r.v))
            IN IF e.f = "strfmt"
                 THEN (LET a == Args(first, st, <<>>)
                           f == Sprintf(e.as[2].s, 1, [j \in 1..Len(a.vs) |-> DeepV(a.st.heap, a.vs[j])], 1, <<>>) IN
                       IF ~a.ok THEN E(a.st, a.cls)
                       ELSE IF ~f.ok THEN E(a.st, "unspec-format")
                       ELSE R([a.st EXCEPT !.pt = PtSetField(@, Alias(KeyNameOf(e.as[1]).n), VStr(f.s)),
                                           !.log = Append(@, [ev |-> "call", k |-> "strfmt"])], VVoid))
                 ELSE (LET fr == Eval(e.as[1], st) IN          \* the format is evaluated as an expression; a non-string prints nothing
                       IF ~fr.ok \/ fr.v.t # "str" \/ fr.v.s = <<>> THEN R(IF fr.ok THEN fr.st ELSE st, VVoid)
                       ELSE LET a == Args(first, fr.st, <<>>) IN
                            IF ~a.ok THEN E(a.st, a.cls)
                            ELSE LET f == Sprintf(fr.v.s, 1, [j \in 1..Len(a.vs) |-> DeepV(a.st.heap, a.vs[j])], 1, <<>>) IN
                                 IF ~f.ok THEN E(a.st, "unspec-format")
                                 ELSE R([a.st EXCEPT !.log = Append(@, [ev |-> "printf", s |-> f.s])], VVoid)))
      [] e.f = "add_pattern" -> R(st, VVoid)          \* load-time only (Patterns!Annotate)
      [] e.f = "grok" ->
           (LET kn == KeyNameOf(e.as[1])
                g == Subj(st, kn.n)
                lg == [st EXCEPT !.log = Append(@, [ev |-> "call", k |-> "grok"])] IN
            IF ~g.found THEN R(lg, VBool(FALSE))
            ELSE IF g.v.t \in {"ref", "json", "tagstr"} THEN E(st, "unspec-subject")
            ELSE LET x == ToStrV(g.v) IN
                 IF ~x.ok THEN E(st, "unspec-subject")
                 ELSE LET q == GrokLookup(e.as[2].s, e.env, x.s, IF Len(e.as) = 3 THEN e.as[3].b ELSE TRUE) IN
                      IF ~q.known THEN E(st, "unspec-engine")
                      ELSE IF ~q.e.m THEN R(lg, VBool(FALSE))
                      ELSE LET RECURSIVE Store(_, _)
                               Store(i, pt) == IF i > Len(q.e.caps) THEN pt ELSE Store(i + 1, PtSetField(pt, q.e.caps[i].n, q.e.caps[i].v))
                           IN R([lg EXCEPT !.pt = Store(1, @)], VBool(TRUE)))
      [] e.f = "xml" ->
           (LET g == Subj(st, KeyNameOf(e.as[1]).n)
                lg == [st EXCEPT !.log = Append(@, [ev |-> "call", k |-> "xml"])] IN
            IF ~g.found THEN R(lg, VVoid)
            ELSE IF g.v.t \in {"ref", "json", "tagstr"} THEN E(st, "unspec-subject")
            ELSE LET x == ToStrV(g.v) IN
                 IF ~x.ok THEN E(st, "unspec-subject")
                 ELSE LET q == XmlLookup(x.s, e.as[2].s) IN
                      IF ~q.known THEN E(st, "unspec-engine")
                      ELSE IF ~q.e.ok THEN R(lg, VVoid)
                      ELSE R([lg EXCEPT !.pt = PtSetField(@, Alias(KeyNameOf(e.as[3]).n), VStr(q.e.out))], VVoid))
      [] e.f = "sql_cover" ->
           (LET kn == KeyNameOf(e.as[1])
                g == Subj(st, kn.n)
                lg == [st EXCEPT !.log = Append(@, [ev |-> "call", k |-> "sql_cover"])] IN
            IF ~g.found THEN R(lg, VVoid)
            ELSE IF g.v.t \in {"ref", "json", "tagstr"} THEN E(st, "unspec-subject")
            ELSE LET x == ToStrV(g.v) IN
                 IF ~x.ok THEN E(st, "unspec-subject")
                 ELSE LET q == SqlLookup(x.s) IN
                      IF ~q.known THEN E(st, "unspec-engine")
                      ELSE IF ~q.e.ok THEN R(lg, VVoid)
                      ELSE R([lg EXCEPT !.pt = PtSetField(@, Alias(kn.n), VStr(q.e.out))], VVoid))
      [] e.f = "datetime" ->
           (LET kn == KeyNameOf(e.as[1])
                g == GetKey(st, kn.n)
                lg == [st EXCEPT !.log = Append(@, [ev |-> "call", k |-> "datetime"])] IN
            IF ~g.found THEN R(lg, VVoid)
            ELSE IF ~TsOf(g.v).ok THEN E(st, "unspec-subject")
            ELSE LET q == DatetimeLookup(TsOf(g.v).i, e.as[2].s, e.as[3].s) IN
                 IF ~q.known THEN E(st, "unspec-engine")
                 ELSE IF ~q.e.ok THEN E(st, "data-error")
                 ELSE R([lg EXCEPT !.pt = PtSetField(@, Alias(kn.n), VStr(q.e.out))], VVoid))
      [] e.f = "default_time" ->
           (LET kn == KeyNameOf(e.as[1])
                g == Subj(st, kn.n)
                lg == [st EXCEPT !.log = Append(@, [ev |-> "call", k |-> "default_time"])] IN
            IF ~g.found THEN R(lg, VVoid)
            ELSE IF g.v.t \in {"ref", "json", "tagstr"} THEN E(st, "unspec-subject")
            ELSE LET x == ToStrV(g.v) IN
                 IF ~x.ok THEN E(st, "unspec-subject")
                 ELSE LET q == TimeLookup(x.s, IF Len(e.as) >= 2 THEN e.as[2].s ELSE st.pt.lz) IN     \* no zone argument: the process's zone at the time of the call
                      IF ~q.known THEN E(st, "unspec-engine")
                      ELSE IF q.e.ok THEN R([lg EXCEPT !.pt = [PtDel(@, Alias(kn.n)) EXCEPT !.time = q.e.ns]], VVoid)
                      \* failure: the point keeps its time and key; a failure note appears under pl_msg
                      ELSE R([lg EXCEPT !.pt = PtSetField(@, PLMSG, [t |-> "anystr"])], VVoid))
      [] OTHER -> E(st, "unknown-function")

(* ------------------- statements: the reference semantics (big-step) ------------------- *)
(* Named and documented in PlRef; defined here because a use() call inside an expression   *)
(* runs a whole script (one recursive group with Eval).                                  *)
\* a statement of its own that is a use() call leaves the callee to the statement level (st.pend)
EvalTop(s, st) == IF DirectUse(s) THEN R([st EXCEPT !.pend = s.as[1].name], VVoid) ELSE Eval(s, st)

BRes(st, out, cls, chain, fuel) == [st |-> st, out |-> out, cls |-> cls, chain |-> chain, fuel |-> fuel]
Norm(st, fuel) == BRes(st, "normal", "", <<>>, fuel)
RECURSIVE RepeatP(_, _)
RepeatP(x, n) == IF n = 0 THEN <<>> ELSE <<x>> \o RepeatP(x, n - 1)
\* an expression-level failure inside statement sid of script `name`
Failed(st, cls, name, sid, fuel) == BRes([st EXCEPT !.wrap = 0, !.pre = <<>>], "error", cls, st.pre \o RepeatP(<<name, sid>>, 1 + st.wrap), fuel)

PushS(st) == [st EXCEPT !.sc = Append(@, EmptyScope)]
PopS(st, n) == [st EXCEPT !.sc = SubSeq(@, 1, Len(@) - n)]
ClearTop(st) == [st EXCEPT !.sc[Len(st.sc)] = EmptyScope]

SortAscR(ks) ==
  LET Less(a, b) == \E i \in 1..(IF Len(a) < Len(b) THEN Len(a) ELSE Len(b)) + 1 :
                      /\ \A j \in 1..(i - 1) : j <= Len(a) /\ j <= Len(b) /\ a[j] = b[j]
                      /\ \/ (i > Len(a) /\ i <= Len(b))
                         \/ (i <= Len(a) /\ i <= Len(b) /\ a[i] < b[i])
      RECURSIVE Srt(_)
      Srt(S) == IF S = {} THEN <<>>
                ELSE LET mn == CHOOSE a \in S : \A b \in S \ {a} : Less(a, b) IN <<mn>> \o Srt(S \ {mn})
  IN Srt({ks[i] : i \in 1..Len(ks)})
RevR(s) == [i \in 1..Len(s) |-> s[Len(s) + 1 - i]]

\* c: context [prog, name, mo, v2]

ExecList(ss, i, st, c, fuel) ==
  IF i > Len(ss) THEN Norm(st, fuel)
  ELSE IF fuel = 0 THEN BRes(st, "diverge", "", <<>>, 0)
  ELSE LET r == ExecStmt(ss[i], st, c, fuel - 1)
       IN IF r.out = "normal" THEN ExecList(ss, i + 1, r.st, c, r.fuel) ELSE r

\* first truthy condition: [st, out(normal/error), j]
PickBranch(s, j, st, c, fuel) ==
  IF j > Len(s.cs) THEN [st |-> st, ok |-> TRUE, j |-> 0, cls |-> ""]
  ELSE LET r == Use1(st, Eval(s.cs[j], st)) IN
       IF ~r.ok THEN [st |-> r.st, ok |-> FALSE, j |-> 0, cls |-> r.cls]
       ELSE IF Truthy(r.st.heap, r.v) THEN [st |-> r.st, ok |-> TRUE, j |-> j, cls |-> ""]
       ELSE PickBranch(s, j + 1, r.st, c, fuel)

ExecStmt(s, st, c, fuel) ==
  CASE s.k = "break" -> BRes(st, "break", "", <<>>, fuel)
    [] s.k = "continue" -> BRes(st, "continue", "", <<>>, fuel)
    [] s.k = "if" ->
         LET p == PickBranch(s, 1, PushS(st), c, fuel) IN
         IF ~p.ok THEN Failed(p.st, p.cls, c.name, s.sid, fuel)
         ELSE IF p.j = 0 /\ ~s.he THEN Norm(PopS(p.st, 1), fuel)
         ELSE LET r == ExecList(IF p.j # 0 THEN s.bs[p.j] ELSE s.eb, 1, PushS(p.st), c, fuel)
              IN IF r.out \in {"error", "diverge"} THEN r ELSE [r EXCEPT !.st = PopS(r.st, 2)]
    [] s.k = "for" ->
         LET st1 == PushS(st)
             i == IF NoneNode(s.i) THEN R(st1, VVoid) ELSE Eval(s.i, st1)
         IN IF ~i.ok THEN Failed(i.st, i.cls, c.name, s.sid, fuel)
            ELSE LET r == ForLoop(s, i.st, c, fuel)
                 IN IF r.out \in {"error", "diverge"} THEN r ELSE [r EXCEPT !.st = PopS(r.st, 1)]
    [] s.k = "forin" ->
         LET st1 == PushS(st)
             it == Use1(st1, Eval(s.it, st1))
         IN IF ~it.ok THEN Failed(it.st, it.cls, c.name, s.sid, fuel)
            ELSE LET kd == KindOf(it.st.heap, it.v) IN
                 IF ~(kd \in {"str", "list", "map"}) THEN Failed(it.st, "not-iterable", c.name, s.sid, fuel)
                 ELSE LET items == CASE kd = "str" -> [k \in 1..Len(Runes(it.v.s)) |-> VStr(Runes(it.v.s)[k])]
                                     [] kd = "list" -> it.st.heap[it.v.l].e
                                     [] kd = "map" -> LET ks == SortAscR(it.st.heap[it.v.l].ks)
                                                          o == IF c.mo = "desc" THEN RevR(ks) ELSE ks
                                                      IN [k \in 1..Len(o) |-> VStr(o[k])]
                          r == ForInLoop(s, items, 1, PushS(it.st), c, fuel, kd = "str")
                      IN IF r.out \in {"error", "diverge"} THEN r ELSE [r EXCEPT !.st = PopS(r.st, 2)]
    [] OTHER ->
         LET r == EvalTop(s, st) IN
         IF ~r.ok THEN Failed(r.st, r.cls, c.name, s.sid, fuel)
         ELSE IF r.st.pend # "" /\ r.st.pend \in DOMAIN c.prog
           THEN \* use(name): the callee runs on the same point and heap with fresh variables
                LET callee == r.st.pend
                    inner == ExecList(c.prog[callee], 1, [r.st EXCEPT !.sc = <<EmptyScope>>, !.pend = "", !.xt = FALSE, !.c = [c EXCEPT !.name = callee]],
                                      [c EXCEPT !.name = callee], fuel)
                IN IF inner.out = "diverge" THEN inner
                   ELSE IF inner.out = "error" THEN [inner EXCEPT !.chain = Append(@, <<c.name, s.sid>>)]
                   ELSE Norm([inner.st EXCEPT !.sc = r.st.sc, !.xt = r.st.xt, !.pend = "", !.c = c], inner.fuel)     \* a callee's exit() ends only the callee
         ELSE IF r.st.xt THEN BRes([r.st EXCEPT !.pend = ""], "exit", "", <<>>, fuel)
         ELSE Norm([r.st EXCEPT !.pend = ""], fuel)

\* state st has the loop's scope on top
ForLoop(s, st, c, fuel) ==
  IF fuel = 0 THEN BRes(st, "diverge", "", <<>>, 0)
  ELSE LET cond == IF NoneNode(s.c) THEN R(st, VBool(TRUE)) ELSE Use1(st, Eval(s.c, st)) IN
  IF ~cond.ok THEN Failed(cond.st, cond.cls, c.name, s.sid, fuel)
  ELSE IF ~Truthy(cond.st.heap, cond.v) THEN Norm(cond.st, fuel)
  ELSE LET b == ExecList(s.b, 1, PushS(cond.st), c, fuel - 1) IN
       IF b.out \in {"error", "diverge"} THEN b
       ELSE LET st2 == PopS(b.st, 1) IN
            IF b.out = "break" THEN Norm(st2, b.fuel)
            ELSE IF b.out = "exit" THEN BRes(st2, "exit", "", <<>>, b.fuel)
            ELSE LET p == IF NoneNode(s.p) THEN R(st2, VVoid) ELSE Eval(s.p, st2) IN
                 IF ~p.ok THEN Failed(p.st, p.cls, c.name, s.sid, b.fuel)
                 ELSE ForLoop(s, p.st, c, b.fuel)

\* state st has the iteration scope on top
ForInLoop(s, items, i, st, c, fuel, strmode) ==
  IF i > Len(items) THEN Norm(st, fuel)
  ELSE IF fuel = 0 THEN BRes(st, "diverge", "", <<>>, 0)
  ELSE LET st1 == [ClearTop(st) EXCEPT !.sc = SetVar(ClearTop(st).sc, IF c.v2 THEN s.v ELSE Alias(s.v), items[i])]
           b == ExecList(s.b, 1, st1, c, fuel - 1)
       IN IF b.out \in {"error", "diverge"} THEN b
          ELSE IF b.out = "break" THEN Norm(b.st, b.fuel)
          ELSE IF b.out = "exit" THEN BRes(b.st, "exit", "", <<>>, b.fuel)
          ELSE ForInLoop(s, items, i + 1, b.st, c, b.fuel, strmode)

=============================================================================
