-------------------------------- MODULE BigNat --------------------------------
(* Natural numbers of arbitrary size for TLC (whose integers are 32-bit):   *)
(* canonical little-endian sequences of limbs in base 2^15 (no trailing     *)
(* zero limb; zero is <<>>).  Limb products stay below 2^31.                *)
(* Substrate of I64 (wrapping 64-bit integers) and F64 (IEEE-754 doubles).  *)
EXTENDS Integers, Sequences

B == 32768          \* 2^15
LB == 15

RECURSIVE BnNorm(_)
BnNorm(a) == IF a = <<>> THEN <<>>
             ELSE IF a[Len(a)] = 0 THEN BnNorm(SubSeq(a, 1, Len(a) - 1)) ELSE a

BnZero == <<>>
BnIsZero(a) == a = <<>>

RECURSIVE BnFromInt(_)
BnFromInt(n) == IF n = 0 THEN <<>> ELSE <<n % B>> \o BnFromInt(n \div B)   \* n >= 0

\* a < 2^30 assumed by callers
BnToInt(a) == IF a = <<>> THEN 0 ELSE IF Len(a) = 1 THEN a[1] ELSE a[1] + B * a[2]
BnFitsInt(a) == Len(a) <= 2

RECURSIVE BnCmpFrom(_, _, _)
BnCmpFrom(a, b, i) == IF i = 0 THEN 0
                      ELSE IF a[i] < b[i] THEN -1
                      ELSE IF a[i] > b[i] THEN 1
                      ELSE BnCmpFrom(a, b, i - 1)
BnCmp(a, b) == IF Len(a) < Len(b) THEN -1
               ELSE IF Len(a) > Len(b) THEN 1
               ELSE BnCmpFrom(a, b, Len(a))

Limb(a, i) == IF i <= Len(a) THEN a[i] ELSE 0
Max(x, y) == IF x > y THEN x ELSE y
Min(x, y) == IF x < y THEN x ELSE y

RECURSIVE BnAddFrom(_, _, _, _)
BnAddFrom(a, b, i, c) ==
  IF i > Len(a) /\ i > Len(b) THEN (IF c = 0 THEN <<>> ELSE <<c>>)
  ELSE LET s == Limb(a, i) + Limb(b, i) + c
       IN <<s % B>> \o BnAddFrom(a, b, i + 1, s \div B)
BnAdd(a, b) == BnAddFrom(a, b, 1, 0)

\* a >= b
RECURSIVE BnSubFrom(_, _, _, _)
BnSubFrom(a, b, i, br) ==
  IF i > Len(a) THEN <<>>
  ELSE LET d == a[i] - Limb(b, i) - br
       IN IF d < 0 THEN <<d + B>> \o BnSubFrom(a, b, i + 1, 1)
          ELSE <<d>> \o BnSubFrom(a, b, i + 1, 0)
BnSub(a, b) == BnNorm(BnSubFrom(a, b, 1, 0))

RECURSIVE BnMulSmallFrom(_, _, _, _)
BnMulSmallFrom(a, m, i, c) ==
  IF i > Len(a) THEN (IF c = 0 THEN <<>> ELSE <<c>>)
  ELSE LET p == a[i] * m + c
       IN <<p % B>> \o BnMulSmallFrom(a, m, i + 1, p \div B)
BnMulSmall(a, m) == IF m = 0 THEN <<>> ELSE BnMulSmallFrom(a, m, 1, 0)   \* 0 <= m < B

RECURSIVE Zeros(_)
Zeros(n) == IF n = 0 THEN <<>> ELSE <<0>> \o Zeros(n - 1)
BnShiftLimbs(a, n) == IF a = <<>> THEN <<>> ELSE Zeros(n) \o a

RECURSIVE BnMul(_, _)
BnMul(a, b) == IF a = <<>> \/ b = <<>> THEN <<>>
               ELSE BnAdd(BnMulSmall(a, b[1]), BnShiftLimbs(BnMul(a, Tail(b)), 1))

\* division by a small number 0 < d < B: <<quotient, remainder>>
RECURSIVE BnDivSmallFrom(_, _, _, _)
BnDivSmallFrom(a, d, i, r) ==      \* returns quotient limbs for positions i..1 (big-endian recursion)
  IF i = 0 THEN <<<<>>, r>>
  ELSE LET cur == r * B + a[i]
           rest == BnDivSmallFrom(a, d, i - 1, cur % d)
       IN <<rest[1] \o <<cur \div d>>, rest[2]>>
BnDivModSmall(a, d) == LET x == BnDivSmallFrom(a, d, Len(a), 0) IN <<BnNorm(x[1]), x[2]>>

RECURSIVE Pow2Small(_)
Pow2Small(r) == IF r = 0 THEN 1 ELSE 2 * Pow2Small(r - 1)      \* r < 31

BnShl(a, n) == IF a = <<>> THEN <<>> ELSE BnShiftLimbs(BnMulSmall(a, Pow2Small(n % LB)), n \div LB)
BnShr(a, n) == LET q == n \div LB
               IN IF q >= Len(a) THEN <<>>
                  ELSE BnDivModSmall(SubSeq(a, q + 1, Len(a)), Pow2Small(n % LB))[1]
BnPow2(n) == BnShl(<<1>>, n)

RECURSIVE BitLenSmall(_)
BitLenSmall(x) == IF x = 0 THEN 0 ELSE 1 + BitLenSmall(x \div 2)
BnBitLen(a) == IF a = <<>> THEN 0 ELSE LB * (Len(a) - 1) + BitLenSmall(a[Len(a)])
\* bit i (0 = least significant)
BnBit(a, i) == LET q == i \div LB IN IF q >= Len(a) THEN 0 ELSE (a[q + 1] \div Pow2Small(i % LB)) % 2
BnIsOdd(a) == a # <<>> /\ a[1] % 2 = 1
\* low n bits
BnLow(a, n) == LET q == n \div LB
                   r == n % LB
               IN IF q >= Len(a) THEN a
                  ELSE BnNorm(SubSeq(a, 1, q) \o (IF r = 0 THEN <<>> ELSE <<a[q + 1] % Pow2Small(r)>>))
\* number of trailing zero bits (a # 0)
RECURSIVE TzSmall(_)
TzSmall(x) == IF x % 2 = 1 THEN 0 ELSE 1 + TzSmall(x \div 2)
RECURSIVE BnTzFrom(_, _)
BnTzFrom(a, i) == IF a[i] = 0 THEN LB + BnTzFrom(a, i + 1) ELSE TzSmall(a[i])
BnTz(a) == BnTzFrom(a, 1)

\* general division, b # 0: binary long division from the top bit: <<quotient, remainder>>
RECURSIVE BnDivBits(_, _, _, _, _)
BnDivBits(a, b, i, q, r) ==
  IF i < 0 THEN <<q, r>>
  ELSE LET r2 == BnAdd(BnMulSmall(r, 2), IF BnBit(a, i) = 1 THEN <<1>> ELSE <<>>)
       IN IF BnCmp(r2, b) >= 0
            THEN BnDivBits(a, b, i - 1, BnAdd(BnMulSmall(q, 2), <<1>>), BnSub(r2, b))
            ELSE BnDivBits(a, b, i - 1, BnMulSmall(q, 2), r2)
BnDivMod(a, b) == IF Len(b) = 1 THEN LET x == BnDivModSmall(a, b[1]) IN <<x[1], BnFromInt(x[2])>>
                  ELSE IF BnCmp(a, b) < 0 THEN <<<<>>, a>>
                  ELSE BnDivBits(a, b, BnBitLen(a) - 1, <<>>, <<>>)

\* decimal digits (most significant first) -> number
RECURSIVE BnFromDecFrom(_, _, _)
BnFromDecFrom(ds, i, acc) == IF i > Len(ds) THEN acc
                             ELSE BnFromDecFrom(ds, i + 1, BnAdd(BnMulSmall(acc, 10), BnFromInt(ds[i])))
BnFromDec(ds) == BnFromDecFrom(ds, 1, <<>>)
RECURSIVE BnPow10(_)
BnPow10(n) == IF n = 0 THEN <<1>> ELSE BnMulSmall(BnPow10(n - 1), 10)
=============================================================================
