package main

import (
	"bytes"
	"context"
	"encoding/json"
	"fmt"
	"io"
	"math"
	"os"
	"reflect"
	"regexp"
	"runtime/debug"
	"sort"
	"strings"
	"time"

	"github.com/GuanceCloud/platypus/pkg/ast"
	"github.com/GuanceCloud/platypus/pkg/engine"
	plruntime "github.com/GuanceCloud/platypus/pkg/engine/runtime"
	"github.com/GuanceCloud/platypus/pkg/engine/runtimev2"
	"github.com/GuanceCloud/platypus/pkg/errchain"
	"github.com/GuanceCloud/platypus/pkg/inimpl/guancecloud/funcs"
	"github.com/GuanceCloud/platypus/pkg/inimpl/guancecloud/input"
	"github.com/GuanceCloud/platypus/pkg/parser"
)

func init() {
	register("ast-json", astJSON)
	register("replay-machine", replayMachine)
	register("host-typed-points", hostTypedPoints)
}

// progSet is one program set as written by the generators (bin/gen*.py).
type progSet struct {
	ID        string            `json:"id"`
	V2        bool              `json:"v2"`
	Main      string            `json:"main"`
	Scripts   map[string]string `json:"scripts"`
	Pt        ptIn              `json:"pt"`
	Fuel      int               `json:"fuel"`
	MapOrders bool              `json:"maporders"`
	Tag       string            `json:"tag"`     // free text: family / what it exercises
	Without   []string          `json:"without"` // functions removed from the registered table (C08)
	// functions removed from ONE of the two v1 tables only (the implementations / the checkers): not registered either
	WithoutCall  []string `json:"without_call"`
	WithoutCheck []string `json:"without_check"`

	hostVal func() any // host-typed-points: every field of the input point holds this Go value instead
}

type ptIn struct {
	Meas   string                     `json:"meas"`
	Tags   map[string]string          `json:"tags"`
	Fields map[string]json.RawMessage `json:"fields"`
	Lz     string                     `json:"lz"` // the zone the host process is in during this run ("" = UTC)
}

func (p ptIn) goFields() (map[string]any, error) {
	out := map[string]any{}
	for k, raw := range p.Fields {
		s := strings.TrimSpace(string(raw))
		switch {
		case s == "null":
			out[k] = nil
		case s == "true" || s == "false":
			out[k] = s == "true"
		case strings.HasPrefix(s, `"`):
			var x string
			if err := json.Unmarshal(raw, &x); err != nil {
				return nil, err
			}
			out[k] = x
		case strings.ContainsAny(s, ".eE"):
			var f float64
			if err := json.Unmarshal(raw, &f); err != nil {
				return nil, err
			}
			out[k] = f
		default:
			var n int64
			if err := json.Unmarshal(raw, &n); err != nil {
				return nil, err
			}
			out[k] = n
		}
	}
	return out, nil
}

func encVal(g any) map[string]any {
	switch x := g.(type) {
	case nil:
		return map[string]any{"t": "nil"}
	case bool:
		return map[string]any{"t": "bool", "b": x}
	case int64:
		return map[string]any{"t": "int", "i": encI64(x)}
	case float64:
		return map[string]any{"t": "float", "f": encF64(x)}
	case string:
		return map[string]any{"t": "str", "s": intsOf(x)}
	}
	return map[string]any{"t": "nil"}
}

func (p ptIn) tlc() (map[string]any, error) {
	f, err := p.goFields()
	if err != nil {
		return nil, err
	}
	ks, es := []any{}, []any{}
	names := []string{}
	for k := range f {
		names = append(names, k)
	}
	sort.Strings(names)
	for _, k := range names {
		ks = append(ks, k)
		es = append(es, map[string]any{"flag": "field", "v": encVal(f[k])})
	}
	names = names[:0]
	for k := range p.Tags {
		names = append(names, k)
	}
	sort.Strings(names)
	for _, k := range names {
		ks = append(ks, k)
		es = append(es, map[string]any{"flag": "tag", "v": encVal(p.Tags[k])})
	}
	return map[string]any{"meas": p.Meas, "ks": ks, "es": es, "time": encI64(fixedTime.UnixNano()), "lz": intsOf(p.Lz)}, nil
}

func (p ptIn) build() (*input.Point, error) {
	f, err := p.goFields()
	if err != nil {
		return nil, err
	}
	tags := map[string]string{}
	for k, v := range p.Tags {
		tags[k] = v
	}
	pt := &input.Point{}
	input.InitPt(pt, p.Meas, tags, f, fixedTime)
	return pt, nil
}

// ast-json <progsets.ndjson> <out.ndjson>: parse every script with the real parser and write the rows
// PlMachine.tla reads (scripts as trees).  Sets that do not parse are reported, not written.
func astJSON(args []string) (any, error) {
	out, err := os.Create(args[1])
	if err != nil {
		return nil, err
	}
	defer out.Close()
	enc := json.NewEncoder(out)
	n, skipped := 0, []string{}
	err = readNDJSON(args[0], func(raw json.RawMessage) error {
		var ps progSet
		if err := json.Unmarshal(raw, &ps); err != nil {
			return err
		}
		scripts := map[string]any{}
		for name, text := range ps.Scripts {
			ss, err := parser.ParsePipeline(name, text)
			if err != nil {
				skipped = append(skipped, ps.ID+": "+err.Error())
				return nil
			}
			tree, _ := convScript(text, ss)
			scripts[name] = tree
		}
		pt, err := ps.Pt.tlc()
		if err != nil {
			return err
		}
		n++
		wo := append(append(append([]string{}, ps.Without...), ps.WithoutCall...), ps.WithoutCheck...)
		return enc.Encode(map[string]any{"id": ps.ID, "v2": ps.V2, "main": ps.Main, "scripts": scripts, "pt": pt,
			"fuel": ps.Fuel, "maporders": ps.MapOrders, "without": wo})
	})
	if len(skipped) > 20 {
		skipped = append(skipped[:20], fmt.Sprintf("... %d more", len(skipped)-20))
	}
	return map[string]any{"written": n, "skipped": skipped}, err
}

// ---- observation -------------------------------------------------------------------------------

type effect struct {
	Ev   string
	K    string
	Vals []any
	Typs []ast.DType
}

type runObs struct {
	log      []effect
	polls    int
	atPoll   []int // number of effects when poll i happened
	fireAt   int   // ExitSignal answers true from this poll on (0 = never)
	budget   int   // poll budget for non-terminating programs (0 = none): answers true beyond it
	overBudg bool
}

func (o *runObs) ExitSignal() bool {
	o.polls++
	o.atPoll = append(o.atPoll, len(o.log))
	if o.fireAt > 0 && o.polls >= o.fireAt {
		return true
	}
	if o.budget > 0 && o.polls > o.budget {
		o.overBudg = true
		return true
	}
	return false
}

// procSignal is the other shape a host's signal commonly has: a type without state of its own whose pointer-receiver method
// reads process-wide state, held as a nil pointer.  It is a valid, non-nil Signal; runs alternate between the two shapes.
type procSignal struct{}

var procSignalObs *runObs

func (*procSignal) ExitSignal() bool { return procSignalObs.ExitSignal() }

// ctxSignal: a host signal that also IS a context (it embeds one whose Done channel never closes): whether the run must stop is what
// ExitSignal says, whatever other methods the host's type happens to carry.
type ctxSignal struct {
	context.Context
	o *runObs
}

func (c ctxSignal) ExitSignal() bool { return c.o.ExitSignal() }

// fnSignal: a function type with the method.
type fnSignal func() bool

func (f fnSignal) ExitSignal() bool { return f() }

var neverDone, _ = context.WithCancel(context.Background()) //nolint

func signalFor(o *runObs, fireAt int) plruntime.Signal {
	switch fireAt % 4 {
	case 1:
		procSignalObs = o
		var s *procSignal
		return s
	case 2:
		return ctxSignal{neverDone, o}
	case 3:
		return fnSignal(o.ExitSignal)
	}
	return o
}

type runResult struct {
	obs     *runObs
	err     *errchain.PlError
	loadErr error
	panicV  string
	hang    bool
	pt      *input.Point
}

func v1Tables(o *runObs) (map[string]plruntime.FuncCall, map[string]plruntime.FuncCheck) {
	var plog []Probed
	call, check := funcTables(&plog)
	for _, pn := range []string{"probe", "pv"} {
		probe := call[pn]
		call[pn] = func(ctx *plruntime.Task, e *ast.CallExpr) *errchain.PlError {
			n := len(plog)
			err := probe(ctx, e)
			if err == nil && len(plog) > n {
				p := plog[len(plog)-1]
				o.log = append(o.log, effect{Ev: "probe", Vals: p.Vals, Typs: p.Types})
				plog = plog[:len(plog)-1]
			}
			return err
		}
	}
	for _, name := range []string{"set_tag", "rename", "cast", "set_measurement", "trim", "uppercase", "url_decode", "replace", "strfmt",
		"grok", "xml", "datetime", "default_time", "sql_cover"} {
		name := name
		orig := call[name]
		call[name] = func(ctx *plruntime.Task, e *ast.CallExpr) *errchain.PlError {
			err := orig(ctx, e)
			if err == nil {
				o.log = append(o.log, effect{Ev: "call", K: name})
			}
			return err
		}
	}
	origPrintf := call["printf"]
	call["printf"] = func(ctx *plruntime.Task, e *ast.CallExpr) *errchain.PlError {
		var err *errchain.PlError
		outp := captureStdout(func() { err = origPrintf(ctx, e) })
		if outp != "" {
			o.log = append(o.log, effect{Ev: "printf", K: outp})
		}
		return err
	}
	for _, name := range []string{"add_key", "drop_key"} {
		name := name
		orig := call[name]
		call[name] = func(ctx *plruntime.Task, e *ast.CallExpr) *errchain.PlError {
			err := orig(ctx, e)
			if err == nil {
				k := ""
				if len(e.Param) > 0 {
					switch e.Param[0].NodeType {
					case ast.TypeIdentifier:
						k = e.Param[0].Identifier().Name
					case ast.TypeStringLiteral:
						k = e.Param[0].StringLiteral().Val
					case ast.TypeAttrExpr:
						k = e.Param[0].AttrExpr().String()
					}
				}
				if k == "_" {
					k = "message"
				}
				o.log = append(o.log, effect{Ev: name, K: k})
			}
			return err
		}
	}
	return call, check
}

func v2Table(o *runObs) map[string]*runtimev2.Fn {
	anyParams := []*runtimev2.Param{{Name: "xs", Variable: true}}
	oneParam := []*runtimev2.Param{{Name: "x"}}
	return map[string]*runtimev2.Fn{
		"void": {
			CallCheck: func(ctx *runtimev2.Task, e *ast.CallExpr) *errchain.PlError {
				return runtimev2.CheckPassParam(ctx, e, anyParams)
			},
			Call: func(ctx *runtimev2.Task, e *ast.CallExpr) *errchain.PlError {
				_, err := runtimev2.GetParam(ctx, e, anyParams, 0)
				if err != nil {
					return err
				}
				return nil // returns nothing: the function never touches the result register
			},
		},
		"one": {
			CallCheck: func(ctx *runtimev2.Task, e *ast.CallExpr) *errchain.PlError {
				return runtimev2.CheckPassParam(ctx, e, oneParam)
			},
			Call: func(ctx *runtimev2.Task, e *ast.CallExpr) *errchain.PlError {
				v, err := runtimev2.GetParam(ctx, e, oneParam, 0)
				if err != nil {
					return err
				}
				vv, t := ast.DectDataType(v)
				ctx.Regs.ReturnAppend(runtimev2.V{V: vv, T: t})
				return nil
			},
		},
		// pv(x): logs its argument like probe and returns it (evaluation-order observer, as on v1)
		"pv": {
			CallCheck: func(ctx *runtimev2.Task, e *ast.CallExpr) *errchain.PlError {
				return runtimev2.CheckPassParam(ctx, e, oneParam)
			},
			Call: func(ctx *runtimev2.Task, e *ast.CallExpr) *errchain.PlError {
				v, err := runtimev2.GetParam(ctx, e, oneParam, 0)
				if err != nil {
					return err
				}
				o.log = append(o.log, effect{Ev: "probe", Vals: []any{snap(v, 8)}})
				vv, t := ast.DectDataType(v)
				ctx.Regs.ReturnAppend(runtimev2.V{V: vv, T: t})
				return nil
			},
		},
		"two": {
			CallCheck: func(ctx *runtimev2.Task, e *ast.CallExpr) *errchain.PlError {
				return runtimev2.CheckPassParam(ctx, e, nil)
			},
			Call: func(ctx *runtimev2.Task, e *ast.CallExpr) *errchain.PlError {
				ctx.Regs.ReturnAppend(runtimev2.V{V: int64(1), T: ast.Int}, runtimev2.V{V: int64(2), T: ast.Int})
				return nil
			},
		},
		"probe": {
			CallCheck: func(ctx *runtimev2.Task, e *ast.CallExpr) *errchain.PlError {
				return runtimev2.CheckPassParam(ctx, e, anyParams)
			},
			Call: func(ctx *runtimev2.Task, e *ast.CallExpr) *errchain.PlError {
				v, err := runtimev2.GetParam(ctx, e, anyParams, 0)
				if err != nil {
					return err
				}
				xs, _ := snap(v, 8).([]any)
				o.log = append(o.log, effect{Ev: "probe", Vals: xs})
				return nil // returns nothing
			},
		},
	}
}

// runOnce loads and runs a program set with the given signal schedule, under a watchdog.
var identRe = regexp.MustCompile(`[A-Za-z_][A-Za-z0-9_]*`)
var notVarNames = map[string]bool{"if": true, "elif": true, "else": true, "for": true, "in": true, "break": true, "continue": true, "true": true,
	"false": true, "nil": true, "null": true, "nan": true, "inf": true, "probe": true, "pv": true, "one": true, "two": true, "void": true}
var failedEarlierRuns int

// failedEarlierRun: what an earlier, unrelated run of the process may have left behind.  A script that first assigns a variable of
// every name the judged program mentions and then fails - inside a branch, inside a loop body, at top level, inside a callee -
// is loaded and run on a point of its own, on the goroutine of the judged run and just before it.  Nothing of it may be seen by
// the judged run (a run depends only on its script, its functions and its point): contexts, frames and registers that the
// interpreters pool are then in the state a failed run leaves, not in their fresh state.
func failedEarlierRun(ps *progSet) {
	defer func() { _ = recover() }()
	names := map[string]bool{}
	for _, src := range ps.Scripts {
		for _, n := range identRe.FindAllString(src, -1) {
			if !notVarNames[strings.ToLower(n)] {
				if _, fn := funcs.FuncsMap[n]; !fn {
					names[n] = true
				}
			}
		}
	}
	var b strings.Builder
	for n := range names {
		fmt.Fprintf(&b, "%s = \"stale-%s\"\n", n, n)
	}
	failedEarlierRuns++
	tails := []string{"if true {\nzzq = 1 + nil\n}\n", "for zzi = 0; zzi < 2; zzi = zzi + 1 {\nzzq = 1 + nil\n}\n", "zzq = 1 + nil\n",
		"for zzv in [1, 2] {\nif zzv {\nzzq = 1 + nil\n}\n}\n",
		// the failure happens while a call is collecting its arguments / a literal its elements (after some were evaluated)
		"zzl = [1]\nprintf(\"%v %v %v\", 7, \"stale\", zzl[5])\n", "zzl = [1]\nif true {\nstrfmt(zzk, \"%v %v\", 8, zzl[5])\n}\n",
		"zzl = [1]\nzzq = [7, \"stale\", zzl[5]]\n", "zzl = [1]\nzzm = {\"a\": 7, \"b\": zzl[5]}\n", "zzl = [1]\nadd_key(zzk, zzl[5])\nprobe(7, zzl[5])\n", "zzl = [1]\nif false {\n} elif true {\nfor ;; {\nzzq = zzl[5]\n}\n}\n"}
	src := b.String() + tails[failedEarlierRuns%len(tails)]
	o := &runObs{}
	// every fourth earlier run does not fail but is DEGENERATE: a blank or comment-only script, a script using such a script, a script
	// that only exits (directly or in its callee) - runs that take the shortest way through the pooled task's life cycle
	if failedEarlierRuns%4 == 1 && !ps.V2 {
		degenerate := []map[string]string{
			{"earlier.p": ""}, {"earlier.p": "# only a comment\n"}, {"earlier.p": "use(\"earlier2.p\")\n", "earlier2.p": ""},
			{"earlier.p": b.String() + "if true {\nuse(\"earlier2.p\")\n}\nzzq = 1\n", "earlier2.p": "# nothing\n\n"},
			{"earlier.p": "exit()\n"}, {"earlier.p": b.String() + "use(\"earlier2.p\")\n", "earlier2.p": "exit()\n"},
			{"earlier.p": "\n\n"}, {"earlier.p": "use(\"earlier2.p\")\nuse(\"earlier2.p\")\n", "earlier2.p": "\n# blank\n"},
		}
		call, check := v1Tables(o)
		ok, _ := engine.ParseScript(degenerate[(failedEarlierRuns/4)%len(degenerate)], call, check)
		if sc := ok["earlier.p"]; sc != nil {
			if pt, err := ps.Pt.build(); err == nil {
				_ = sc.Run(pt, o)
			}
		}
		return
	}
	if ps.V2 {
		if sc, err := engine.ParseV2("earlier.p", src, v2Table(o)); err == nil {
			_ = sc.Run(o)
		}
		return
	}
	call, check := v1Tables(o)
	scripts := map[string]string{"earlier.p": src}
	if failedEarlierRuns%3 == 0 { // the failure happens in a callee
		scripts = map[string]string{"earlier.p": b.String() + "if true {\nuse(\"earlier2.p\")\n}\n", "earlier2.p": src}
	}
	ok, _ := engine.ParseScript(scripts, call, check)
	if sc := ok["earlier.p"]; sc != nil {
		if pt, err := ps.Pt.build(); err == nil {
			_ = sc.Run(pt, o)
		}
	}
}

// chattyInput: an input whose type has methods of its own besides Get (a host's point type may implement several interfaces).
type chattyInput struct{ *input.Point }

func (chattyInput) ExitSignal() bool      { return false }
func (chattyInput) Done() <-chan struct{} { return nil }
func (chattyInput) String() string        { return "chatty input" }

func usesOnlyHarnessFunctions(ps *progSet) bool {
	for _, src := range ps.Scripts {
		for _, n := range identRe.FindAllString(src, -1) {
			if _, fn := funcs.FuncsMap[n]; fn && n != "use" && n != "exit" && n != "len" {
				return false
			}
		}
	}
	return true
}

var hostReused = &input.Point{}
var hostRuns int
var runsDone int

func runOnce(ps *progSet, fireAt, budget int) runResult {
	o := &runObs{fireAt: fireAt, budget: budget}
	res := runResult{obs: o}
	done := make(chan struct{})
	go func() {
		defer close(done)
		defer func() {
			if r := recover(); r != nil {
				res.panicV = fmt.Sprintf("%v\n%s", r, debug.Stack())
			}
		}()
		if ps.V2 {
			sc, err := engine.ParseV2(ps.Main, ps.Scripts[ps.Main], v2Table(o))
			if err != nil {
				res.loadErr = err
				return
			}
			failedEarlierRun(ps) // between the load and the run: nothing in between restores what the failed run left
			res.err = sc.Run(signalFor(o, fireAt))
			return
		}
		call, check := v1Tables(o)
		ok, errs := engine.ParseScript(ps.Scripts, call, check)
		if e, bad := errs[ps.Main]; bad {
			res.loadErr = e
			return
		}
		pt, err := ps.Pt.build()
		if err != nil {
			res.loadErr = err
			return
		}
		if ps.hostVal != nil {
			f, _ := ps.Pt.goFields()
			for k := range f {
				f[k] = ps.hostVal()
			}
			tags := map[string]string{}
			for k, v := range ps.Pt.Tags {
				tags[k] = v
			}
			// every second host-typed record arrives in a Point VALUE THE HOST REUSES for consecutive records (InitPt again, no PutPoint in
			// between): the previous record had the same keys holding ordinary text
			target := &input.Point{}
			hostRuns++
			if hostRuns%2 == 1 {
				prev := map[string]any{}
				for k := range f {
					prev[k] = "previous record"
				}
				ptags := map[string]string{}
				for k := range tags {
					ptags[k] = "previous tag"
				}
				input.InitPt(hostReused, ps.Pt.Meas, ptags, prev, fixedTime)
				target = hostReused
			}
			pt = input.InitPt(target, ps.Pt.Meas, tags, f, fixedTime)
		}
		res.pt = pt
		failedEarlierRun(ps) // between the load and the run (uninterrupted and cancelled runs alike): nothing in between restores what the earlier run left
		if ps.Pt.Lz != "" {  // the host process is in this zone while the script runs (and back in UTC afterwards)
			if loc, lerr := time.LoadLocation(ps.Pt.Lz); lerr == nil {
				old := time.Local
				time.Local = loc
				defer func() { time.Local = old }()
			}
		}
		runsDone++
		// the input is whatever the host hands in: for programs that do not touch the point through the real builtins (those insist on a
		// *input.Point), every third cancelled run gets an input object whose Go type carries more methods than Input asks for - among
		// them one named like the signal's. The host's signal is the signal.
		if fireAt > 0 && fireAt < 1<<20 && runsDone%3 == 0 && usesOnlyHarnessFunctions(ps) {
			res.err = ok[ps.Main].Run(chattyInput{pt}, signalFor(o, fireAt))
			return
		}
		if runsDone%2 == 0 {
			// run options are the host's business: a private map handed to the run changes nothing a script can see
			res.err = ok[ps.Main].Run(pt, signalFor(o, fireAt), plruntime.WithPrivate(map[string]any{"host": "data", "n": runsDone}))
		} else {
			res.err = ok[ps.Main].Run(pt, signalFor(o, fireAt))
		}
	}()
	select {
	case <-done:
	case <-time.After(3 * time.Second):
		res.hang = true
	}
	return res
}

// ---- comparison with the specification's outcome -----------------------------------------------

type specOutcome struct {
	ID      string `json:"id"`
	Mo      string `json:"mo"`
	V2      bool   `json:"v2"`
	FiredAt int    `json:"firedAt"`
	Seen    bool   `json:"seen"`
	Polls   int    `json:"polls"`
	Status  string `json:"status"`
	Err     struct {
		Cls   string  `json:"cls"`
		Chain [][]any `json:"chain"`
	} `json:"err"`
	Log   []map[string]any `json:"log"`
	Pt    map[string]any   `json:"pt"`
	Steps int              `json:"steps"`
}

func specBytes(x any) string {
	xs, _ := x.([]any)
	b := make([]byte, len(xs))
	for i, v := range xs {
		b[i] = byte(v.(float64))
	}
	return string(b)
}

func remarshal(src any, dst any) {
	b, _ := json.Marshal(src)
	_ = json.Unmarshal(b, dst)
}

// valEq: does the Go value g equal the spec's deep value s?
func valEq(s map[string]any, g any) bool {
	switch s["t"] {
	case "cycle": // the model stops unfolding cyclic structures: not compared
		return true
	case "nil", "void":
		return g == nil
	case "bool":
		x, ok := g.(bool)
		return ok && x == s["b"].(bool)
	case "int":
		var j jI64
		remarshal(s["i"], &j)
		w, ok1 := decI64(j)
		x, ok := g.(int64)
		return ok && ok1 && x == w
	case "float":
		var j jF64
		remarshal(s["f"], &j)
		w, ok1 := decF64(j)
		x, ok := g.(float64)
		if !ok1 { // unspecified by the model (subnormal range): only the kind is demanded
			return ok
		}
		return ok && sameF(x, w)
	case "str":
		x, ok := g.(string)
		return ok && x == specBytes(s["s"])
	case "list":
		x, ok := g.([]any)
		es, _ := s["e"].([]any)
		if !ok || len(x) != len(es) {
			return false
		}
		for i := range es {
			if !valEq(es[i].(map[string]any), x[i]) {
				return false
			}
		}
		return true
	case "map":
		x, ok := g.(map[string]any)
		ks, _ := s["ks"].([]any)
		vs, _ := s["vs"].([]any)
		if !ok || len(x) != len(ks) {
			return false
		}
		for i := range ks {
			gv, ok := x[specBytes(ks[i])]
			if !ok || !valEq(vs[i].(map[string]any), gv) {
				return false
			}
		}
		return true
	}
	return false
}

func kindDType(s map[string]any) ast.DType {
	switch s["t"] {
	case "nil":
		return ast.Nil
	case "void":
		return ast.Void
	case "bool":
		return ast.Bool
	case "int":
		return ast.Int
	case "float":
		return ast.Float
	case "str":
		return ast.String
	case "list":
		return ast.List
	case "map":
		return ast.Map
	}
	return ast.Invalid
}

func showVal(g any) string { return showValD(g, 5) }

// showValD prints a value to a bounded depth (script values can be cyclic).
func showValD(g any, d int) string {
	if d == 0 {
		return "..."
	}
	switch x := g.(type) {
	case []any:
		parts := []string{}
		for _, e := range x {
			parts = append(parts, showValD(e, d-1))
		}
		return "[" + strings.Join(parts, ", ") + "]"
	case map[string]any:
		ks := []string{}
		for k := range x {
			ks = append(ks, k)
		}
		sort.Strings(ks)
		parts := []string{}
		for _, k := range ks {
			parts = append(parts, fmt.Sprintf("%q: %s", k, showValD(x[k], d-1)))
		}
		return "{" + strings.Join(parts, ", ") + "}"
	case float64:
		return fmt.Sprintf("float64(%v|%x)", x, math.Float64bits(x))
	case string:
		return fmt.Sprintf("string(%q)", x)
	}
	return fmt.Sprintf("%T(%v)", g, g)
}

// logDiff compares the first n entries of the real effect log with the spec's.
func logDiff(spec []map[string]any, got []effect, v2 bool) string {
	if len(spec) != len(got) {
		return fmt.Sprintf("effect count: want %d, got %d", len(spec), len(got))
	}
	for i, s := range spec {
		g := got[i]
		if s["ev"] != g.Ev {
			return fmt.Sprintf("effect %d: want %v, got %s", i, s["ev"], g.Ev)
		}
		switch g.Ev {
		case "probe":
			vs, _ := s["vs"].([]any)
			if len(vs) != len(g.Vals) {
				return fmt.Sprintf("effect %d: probe arity want %d got %d", i, len(vs), len(g.Vals))
			}
			for j := range vs {
				sv := vs[j].(map[string]any)
				if !valEq(sv, g.Vals[j]) {
					return fmt.Sprintf("effect %d: probe arg %d: want %s, got %s", i, j, compactJSON(sv), showVal(g.Vals[j]))
				}
				if !v2 && g.Typs != nil && g.Typs[j] != kindDType(sv) {
					return fmt.Sprintf("effect %d: probe arg %d: want dtype %s, got %s (%s)", i, j, kindDType(sv), g.Typs[j], showVal(g.Vals[j]))
				}
			}
		case "printf":
			if specBytes(s["s"]) != g.K {
				return fmt.Sprintf("effect %d: printed %q, want %q", i, g.K, specBytes(s["s"]))
			}
		default:
			if s["k"] != g.K {
				return fmt.Sprintf("effect %d: %s key want %v got %s", i, g.Ev, s["k"], g.K)
			}
		}
	}
	return ""
}

// captureStdout runs f with os.Stdout redirected to a pipe (printf writes there).
func captureStdout(f func()) string {
	old := os.Stdout
	r, w, err := os.Pipe()
	if err != nil {
		f()
		return ""
	}
	os.Stdout = w
	done := make(chan string)
	go func() {
		var b bytes.Buffer
		_, _ = io.Copy(&b, r)
		done <- b.String()
	}()
	f()
	_ = w.Close()
	os.Stdout = old
	return <-done
}

func compactJSON2(v any) string {
	b, _ := json.Marshal(v)
	return string(b)
}

func compactJSON(v any) string {
	b, _ := json.Marshal(v)
	if len(b) > 300 {
		return string(b[:300]) + "..."
	}
	return string(b)
}

// ptDiff compares the real point with the spec's final point.
func ptDiff(spec map[string]any, pt *input.Point) string {
	if pt == nil {
		return ""
	}
	wantMeas, isStr := spec["meas"].(string)
	if !isStr {
		wantMeas = specBytes(spec["meas"]) // set by the script: a byte sequence
	}
	if wantMeas != pt.Measurement {
		return fmt.Sprintf("measurement want %q got %q", wantMeas, pt.Measurement)
	}
	if tm, ok := spec["time"]; ok {
		var j jI64
		remarshal(tm, &j)
		if w, ok := decI64(j); ok && pt.Time.UnixNano() != w {
			return fmt.Sprintf("time want %d ns got %d ns (%v)", w, pt.Time.UnixNano(), pt.Time.UTC())
		}
	}
	ks0, _ := spec["ks"].([]any)
	es0, _ := spec["es"].([]any)
	var ks, es []any
	for i := range ks0 { // a tag that was given "no value" is known to the index but is not part of the point
		if v, _ := es0[i].(map[string]any)["v"].(map[string]any); v["t"] == "notag" {
			if got, ok := pt.Tags[ks0[i].(string)]; ok {
				return fmt.Sprintf("tag %s: was given no value and must be gone, got %q", ks0[i], got)
			}
			continue
		}
		ks, es = append(ks, ks0[i]), append(es, es0[i])
	}
	if len(ks) != len(pt.Fields)+len(pt.Tags) {
		return fmt.Sprintf("keys: want %v, got fields=%v tags=%v", ks, pt.Fields, pt.Tags)
	}
	for i, k := range ks {
		e := es[i].(map[string]any)
		v := e["v"].(map[string]any)
		key := k.(string)
		if e["flag"] == "tag" {
			got, ok := pt.Tags[key]
			if !ok {
				return fmt.Sprintf("tag %s missing", key)
			}
			if v["t"] == "tagstr" {
				continue // string form of a value written into a tag: decided under C10/C11
			}
			if !valEq(v, got) {
				return fmt.Sprintf("tag %s: want %s got %q", key, compactJSON(v), got)
			}
			continue
		}
		got, ok := pt.Fields[key]
		if !ok {
			return fmt.Sprintf("field %s missing (fields=%v)", key, pt.Fields)
		}
		if v["t"] == "anystr" { // some text (a failure note): only its presence and type are demanded
			if _, ok := got.(string); !ok {
				return fmt.Sprintf("field %s: want a string, got %s", key, showVal(got))
			}
			continue
		}
		if v["t"] == "json" {
			d := compactJSON2(v["d"])
			if strings.Contains(d, `"cycle"`) || strings.Contains(d, `"c":"inf"`) || strings.Contains(d, `"c":"nan"`) {
				continue // no JSON text exists for cyclic structures and non-finite floats: what gets stored is not specified
			}
		}
		if v["t"] == "json" { // a list/map snapshot stored as JSON text: content must be the snapshot
			txt, ok := got.(string)
			if !ok {
				return fmt.Sprintf("field %s: want JSON text, got %s", key, showVal(got))
			}
			var parsed any
			dec := json.NewDecoder(bytes.NewReader([]byte(txt)))
			dec.UseNumber()
			if err := dec.Decode(&parsed); err != nil {
				return fmt.Sprintf("field %s: stored text is not JSON: %q", key, txt)
			}
			if !jsonMatches(v["d"].(map[string]any), parsed) {
				return fmt.Sprintf("field %s: snapshot want %s, stored %q", key, compactJSON(v["d"]), txt)
			}
			continue
		}
		if !valEq(v, got) {
			return fmt.Sprintf("field %s: want %s got %s", key, compactJSON(v), showVal(got))
		}
		if m, ok := pt.Meta[key]; !ok || m.DType != kindDType(v) {
			return fmt.Sprintf("field %s: index entry %v does not match %s", key, m, compactJSON(v))
		}
	}
	return ""
}

// jsonMatches: parsed JSON document equals the deep value (numbers by value).
func jsonMatches(s map[string]any, j any) bool {
	switch s["t"] {
	case "cycle":
		return true
	case "nil", "void":
		return j == nil
	case "bool":
		x, ok := j.(bool)
		return ok && x == s["b"].(bool)
	case "int":
		var ji jI64
		remarshal(s["i"], &ji)
		w, _ := decI64(ji)
		n, ok := j.(json.Number)
		return ok && n.String() == fmt.Sprint(w)
	case "float":
		var jf jF64
		remarshal(s["f"], &jf)
		w, ok1 := decF64(jf)
		n, ok := j.(json.Number)
		if !ok || !ok1 {
			return false
		}
		f, err := n.Float64()
		return err == nil && f == w
	case "str":
		x, ok := j.(string)
		return ok && x == specBytes(s["s"])
	case "list":
		x, ok := j.([]any)
		es, _ := s["e"].([]any)
		if !ok || len(x) != len(es) {
			return false
		}
		for i := range es {
			if !jsonMatches(es[i].(map[string]any), x[i]) {
				return false
			}
		}
		return true
	case "map":
		x, ok := j.(map[string]any)
		ks, _ := s["ks"].([]any)
		vs, _ := s["vs"].([]any)
		if !ok || len(x) != len(ks) {
			return false
		}
		for i := range ks {
			gv, ok := x[specBytes(ks[i])]
			if !ok || !jsonMatches(vs[i].(map[string]any), gv) {
				return false
			}
		}
		return true
	}
	return false
}

type spanTable map[string]map[int]span // script -> sid -> span

func spansOf(ps *progSet) spanTable {
	t := spanTable{}
	for name, text := range ps.Scripts {
		ss, err := parser.ParsePipeline(name, text)
		if err != nil {
			continue
		}
		_, sp := convScript(text, ss)
		t[name] = sp
	}
	return t
}

// errDiff: error-vs-success, and the chain: failing statement first, then each use() call site.
func errDiff(o *specOutcome, r runResult, ps *progSet, sp spanTable) string {
	if o.Status == "error" {
		if r.err == nil {
			return "want a run error (" + o.Err.Cls + "), got success"
		}
		ch := r.err.PosChain
		if len(ch) != len(o.Err.Chain) {
			return fmt.Sprintf("error chain length want %d (%v) got %d: %v", len(o.Err.Chain), o.Err.Chain, len(ch), r.err.Error())
		}
		for i, c := range o.Err.Chain {
			script, sid := c[0].(string), int(c[1].(float64))
			s := sp[script][sid]
			if ch[i].File != script {
				return fmt.Sprintf("chain entry %d names %q, want script %q (%v)", i, ch[i].File, script, r.err.Error())
			}
			src := ps.Scripts[script]
			if ch[i].Pos < s.Start || ch[i].Pos >= s.End || ch[i].Pos > len(src) {
				return fmt.Sprintf("chain entry %d position %d outside the statement at fault [%d,%d) of %q (%v)", i, ch[i].Pos, s.Start, s.End, script, r.err.Error())
			}
			ln, col := 1, 1
			for k := 0; k < ch[i].Pos; k++ {
				if src[k] == '\n' {
					ln++
					col = 1
				} else {
					col++
				}
			}
			if ch[i].Ln != ln || ch[i].Col != col {
				return fmt.Sprintf("chain entry %d: pos %d is %d:%d, reported %d:%d", i, ch[i].Pos, ln, col, ch[i].Ln, ch[i].Col)
			}
		}
		return ""
	}
	if r.err != nil {
		return "want success, got error: " + r.err.Error()
	}
	return ""
}

func isSubseq(s, i []int) bool {
	k := 0
	for _, x := range i {
		if k < len(s) && s[k] == x {
			k++
		}
	}
	return k == len(s)
}

// replay-machine <progsets.ndjson> <outcomes.ndjson> [-cancel]
// Every behaviour TLC explored is replayed through the real interpreter.  With -cancel the cancelled
// behaviours (signal fired before poll j) are replayed with a Signal answering true from the matching poll.
func replayMachine(args []string) (any, error) {
	progs := map[string]*progSet{}
	if err := readNDJSON(args[0], func(raw json.RawMessage) error {
		ps := &progSet{}
		if err := json.Unmarshal(raw, ps); err != nil {
			return err
		}
		progs[ps.ID] = ps
		return nil
	}); err != nil {
		return nil, err
	}
	byProg := map[string][]*specOutcome{}
	order := []string{}
	if err := readNDJSON(args[1], func(raw json.RawMessage) error {
		o := &specOutcome{}
		if err := json.Unmarshal(raw, o); err != nil {
			return err
		}
		if _, ok := byProg[o.ID]; !ok {
			order = append(order, o.ID)
		}
		byProg[o.ID] = append(byProg[o.ID], o)
		return nil
	}); err != nil {
		return nil, err
	}
	sum := &Summary{Extra: map[string]any{}}
	cancelRuns, hangs, nUnspec := 0, 0, 0
	for _, id := range order {
		ps := progs[id]
		if ps == nil {
			return nil, fmt.Errorf("outcome for unknown program %s", id)
		}
		outs := byProg[id]
		sp := spansOf(ps)
		miss := func(what string, detail map[string]any) {
			detail["scripts"] = ps.Scripts
			detail["pt"] = ps.Pt
			detail["v2"] = ps.V2
			detail["tag"] = ps.Tag
			curVec, _ = json.Marshal(map[string]any{"prog": ps, "outcomes": outs})
			sum.miss("machine:"+what+":"+progSig(ps), detail)
		}
		// uninterrupted reference outcomes (one per map order policy)
		var unint []*specOutcome
		var cancelled []*specOutcome
		for _, o := range outs {
			if o.FiredAt < 0 || !o.Seen {
				if o.FiredAt < 0 {
					unint = append(unint, o)
				}
			} else {
				cancelled = append(cancelled, o)
			}
		}
		sum.Evaluations++
		sum.Distinct++
		budget := 0
		terminating := len(unint) > 0 && unint[0].Status != "run"
		if !terminating {
			// the model ran `fuel` steps of a non-terminating program: give the implementation a poll budget that
			// covers every poll the model saw (the comparison is on the common prefix)
			budget = 400
			for _, o := range outs {
				if o.Polls+50 > budget {
					budget = o.Polls + 50
				}
			}
		}
		// the load and run below must not depend on what the process parsed / checked before (see plat.go)
		disturbParser()
		disturbChecker()
		base := runOnce(ps, 0, budget)
		if base.panicV != "" {
			miss("panic", map[string]any{"panic": base.panicV})
			continue
		}
		if base.hang {
			hangs++
			miss("hang", map[string]any{"hang": "uninterrupted run did not return within the watchdog"})
			if hangs > 3 {
				// the stuck runs keep spinning: stop the sweep here and report what was established (hangs are violations)
				sum.Extra["stopped_after_hangs"] = hangs
				sum.Extra["cancel_runs"] = cancelRuns
				sum.Extra["unspecified_by_model"] = nUnspec
				return sum, nil
			}
			continue
		}
		if base.loadErr != nil {
			miss("load", map[string]any{"load_error": base.loadErr.Error(), "note": "the spec expects this program to load"})
			continue
		}
		unspecified := false
		for _, o := range unint {
			if strings.HasPrefix(o.Err.Cls, "unspec") {
				unspecified = true
			}
		}
		if unspecified { // the model leaves this program's outcome open (an unmodelled engine / formatting): only "no crash" is demanded
			nUnspec++
			continue
		}
		var matched *specOutcome
		if terminating {
			why := []string{}
			for _, o := range unint {
				d := errDiff(o, base, ps, sp)
				if d == "" {
					d = logDiff(o.Log, base.obs.log, ps.V2)
				}
				if d == "" && !ps.V2 {
					d = ptDiff(o.Pt, base.pt)
				}
				if d == "" {
					matched = o
					break
				}
				why = append(why, "["+o.Mo+"] "+d)
			}
			if matched == nil {
				miss("result", map[string]any{"diff": why, "got_log": showLog(base.obs.log), "got_err": fmt.Sprint(base.err)})
				continue
			}
		}
		sum.sample(map[string]any{"id": ps.ID, "scripts": ps.Scripts, "polls": base.obs.polls, "effects": len(base.obs.log)})
		if len(cancelled) == 0 {
			continue
		}
		// cancellation: the spec's observation points must all exist in the implementation
		mo := "asc"
		if matched != nil {
			mo = matched.Mo
		}
		var S []int
		specAt := map[int]*specOutcome{}
		for _, o := range cancelled {
			if o.Mo != mo {
				continue
			}
			specAt[o.FiredAt] = o
		}
		fa := []int{}
		for k := range specAt {
			fa = append(fa, k)
		}
		sort.Ints(fa)
		for _, k := range fa {
			S = append(S, len(specAt[k].Log))
		}
		I := base.obs.atPoll
		if budget > 0 && len(I) > budget {
			I = I[:budget]
		}
		if !isSubseq(S, I) {
			miss("missing-poll", map[string]any{"spec_effects_at_polls": S, "impl_effects_at_polls": I,
				"note": "a statement/iteration boundary of the model has no poll in the implementation"})
			continue
		}
		// every poll of the implementation as the cancellation point
		npoll := len(I)
		stride := 1
		if npoll > 60 {
			stride = npoll / 60
		}
		bad := false
		for k := 1; k <= npoll && !bad; k += stride {
			r := runOnce(ps, k, 0)
			cancelRuns++
			switch {
			case r.panicV != "":
				miss("panic", map[string]any{"panic": r.panicV, "fire_at_poll": k})
				bad = true
			case r.hang:
				hangs++
				miss("cancel-hang", map[string]any{"fire_at_poll": k, "note": "run did not return after the signal fired"})
				bad = true
			case r.err != nil && !(matched != nil && matched.Status == "error" && I[k-1] == len(matched.Log)):
				miss("cancel-error", map[string]any{"fire_at_poll": k, "error": r.err.Error()})
				bad = true
			case len(r.obs.log) != I[k-1]:
				miss("cancel-late", map[string]any{"fire_at_poll": k, "effects_at_that_poll": I[k-1], "effects_performed": len(r.obs.log),
					"log": showLog(r.obs.log)})
				bad = true
			case !reflect.DeepEqual(showLog(r.obs.log), showLog(base.obs.log[:I[k-1]])):
				miss("cancel-prefix", map[string]any{"fire_at_poll": k, "log": showLog(r.obs.log), "uninterrupted": showLog(base.obs.log)})
				bad = true
			}
			if hangs > 3 {
				// the stuck runs keep spinning: stop the sweep here and report what was established (hangs are violations)
				sum.Extra["stopped_after_hangs"] = hangs
				sum.Extra["cancel_runs"] = cancelRuns
				sum.Extra["unspecified_by_model"] = nUnspec
				return sum, nil
			}
		}
		if bad {
			continue
		}
		// the spec's cancelled outcomes against the matching implementation poll
		pos := 0
		for _, k := range fa {
			o := specAt[k]
			for pos < len(I) && I[pos] != len(o.Log) {
				pos++
			}
			if pos >= len(I) {
				break
			}
			r := runOnce(ps, pos+1, 0)
			cancelRuns++
			d := ""
			if r.err != nil {
				d = "cancelled run returned an error: " + r.err.Error()
			} else if d = logDiff(o.Log, r.obs.log, ps.V2); d == "" && !ps.V2 {
				d = ptDiff(o.Pt, r.pt)
			}
			if d != "" {
				miss("cancel-result", map[string]any{"spec_fired_before_poll": k + 1, "impl_poll": pos + 1, "diff": d})
				break
			}
			pos++
		}
	}
	sum.Extra["cancel_runs"] = cancelRuns
	sum.Extra["unspecified_by_model"] = nUnspec
	return sum, nil
}

func showLog(l []effect) []string {
	out := []string{}
	for _, e := range l {
		if e.Ev == "probe" {
			vs := []string{}
			for _, v := range e.Vals {
				vs = append(vs, showVal(v))
			}
			out = append(out, "probe("+strings.Join(vs, ", ")+")")
		} else {
			out = append(out, e.Ev+"("+e.K+")")
		}
	}
	return out
}

func progSig(ps *progSet) string {
	names := []string{}
	for n := range ps.Scripts {
		names = append(names, n)
	}
	sort.Strings(names)
	var b strings.Builder
	for _, n := range names {
		b.WriteString(n + "=" + ps.Scripts[n] + ";")
	}
	s := b.String()
	if len(s) > 400 {
		s = s[:400]
	}
	return s
}

func init() { register("run-if-accepted", runIfAccepted) }

// run-if-accepted <programs.ndjson>: "a script accepted at load time never crashes the host" for programs around the boundary of
// acceptance. Every program is offered to the real loader; whatever the loader accepts - also what it should have rejected -
// is run (under the panic guard and the watchdog, the signal firing after a poll budget). A panic or a hang is reported.
// hostValues: Go values a host may put into a point's fields (the documented ones are int64, float64, bool, string, nil; the
// constructor also converts the other integer widths and float32).  Whatever the type, a script reading, converting, indexing,
// slicing, iterating, measuring or rewriting such a key must end with success or a script error.
type hostStruct struct{ A int }

var hostValues = []struct {
	name string
	mk   func() any
}{
	{"int", func() any { return int(7) }}, {"int8", func() any { return int8(-7) }}, {"int16", func() any { return int16(7) }}, {"int32", func() any { return int32(7) }},
	{"uint", func() any { return uint(7) }}, {"uint8", func() any { return uint8(200) }}, {"uint16", func() any { return uint16(7) }},
	{"uint32", func() any { return uint32(7) }}, {"uint64-max", func() any { return uint64(math.MaxUint64) }}, {"float32", func() any { return float32(1.5) }},
	{"[]byte", func() any { return []byte("raw 12") }}, {"[]byte-empty", func() any { return []byte{} }}, {"[]byte-nil", func() any { return []byte(nil) }},
	{"[]any", func() any { return []any{int64(1), "a"} }}, {"map[string]any", func() any { return map[string]any{"a": int64(1)} }},
	{"[]string", func() any { return []string{"a"} }}, {"map[string]string", func() any { return map[string]string{"a": "b"} }},
	{"time.Time", func() any { return fixedTime }}, {"duration", func() any { return time.Second }}, {"struct", func() any { return hostStruct{1} }},
	{"*struct", func() any { return &hostStruct{1} }}, {"*struct-nil", func() any { return (*hostStruct)(nil) }}, {"*string-nil", func() any { return (*string)(nil) }},
	{"json.Number", func() any { return json.Number("12") }}, {"error", func() any { return fmt.Errorf("e") }}, {"func", func() any { return func() {} }},
	{"chan", func() any { return make(chan int) }}, {"complex", func() any { return complex(1, 2) }}, {"rune-slice", func() any { return []rune("ab") }},
	{"NaN", func() any { return math.NaN() }}, {"+Inf", func() any { return math.Inf(1) }}, {"int64-min", func() any { return int64(math.MinInt64) }},
	{"string-invalid-utf8", func() any { return "a\xffb" }}, {"string-nul", func() any { return "a\x00b" }}, {"string-long", func() any { return strings.Repeat("ab ", 5000) }},
}

// host-typed-points <progsets.ndjson> [-every N]: every (v1) program of the file on its point with every field holding each host value
func hostTypedPoints(args []string) (any, error) {
	sum := &Summary{Extra: map[string]any{}}
	every := 1
	if len(args) > 2 && args[1] == "-every" {
		fmt.Sscan(args[2], &every)
	}
	hangs, runs, i := 0, 0, 0
	err := readNDJSON(args[0], func(raw json.RawMessage) error {
		var ps progSet
		if err := json.Unmarshal(raw, &ps); err != nil {
			return err
		}
		i++
		if ps.V2 || hangs > 3 || len(ps.Pt.Fields) == 0 {
			return nil
		}
		sum.Distinct++
		for hi, hv := range hostValues {
			if every > 1 && (i+hi)%every != 0 {
				continue
			}
			ps.hostVal = hv.mk
			sum.Evaluations++
			runs++
			res := runOnce(&ps, 1<<30, 400)
			switch {
			case res.panicV != "":
				sum.miss("host-typed-point-panic:"+hv.name+":"+ps.Scripts[ps.Main], map[string]any{"scripts": ps.Scripts, "field_type": hv.name, "panic": res.panicV})
			case res.hang:
				hangs++
				sum.miss("host-typed-point-hang:"+hv.name+":"+ps.Scripts[ps.Main], map[string]any{"scripts": ps.Scripts, "field_type": hv.name})
			}
		}
		return nil
	})
	sum.Extra["runs"] = runs
	sum.Extra["host_value_types"] = len(hostValues)
	sum.sample(map[string]any{"runs": runs, "host_value_types": len(hostValues)})
	return sum, err
}

func runIfAccepted(args []string) (any, error) {
	sum := &Summary{Extra: map[string]any{}}
	accepted, rejected := 0, 0
	hangs := 0
	err := readNDJSON(args[0], func(raw json.RawMessage) error {
		var ps progSet
		if err := json.Unmarshal(raw, &ps); err != nil {
			return err
		}
		if hangs > 3 {
			return nil
		}
		sum.Evaluations++
		disturbParser()
		res := runOnce(&ps, 0, 400)
		switch {
		case res.panicV != "":
			sum.miss("accepted-then-panic:"+ps.Scripts[ps.Main], map[string]any{"scripts": ps.Scripts, "v2": ps.V2, "panic": res.panicV})
			accepted++
		case res.hang:
			hangs++
			sum.miss("accepted-then-hang:"+ps.Scripts[ps.Main], map[string]any{"scripts": ps.Scripts, "v2": ps.V2})
			accepted++
		case res.loadErr != nil:
			rejected++
		default:
			accepted++
			sum.Distinct++
		}
		return nil
	})
	sum.Extra["accepted_and_run"] = accepted
	sum.Extra["rejected_at_load"] = rejected
	sum.sample(map[string]any{"accepted_and_run": accepted, "rejected_at_load": rejected})
	return sum, err
}
