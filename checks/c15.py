"""C15 — each run depends only on its script, its functions and its input point."""
import os

from lib import genhist, gen, vlib
from checks import machine
from checks.common import absorb, tlc_emit

LEVEL = "model_checking"


def run(ck):
    q = ck.tier == "quick"
    ops = genhist.gen_ops()
    import re
    spec_kinds = re.findall(r'"([a-z_0-9]+)"', re.search(r"Kinds == <<(.*?)>>", open(os.path.join(vlib.VERIF, "spec", "History.tla")).read(), re.S).group(1))
    if spec_kinds != [p["kind"] for p in ops]:
        raise vlib.Broken("History!Kinds and lib/genhist.py disagree: %s vs %s" % (spec_kinds, [p["kind"] for p in ops]))
    d = vlib.workdir("hist")
    opsf = os.path.join(d, "ops.ndjson")
    gen.write(opsf, ops)
    maxlen = 3 if q else 4
    cfg = "CONSTANTS NOps = %d\nMaxLen = %d\nSPECIFICATION Spec\nINVARIANTS NoStaleRead Emit\nCHECK_DEADLOCK FALSE\n" % (len(ops), maxlen)
    res, rows = tlc_emit(ck, "History", cfg, "History(%d ops, length <= %d)" % (len(ops), maxlen), timeout=1800)
    hf = os.path.join(d, "hist.ndjson")
    vlib.write_ndjson(hf, rows)
    r = vlib.vh_json(["replay-history", opsf, hf], timeout=3000)
    absorb(ck, r, "histories")
    ck.add("traces_validated_against_impl", len(rows))
    ck.note("operations_executed", r["extra"]["operations_executed"])
    # the run operations' answers themselves are the interpreter model's (semantic anchor of the references)
    runs = [dict(p) for p in ops if p["kind"].startswith("run_") and p["kind"] != "run_cancelled"]
    machine.run_family(ck, "history-ops", runs)
    cancelled = [dict(p) for p in ops if p["kind"] == "run_cancelled"]
    machine.run_family(ck, "history-ops-cancel", cancelled, with_signal=True)
    # unbounded: the pooled-object discipline as an inductive invariant (Apalache): histories of ANY length, not only <= MaxLen
    if not q:
        ck.note("apalache_inductive_NoStaleRead_s", vlib.apalache_inductive("HistoryInd"))
    ck.cov["exhaustive"] = True
    ck.cov["rule"] = ("all histories up to length %d over a pool of %d operations (run ok, syntax error at EOF / mid-expression, lexical "
                      "error, check failure, run failing inside nested loops with break/continue pending / inside an if body / in a loop condition "
                      "(each after assigning top-level variables, some shadowing point keys), run exiting inside a loop, run "
                      "cancelled at poll 7, run through use() with exit in the callee, run erroring after a builtin filled the return "
                      "register, run renaming/dropping keys (recycling index entries), parse with a rejected operand, a v2 run, a second "
                      "run reading every name and key earlier runs assigned) enumerated by TLC (pooled-object model: NoStaleRead); each history is executed "
                      "in one process pinned to one P with GC off (deterministic sync.Pool reuse) with pooled points, and every "
                      "operation's canonical result must equal the result of the same operation performed first in a fresh process. "
                      "In the thorough tier HistoryInd!IndInv (no stale read, dirty fields within the object) is established as an inductive invariant by "
                      "Apalache, i.e. for histories of any length over the operation classes. distinct = histories of length >= 2." % (maxlen, len(ops)))
    ck.assumptions += ["map iteration order is not compared (results are rendered with sorted keys)"]
