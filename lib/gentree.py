"""Tree generators for the Syntax specification (C06, C17): trees in the astconv JSON shape whose literals
carry their spelling (sp).  The trees here are WITHOUT the parentheses precedence requires - inserting
them is the specification's job (Syntax!Par)."""
import itertools
import random

BINOPS = ["||", "&&", "in", ">=", ">", "!=", "==", "<=", "<", "+", "-", "*", "/", "%"]
UNOPS = ["!", "-", "+"]


def ident(n):
    return {"k": "id", "n": n, "sp": n}


def _signed(d):
    """a signed numeric literal is two tokens (sign, magnitude): blanks may separate them, the literal starts at the sign"""
    neg = d["sp"].startswith(("-", "+"))
    d["negsp"] = neg
    d["sg"] = d["sp"][0] if neg else ""
    d["mag"] = d["sp"][1:] if neg else d["sp"]
    return d


def lit_int(v, sp=None):
    return _signed({"k": "int", "val": str(v), "sp": sp or str(v)})


def lit_float(sp):
    return _signed({"k": "float", "val": sp, "sp": sp})


def lit_str(b, sp=None):
    return {"k": "str", "s": list(b), "sp": sp or ('"' + b.decode() + '"'), "negsp": False}


def lit_bool(v, sp=None):
    return {"k": "bool", "b": v, "sp": sp or ("true" if v else "false"), "negsp": False}


NIL = {"k": "nil", "sp": "nil", "negsp": False}
NONE = {"k": "none"}


def binop(op, l, r):
    return {"k": "bin", "op": op, "l": l, "r": r}


def unop(op, e):
    return {"k": "un", "op": op, "e": e}


def paren(e):
    return {"k": "paren", "e": e}


def call(f, args, tc=False):
    return {"k": "call", "f": f, "as": args, "tc": bool(tc and args)}


def idx(n, ixs):
    return {"k": "idx", "n": n, "ho": True, "is": ixs}


def slc(o, s, e, st, c2):
    return {"k": "slice", "o": o, "s": s, "e": e, "st": st, "c2": c2}


def lst(es, tc=False):
    return {"k": "list", "es": es, "tc": bool(tc and es)}


def mp(ks, vs, tc=False):
    return {"k": "map", "ks": ks, "vs": vs, "tc": bool(tc and ks)}


def assign(op, ls, rs):
    return {"k": "assign", "op": op, "ls": ls, "rs": rs}


def ifs(cs, bs, eb=None):
    return {"k": "if", "cs": cs, "bs": bs, "he": eb is not None, "eb": eb or []}


def forst(i, c, p, b):
    return {"k": "for", "i": i, "c": c, "p": p, "b": b}


def forin(v, it, b):
    return {"k": "forin", "v": v, "it": it, "b": b}


def leaf(rng):
    r = rng.random()
    if r < 0.35:
        return ident(rng.choice(["a", "b", "xy", "_u1", "k9"]))
    if r < 0.5:
        return lit_int(rng.choice([1, 7, 42, 9223372036854775807]))
    if r < 0.58:
        v = rng.choice([1, 5, 30])
        return lit_int(-v, "-%d" % v)
    if r < 0.66:
        return lit_float(rng.choice(["1.5", "0.25", "2e3", "-0.5"]))
    if r < 0.74:
        return lit_str(rng.choice([b"", b"s", b"hi there"]))
    if r < 0.76:     # literals that span lines / contain multi-byte text: later tokens' line and column depend on them
        return rng.choice([lit_str(b"a\nb", '"""a\nb"""'), lit_str("é世".encode(), '"é世"'), lit_str(b"x\n\ny", "\'\'\'x\n\ny\'\'\'"),
                           lit_str(b"q", "'q'")])
    if r < 0.82:
        return lit_bool(rng.random() < 0.5, rng.choice([None, None, "TRUE", "False"]) if False else None)
    if r < 0.86:
        return dict(NIL)
    return ident("z")


def is_numlit(e):
    return e["k"] in ("int", "float")


def expr(rng, d):
    """A random expression tree (no parentheses except explicit redundant ones)."""
    r = rng.random()
    if d <= 0 or r < 0.2:
        return leaf(rng)
    if r < 0.55:
        return binop(rng.choice(BINOPS), expr(rng, d - 1), expr(rng, d - 1))
    if r < 0.65:
        e = expr(rng, d - 1)
        op = rng.choice(UNOPS)
        if op in "+-" and is_numlit(e):      # the parser folds a sign into a numeric literal: not a unary node
            e = ident("w")
        return unop(op, e)
    if r < 0.7:
        return paren(expr(rng, d - 1))        # a redundant pair of parentheses stays as an explicit paren node
    if r < 0.78:
        return call(rng.choice(["f", "len", "g_1"]), [expr(rng, d - 1) for _ in range(rng.randint(0, 3))])
    if r < 0.84:
        return idx(rng.choice(["a", "m"]), [expr(rng, d - 1) for _ in range(rng.randint(1, 3))])
    if r < 0.9:
        base = rng.choice([ident("a"), lit_str(b"abc"), lst([lit_int(1), lit_int(2)]), call("f", []),
                           slc(ident("q"), lit_int(1), NONE, NONE, False)])
        s = expr(rng, d - 1) if rng.random() < 0.6 else NONE
        e = expr(rng, d - 1) if rng.random() < 0.6 else NONE
        c2 = rng.random() < 0.6
        st = expr(rng, d - 1) if c2 and rng.random() < 0.6 else NONE
        for b in (s, e, st):
            pass
        def ok(b):      # the parser rejects float/list/string literals as slice bounds
            return b if b["k"] not in ("float", "list", "str") else lit_int(2)
        return slc(base, ok(s), ok(e), ok(st), c2)
    if r < 0.95:
        return lst([expr(rng, d - 1) for _ in range(rng.randint(0, 3))], tc=rng.random() < 0.3)
    n = rng.randint(0, 2)
    return mp([lit_str(b"k%d" % i) for i in range(n)], [expr(rng, d - 1) for _ in range(n)], tc=rng.random() < 0.3)


def block(rng, d, in_loop):
    return [stmt(rng, d - 1, in_loop) for _ in range(rng.randint(0, 3))]


def stmt(rng, d, in_loop=False):
    r = rng.random()
    if d <= 0 or r < 0.35:
        rr = rng.random()
        if rr < 0.5:
            tgt = rng.choice([ident("x"), ident("y"), idx("a", [lit_int(0)])])
            return assign(rng.choice(["=", "=", "+=", "-=", "*=", "/=", "%="]), [tgt], [expr(rng, 2)])
        if in_loop and rr < 0.6:
            return {"k": rng.choice(["break", "continue"])}
        e = expr(rng, 2)
        return e if e["k"] not in ("map",) else call("f", [e])     # a statement starting with { would be a block/map ambiguity
    if r < 0.6:
        n = rng.randint(1, 3)
        return ifs([cond(rng) for _ in range(n)], [block(rng, d, in_loop) for _ in range(n)],
                   block(rng, d, in_loop) if rng.random() < 0.5 else None)
    if r < 0.8:
        i = assign("=", [ident("i")], [lit_int(0)]) if rng.random() < 0.6 else NONE
        c = binop("<", ident("i"), lit_int(3)) if rng.random() < 0.6 else NONE
        p = assign("=", [ident("i")], [binop("+", ident("i"), lit_int(1))]) if rng.random() < 0.6 else NONE
        return forst(i, c, p, block(rng, d, True))
    it = rng.choice([ident("a"), lst([lit_int(1), lit_int(2)]), lit_str(b"ab"), call("f", [])])
    return forin(rng.choice(["v", "k"]), it, block(rng, d, True))


def cond(rng):
    e = expr(rng, 2)
    # `if x {` where x ends in an identifier followed by a block is fine; a map literal as condition is not generated
    return e if e["k"] != "map" else ident("c")


def gen_trees(quick, seed):
    rng = random.Random(seed)
    out = []
    n = 0

    def add(stmts, tag):
        nonlocal n
        n += 1
        out.append({"id": "t%d" % n, "stmts": stmts, "tag": tag})

    a, b, c = ident("a"), ident("b"), ident("c")
    # every ordered pair of binary operators in both nestings: each precedence/associativity cell
    for o1, o2 in itertools.product(BINOPS, BINOPS):
        add([binop(o1, binop(o2, a, b), c)], "operator pair, left nesting")
        add([binop(o1, a, binop(o2, b, c))], "operator pair, right nesting")
    for u in UNOPS:
        for o in BINOPS:
            add([unop(u, binop(o, a, b))], "unary over binary")
            add([binop(o, unop(u, a), b)], "binary over unary (left)")
            add([binop(o, a, unop(u, b))], "binary over unary (right)")
        for u2 in UNOPS:
            add([unop(u, unop(u2, a))], "unary chain")
        add([unop(u, call("f", [a]))], "unary over call")
        add([unop(u, idx("a", [b]))], "unary over index")
    for o in BINOPS:
        add([binop(o, lit_int(-1, "-1"), lit_int(-2, "-2"))], "signed literals as operands")
        add([binop(o, lit_int(2), lit_int(-1, "-1"))], "signed right operand")
    # every kind of left operand before every binary operator with an unsigned and a signed numeric right operand (whether a sign
    # belongs to the number or is the operator must not depend on what kind of token came before, nor on the blanks around it)
    lefts = [ident("a"), {"k": "id", "n": "q", "sp": "`q`"}, {"k": "id", "n": "a b", "sp": "`a b`"}, lit_str(b"s"), lit_str(b"q", "'q'"),
             lit_str(b"m", '"""m"""'), call("f", []), idx("a", [lit_int(0)]), paren(ident("a")), lit_bool(True), dict(NIL), lit_int(3), lit_float("1.5"),
             {"k": "attr", "parts": ["a", "b"]}, slc(ident("a"), lit_int(1), NONE, NONE, False)]
    for l in lefts:
        for o in BINOPS:
            add([assign("=", [ident("x")], [binop(o, l, lit_int(7))])], "left operand kind x operator x unsigned number")
            add([assign("=", [ident("x")], [binop(o, l, lit_int(-7, "-7"))])], "left operand kind x operator x signed number")
        add([call("f", [binop("-", l, lit_int(2)), binop("+", l, lit_float("0.5"))])], "left operand kind, as arguments")
        add([assign("=", [ident("x")], [idx("a", [binop("-", l, lit_int(1))])])], "left operand kind, inside an index")
    # a trailing comma before the closing bracket of a list / map literal, one line and spread over lines (the layouts do that)
    for es in ([lit_int(1)], [lit_int(1), lit_int(2)], [lst([lit_int(1)], tc=True), ident("a")]):
        add([assign("=", [ident("x")], [lst(es, tc=True)])], "list literal with a trailing comma")
        add([call("f", [lst(es, tc=True), lst(es)])], "list literal with a trailing comma as an argument")
    for args in ([ident("a")], [ident("a"), lit_int(1)], [ident("a"), assign("=", [ident("p")], [lit_int(1)])], [lst([lit_int(1)], tc=True)]):
        add([call("f", args, tc=True)], "call with a trailing comma")
        add([assign("=", [ident("x")], [call("g", [call("f", args, tc=True), lit_int(2)])])], "nested call with a trailing comma")
        add([ifs([call("f", args, tc=True)], [[call("h", args, tc=True)]])], "call with a trailing comma in a condition / block")
    add([assign("=", [ident("m")], [mp([lit_str(b"a"), lit_str(b"b")], [lit_int(1), lst([lit_int(2)], tc=True)], tc=True)])], "map literal with a trailing comma")
    # the 24 slice forms (12 shapes x identifier / other base)
    for base in (ident("a"), lit_str(b"abc"), call("f", []), lst([lit_int(1)])):
        for hs, he, c2, hst in itertools.product([0, 1], [0, 1], [0, 1], [0, 1]):
            if hst and not c2:
                continue
            add([assign("=", [ident("x")], [slc(base, lit_int(1) if hs else NONE, lit_int(3) if he else NONE,
                                                lit_int(2) if hst else NONE, bool(c2))])], "slice form")
    # statement forms
    for hi, hc, hp in itertools.product([0, 1], repeat=3):
        add([forst(assign("=", [ident("i")], [lit_int(0)]) if hi else NONE, binop("<", ident("i"), lit_int(3)) if hc else NONE,
                   assign("+=", [ident("i")], [lit_int(1)]) if hp else NONE, [call("f", [ident("i")]), {"k": "break"}])], "for shape")
    add([forin("v", ident("a"), [call("f", [ident("v")]), {"k": "continue"}])], "for-in")
    # for-in over every kind of expression that can stand after `in`: names, literals, calls, indexes, attribute chains, parentheses and
    # slices of each sliceable base in several slice forms
    its = [ident("a"), lst([lit_int(1), lit_int(2)]), lst([]), lit_str(b"ab"), call("f", []), call("f", [ident("a"), lit_int(1)]), idx("a", [lit_int(0)]),
           idx("a", [lit_int(0), lit_str(b"k")]), {"k": "attr", "parts": ["a", "b"]}, paren(ident("a")), mp([lit_str(b"k")], [lit_int(1)])]
    for base in [ident("a"), lit_str(b"abc"), lst([lit_int(1), lit_int(2)]), call("f", [])]:
        for (hs, he, hst, c2) in [(1, 0, 0, 0), (0, 1, 0, 0), (1, 1, 0, 0), (0, 0, 0, 0), (1, 1, 1, 1), (0, 0, 1, 1), (1, 0, 0, 1), (0, 1, 1, 1)]:
            its.append(slc(base, lit_int(1) if hs else NONE, lit_int(3) if he else NONE, lit_int(2) if hst else NONE, bool(c2)))
    its.append(paren(slc(ident("a"), lit_int(1), NONE, NONE, False)))
    its.append(slc(slc(ident("a"), lit_int(1), NONE, NONE, False), NONE, lit_int(2), NONE, False))
    for it in its:
        add([forin("v", it, [call("f", [ident("v")])])], "for-in over every kind of iterable expression")
    add([ifs([a], [[call("f", [])]]), ifs([a, b], [[], [call("g", [])]], []), ifs([a], [[]], [call("h", [])])], "if forms")
    add([call("f", [assign("=", [ident("p")], [lit_int(1)]), ]), call("f", [a, assign("=", [ident("q")], [binop("+", a, b)])])], "named arguments")
    add([{"k": "attr", "parts": ["a", "b", "c"]}, call("f", [{"k": "attr", "parts": ["a", "b"]}])], "attribute chains")
    add([assign("=", [ident("x")], [lit_bool(True, "TRUE")]), assign("=", [ident("y")], [dict(NIL, sp="NULL")]),
         assign("=", [ident("z")], [lit_bool(False, "False")]), assign("=", [ident("w")], [dict(NIL, sp="Nil")])], "keyword case")
    for k in range(60 if quick else 1500):
        add([stmt(rng, 3) for _ in range(rng.randint(1, 4))], "random program")
    for k in range(60 if quick else 1500):
        add([assign("=", [ident("r")], [expr(rng, 4)])], "random expression")
    return out
