------------------------------- MODULE LnCol -------------------------------
(* Offset -> (line, column) lookup (C17).                                   *)
(* Declarative definition LnColOf, an implementation-shaped scanning        *)
(* machine (one step per byte, like token.LnCol's loop and PosCache's line  *)
(* start table), and the invariant that they agree on every offset of every *)
(* text over {a, \n, 2-byte rune, 3-byte rune} up to MaxSyms symbols.       *)
EXTENDS Integers, Sequences, FiniteSets, TLC, Json

CONSTANT MaxSyms

Syms == {<<97>>, <<10>>, <<195, 169>>, <<228, 184, 150>>}

RECURSIVE Flat(_)
Flat(ss) == IF ss = <<>> THEN <<>> ELSE Head(ss) \o Flat(Tail(ss))

SymSeqs == UNION {[1..n -> Syms] : n \in 0..MaxSyms}
Texts == {Flat(ss) : ss \in SymSeqs}

NL == 10

(* ---- declarative ---- *)
NLsBefore(t, off) == Cardinality({i \in 1..off : t[i] = NL})
LastNL(t, off) ==
  LET S == {i \in 1..off : t[i] = NL}
  IN IF S = {} THEN 0 ELSE CHOOSE i \in S : \A j \in S : j <= i
Valid(t, off) == off >= 0 /\ off <= Len(t)
LnColOf(t, off) == <<1 + NLsBefore(t, off), off - LastNL(t, off) + 1>>

(* ---- scanning machine ---- *)
VARIABLES text, pos, ln, col, hist
vars == <<text, pos, ln, col, hist>>

Init == /\ text \in Texts
        /\ pos = 0 /\ ln = 1 /\ col = 1
        /\ hist = << <<1, 1>> >>

Scan == /\ pos < Len(text)
        /\ pos' = pos + 1
        /\ IF text[pos + 1] = NL
             THEN ln' = ln + 1 /\ col' = 1
             ELSE ln' = ln /\ col' = col + 1
        /\ hist' = Append(hist, <<ln', col'>>)
        /\ UNCHANGED text

Next == Scan
Spec == Init /\ [][Next]_vars

ScanAgrees == <<ln, col>> = LnColOf(text, pos)
ColPositive == ln >= 1 /\ col >= 1
LineStarts == (pos > 0 /\ text[pos] = NL) => col = 1
Monotone == [][ln' >= ln /\ (ln' = ln => col' = col + 1)]_vars

Emit == (pos = Len(text)) =>
          PrintT("@@" \o ToJson([text |-> text, lc |-> hist]))
=============================================================================
