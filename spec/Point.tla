-------------------------------- MODULE Point --------------------------------
(* The point and its key index (C10): input.Point's three structures        *)
(*   meta   : key -> [dt, flag]      (the index: DType and tag|field)       *)
(*   fields : key -> value           (int, float, bool, str, nil)           *)
(*   tags   : key -> string                                                 *)
(* with one operator per operation a builtin can issue (shaped like         *)
(* Point.Set / SetTag / Delete and funcs.renamePtKey / doCast), and the     *)
(* invariants that tie the index to the two maps.  The value domain is a    *)
(* small set of concrete representatives, closed under the operations, so   *)
(* TLC reaches the COMPLETE state space: the invariants hold after every    *)
(* operation sequence of any length over it.                                *)
(*                                                                          *)
(* rename is modelled as intended: the index entry moves with the value and *)
(* an existing destination is replaced, never duplicated.                   *)
EXTENDS Integers, Sequences, FiniteSets, TLC, Json

CONSTANTS Keys,        \* all keys in play
          InitField,   \* key that starts as an int field
          InitTag,     \* key that starts as a tag
          WithBoolCastOfNumbers, \* FALSE: cast(number,"bool") is left to C11 and not explored here
          Rich,        \* TRUE: larger argument value set
          SampleOneIn  \* replay sampling of non-canonical transitions (1 = all)

(* ------------------------------- values --------------------------------- *)
I(n) == [k |-> "int", n |-> n]
F(t) == [k |-> "float", t |-> t]          \* floats in tenths: F(15) is 1.5
B(b) == [k |-> "bool", b |-> b]
S(s) == [k |-> "str", s |-> s]
N == [k |-> "nil"]
L == [k |-> "list"]                       \* the list [1]
M == [k |-> "map"]                        \* the map {"a": 1}
V == [k |-> "void"]                       \* "no value": what an attribute expression such as a.b evaluates to
U == [k |-> "unconv"]                     \* a list with no text form (it holds an infinity): a field given it holds nil, a tag keeps its value

ArgValues == IF Rich THEN {I(7), F(15), B(TRUE), S("x"), S("12"), N, L, M, V, U}   \* what a script passes to add_key
             ELSE {I(7), F(15), B(TRUE), S("x"), N, L, V, U}

Tenths(t) == IF t % 10 = 0 THEN ToString(t \div 10)
             ELSE ToString(t \div 10) \o "." \o ToString(t % 10)
ToStr(v) == CASE v.k = "int" -> ToString(v.n)
              [] v.k = "float" -> Tenths(v.t)
              [] v.k = "bool" -> IF v.b THEN "true" ELSE "false"
              [] v.k = "str" -> v.s
              [] v.k \in {"nil", "void"} -> ""
              [] v.k = "list" -> "[1]"
              [] v.k = "map" -> "{\"a\":1}"

\* numeric reading of a string, in tenths (0 when it is not a number)
NumOf(s) == CASE s = "12" -> 120 [] s = "7" -> 70 [] s = "1.5" -> 15 [] s = "1" -> 10
              [] s = "0" -> 0 [] s = "120" -> 1200 [] OTHER -> 0
TrueStrs == {"1", "t", "T", "TRUE", "true", "True"}

CastTypes == {"int", "float", "str", "bool"}
CanCast(v, T) == T = "bool" /\ v.k \in {"int", "float"} => WithBoolCastOfNumbers
CastV(v, T) ==
  CASE T = "int" ->
         (CASE v.k = "int" -> v [] v.k = "float" -> I(v.t \div 10)
            [] v.k = "bool" -> I(IF v.b THEN 1 ELSE 0)
            [] v.k = "str" -> I(NumOf(v.s) \div 10) [] OTHER -> I(0))
    [] T = "float" ->
         (CASE v.k = "int" -> F(10 * v.n) [] v.k = "float" -> v
            [] v.k = "bool" -> F(IF v.b THEN 10 ELSE 0)
            [] v.k = "str" -> F(NumOf(v.s)) [] OTHER -> F(0))
    [] T = "str" -> S(ToStr(v))
    [] T = "bool" ->
         (CASE v.k = "bool" -> v [] v.k = "str" -> B(v.s \in TrueStrs)
            [] v.k = "int" -> B(v.n # 0) [] v.k = "float" -> B(v.t # 0) [] OTHER -> B(FALSE))

(* -------------------------------- state --------------------------------- *)
VARIABLES meta, fields, tags, meas, lastop
vars == <<meta, fields, tags, meas, lastop>>
view == <<meta, fields, tags, meas>>

Has(k) == k \in DOMAIN meta
Drop(f, k) == [x \in DOMAIN f \ {k} |-> f[x]]
Put(f, k, v) == [x \in DOMAIN f \cup {k} |-> IF x = k THEN v ELSE f[x]]

\* what a script (or Point.Get) reads for a key of the point
Get(k) == IF ~Has(k) THEN [k |-> "absent"]
          ELSE IF meta[k].dt = "nil" THEN N
          ELSE IF meta[k].flag = "field"
                 THEN (IF k \in DOMAIN fields THEN fields[k] ELSE N)
                 ELSE (IF k \in DOMAIN tags THEN S(tags[k]) ELSE N)

\* stored form of a value written to a field
Stored(v) == IF v.k \in {"list", "map"} THEN S(ToStr(v)) ELSE IF v.k \in {"void", "unconv"} THEN N ELSE v

\* Point.Set
SetP(k, v) ==
  IF Has(k) /\ meta[k].flag = "tag"
    THEN \* a tag given "no value" is gone from the point; the key stays known as a tag (a later write makes it a tag again)
         /\ tags' = (IF v.k = "void" THEN Drop(tags, k) ELSE IF v.k = "unconv" THEN tags ELSE Put(tags, k, ToStr(v)))
         /\ UNCHANGED <<meta, fields>>
    ELSE /\ fields' = Put(fields, k, Stored(v))
         /\ meta' = Put(meta, k, [dt |-> Stored(v).k, flag |-> "field"])
         /\ UNCHANGED tags

\* Point.SetTag
SetTagP(k, v) == /\ tags' = Put(tags, k, ToStr(v))
                 /\ fields' = Drop(fields, k)
                 /\ meta' = Put(meta, k, [dt |-> "str", flag |-> "tag"])

DeleteP(k) == /\ meta' = Drop(meta, k) /\ fields' = Drop(fields, k) /\ tags' = Drop(tags, k)

(* ------------------------- operations of builtins ----------------------- *)
Op(o, k, k2, v, T) == [o |-> o, k |-> k, k2 |-> k2, v |-> v, T |-> T]

AddKey(k, v) == SetP(k, v) /\ UNCHANGED meas /\ lastop' = Op("add_key", k, "", v, "")

\* set_tag(k, "lit")
SetTagLit(k, s) == SetTagP(k, S(s)) /\ UNCHANGED meas /\ lastop' = Op("set_tag_lit", k, "", S(s), "")
\* set_tag(k): move the key to the tags (an absent key becomes an empty tag)
SetTag1(k) == /\ SetTagP(k, IF Has(k) THEN Get(k) ELSE S(""))
              /\ UNCHANGED meas /\ lastop' = Op("set_tag", k, "", N, "")
\* set_tag(k, k2): value read from another key (absent reads nil)
SetTagFrom(k, k2) == /\ SetTagP(k, IF Has(k2) THEN Get(k2) ELSE N)
                     /\ UNCHANGED meas /\ lastop' = Op("set_tag_from", k, k2, N, "")

\* set_tag(k, <value without a string form>): an attribute expression (which has no value) or a list that cannot be
\* rendered (it holds an infinity).  The key still becomes a tag - an empty one - and stops being a field.
SetTagUnconv(k, how) == /\ SetTagP(k, S(""))
                        /\ UNCHANGED meas /\ lastop' = Op("set_tag_unconv", k, "", N, how)

DropKey(k) == /\ (IF Has(k) THEN DeleteP(k) ELSE UNCHANGED <<meta, fields, tags>>)
              /\ UNCHANGED meas /\ lastop' = Op("drop_key", k, "", N, "")

\* rename(to, from): value AND index entry move; an existing destination is replaced
Rename(to, from) ==
  /\ IF to = from \/ ~Has(from) THEN UNCHANGED <<meta, fields, tags>>
     ELSE /\ meta' = Put(Drop(Drop(meta, from), to), to, meta[from])
          /\ IF meta[from].flag = "field"
               THEN /\ fields' = (IF from \in DOMAIN fields
                                    THEN Put(Drop(Drop(fields, from), to), to, fields[from])
                                    ELSE Drop(Drop(fields, from), to))
                    /\ tags' = Drop(tags, to)
               ELSE /\ tags' = (IF from \in DOMAIN tags
                                  THEN Put(Drop(Drop(tags, from), to), to, tags[from])
                                  ELSE Drop(Drop(tags, from), to))
                    /\ fields' = Drop(fields, to)
  /\ UNCHANGED meas /\ lastop' = Op("rename", to, from, N, "")

Cast(k, T) == /\ Has(k) => CanCast(Get(k), T)
              /\ IF Has(k) THEN SetP(k, CastV(Get(k), T)) ELSE UNCHANGED <<meta, fields, tags>>
              /\ UNCHANGED meas /\ lastop' = Op("cast", k, "", N, T)

\* set_measurement(k, true): a string value becomes the measurement; the key is deleted either way
SetMeasDel(k) == /\ meas' = IF Has(k) /\ Get(k).k = "str" THEN Get(k).s ELSE meas
                 /\ (IF Has(k) THEN DeleteP(k) ELSE UNCHANGED <<meta, fields, tags>>)
                 /\ lastop' = Op("set_measurement", k, "", N, "")

Init == /\ meta = (InitField :> [dt |-> "int", flag |-> "field"]) @@ (InitTag :> [dt |-> "str", flag |-> "tag"])
        /\ fields = (InitField :> I(7))
        /\ tags = (InitTag :> "tv")
        /\ meas = "m0"
        /\ lastop = Op("init", "", "", N, "")

Next == \E k \in Keys :
          \/ \E v \in ArgValues : AddKey(k, v)
          \/ SetTagLit(k, "x") \/ SetTag1(k) \/ DropKey(k) \/ SetMeasDel(k)
          \/ \E how \in {"attr", "inflist"} : SetTagUnconv(k, how)
          \/ \E k2 \in Keys \ {k} : SetTagFrom(k, k2) \/ Rename(k, k2)
          \/ Rename(k, k)                 \* renaming a key onto itself (also through its alias) changes nothing
          \/ \E T \in CastTypes : Cast(k, T)
Spec == Init /\ [][Next]_vars

(* ------------------------------ invariants ------------------------------ *)
FieldKinds == {"int", "float", "bool", "str", "nil"}
IndexAgrees ==
  /\ DOMAIN fields \cup DOMAIN tags \subseteq DOMAIN meta
  /\ \A k \in DOMAIN meta \ (DOMAIN fields \cup DOMAIN tags) : meta[k].flag = "tag"      \* only a tag given "no value"
  /\ \A k \in DOMAIN fields : meta[k].flag = "field" /\ meta[k].dt = fields[k].k
  /\ \A k \in DOMAIN tags : meta[k].flag = "tag" /\ meta[k].dt = "str"
Disjoint == DOMAIN fields \cap DOMAIN tags = {}
FieldTypes == \A k \in DOMAIN fields : fields[k].k \in FieldKinds
ReadBack == \A k \in DOMAIN fields \cup DOMAIN tags :
              Get(k) = IF meta[k].flag = "field" THEN fields[k] ELSE S(tags[k])
NoPhantom == \A k \in Keys : ~Has(k) => Get(k).k = "absent"
\* every present key can be dropped, and renamed to any other name, taking its value along
Droppable == [][\A k \in Keys : lastop'.o = "drop_key" /\ lastop'.k = k =>
                  (k \notin DOMAIN meta' /\ k \notin DOMAIN fields' /\ k \notin DOMAIN tags')]_vars
Renamable == [][\A to, from \in Keys :
                  (lastop'.o = "rename" /\ lastop'.k = to /\ lastop'.k2 = from /\ to # from /\ from \in DOMAIN meta) =>
                    (from \notin DOMAIN meta' /\ to \in DOMAIN meta' /\ meta'[to] = meta[from])]_vars

\* Point refines its kind abstraction (PointKinds, against which executions over arbitrary values are validated)
PK == INSTANCE PointKinds WITH fieldk <- [x \in DOMAIN fields |-> fields[x].k], tagged <- DOMAIN tags
TagMetaStr == PK!TagMetaStr          \* the strengthening the inductive proof needed (spec/proofs/PointKindsProof) holds here too
KindsRefined == [][PK!Step(lastop'.o, lastop'.k, lastop'.k2, lastop'.v.k, lastop'.T)]_<<meta, fields, tags>>

StateRec == [meta |-> meta, fields |-> fields, tags |-> tags, meas |-> meas]
\* A transition is canonical when every key the operation does not name is a bystander in its initial
\* condition (or absent) and the measurement is still the initial one: these are all replayed; the others
\* (same operation on the same key state, different bystanders) are replayed as a 1-in-SampleOneIn sample.
Bystander(k) == \/ ~Has(k)
                \/ k = InitField /\ meta[k].flag = "field" /\ k \in DOMAIN fields /\ fields[k] = I(7)
                \/ k = InitTag /\ meta[k].flag = "tag" /\ k \in DOMAIN tags /\ tags[k] = "tv"
Canonical == /\ meas = "m0"
             /\ \A k \in Keys \ {lastop'.k, lastop'.k2} : Bystander(k)
\* one record per selected transition (ACTION_CONSTRAINT): pre-state, operation, post-state
EmitT == (Canonical \/ (SampleOneIn > 0 /\ RandomElement(1..SampleOneIn) = 1)) =>
         PrintT("@@" \o ToJson([s |-> StateRec, op |-> lastop',
                               d |-> [meta |-> meta', fields |-> fields', tags |-> tags', meas |-> meas']]))
=============================================================================
