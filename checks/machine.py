"""Shared driver for the interpreter properties: generate program sets -> real parser (ast-json) ->
TLC explores PlMachine over them (all cancellation points / map orders) -> every behaviour replayed."""
import json
import os

from lib import vlib
from checks.common import absorb

INVS = ("INVARIANTS Total ScopeDiscipline FlagsLocal CancelPrefix CancelQuiet CancelNoError Uninterrupted CancelPrompt Refines Emit")


def run_family(ck, label, progsets, with_signal=False, workers=None, timeout=2400, chunk=4000):
    """Returns the harness summary. Large families are processed in chunks (one TLC run each)."""
    d = vlib.workdir("mach")
    total = None
    for ci in range(0, len(progsets), chunk):
        part = progsets[ci:ci + chunk]
        tag = "%s-%d" % (label, ci // chunk)
        src = os.path.join(d, tag + ".src.ndjson")
        with open(src, "w") as fh:
            for p in part:
                fh.write(json.dumps(p) + "\n")
        trees = os.path.join(d, tag + ".trees.ndjson")
        info = vlib.vh_json(["ast-json", src, trees])
        if info["skipped"]:
            # a generated program the real parser rejects is a generator problem, not a verdict
            ck.cov.setdefault("generator_rejects", []).extend(info["skipped"][:5])
            if len(info["skipped"]) > 0.2 * len(part):
                raise vlib.Broken("%s: parser rejected %d of %d generated programs: %s"
                                  % (label, len(info["skipped"]), len(part), info["skipped"][:3]))
        cfg = "SPECIFICATION Spec\n%s\nCHECK_DEADLOCK FALSE\n" % INVS
        res = vlib.tlc("PlMachine", cfg, workers=workers or vlib.NCPU, timeout=timeout, xmx="24g",
                       env={"PROG_FILE": trees, "WITH_SIGNAL": "1" if with_signal else "0"})
        vlib.tlc_must_pass(res, "PlMachine over " + tag)
        ck.add_tlc(res, "PlMachine(%s)" % tag)
        rows = res.emitted()
        outp = os.path.join(d, tag + ".out.ndjson")
        vlib.write_ndjson(outp, rows)
        r = vlib.vh_json(["replay-machine", src, outp], timeout=3000)
        absorb(ck, r, tag, cmd=None)
        ck.add("traces_validated_against_impl", len(rows))
        if total is None:
            total = r
        else:
            total["evaluations"] += r["evaluations"]
            total["mismatches"] = (total.get("mismatches") or []) + (r.get("mismatches") or [])
    return total


RULES = {
    "ops": "every operator x every ordered pair of the operand table (nil, bools, ints incl. 0, +-1, +-2^53+-1, min/max int64, floats "
           "incl. 0.0, fractions, huge, inf, nan, strings, lists, maps), operands from literals / variables / point keys, compound "
           "assignments, unary operators, evaluation-order probes (pv) and depth-2 expression trees",
    "slices": "lists and strings of length 0..5 (and multi-byte strings) x start/end/step each omitted, small or at the int64 extremes; "
              "all slice spellings; error cases",
    "index": "index read / write / compound-write paths up to depth 2 (thorough: 3) over nested list/map shapes with in-range, negative, "
             "out-of-range and ill-typed keys; len and in",
    "alias": "fixed and random programs interleaving aliasing, mutation through aliases, slicing and add_key snapshots",
    "control": "if/elif/else over all truthiness classes, the 8 for shapes with break/continue, for-in over list/string/map/point "
               "values, nested loops, scoping programs, random nestings",
    "use": "call trees main -> b -> c with exit() / a run-time error / a failing add_key argument injected at every statement "
           "position, bare and inside branches and loops",
    "cancel": "loop-bearing programs (terminating and not, empty bodies, nested, through use(), both interpreters): TLC fires the "
              "signal at every point; every implementation poll is also used as the cancellation point",
    "errexpr": "a failing sub-expression (ill-typed operand, out-of-range / ill-typed / undefined subscript, zero step) in every "
               "expression position (unary, list/map element, index, slice object and bounds, both operands of every operator class incl. "
               "short-circuit, call argument), with evaluation-order probes around it: effects before happen, none after, error position",
    "errstmt": "the same failing sub-expressions in every statement position (for init/cond/post/body, for-in iterable/body, every "
               "if/elif condition, assignment and compound assignment right-hand sides and subscripts, call arguments), bare and in a "
               "script reached through use()",
    "v2coll": "the slice, index and aliasing families and the container operators (in, ==, != over lists/maps incl. nested and nil-holding "
              "ones) on the v2 interpreter",
    "builtins": "every field-manipulating builtin x argument shape x subject situation x value kind (the C11 family; here for 'never "
                "crashes, whatever a builtin meets')",
    "extract": "every catalogued subject of grok / default_time (layouts x zones, valid and invalid, repeated) / datetime / xml / sql_cover "
               "(the C12 family)",
    "hostile": "ill-typed and extreme operands in every operator / condition / iterable / element / index / slice-bound position, "
               "object-less index expressions, attribute expressions, overflowing ranges and steps",
    "v2shared": "the operator table (literal / variable operands, unary, trees), slices, indexing, control flow and aliasing "
                "families of the v1 checks run on the v2 interpreter (programs that call v1-only builtins left out)",
    "v2": "every value position holding a construct without value (void call, attribute expression, value-less probe) after an "
          "earlier expression; multi-assignment and multi-value calls; undefined names; random v2 programs",
}


def describe(ck, fams):
    ck.cov["rule"] = ("program texts are parsed by the real parser, TLC runs the PlMachine specification over the resulting trees "
                      "(invariants Total, ScopeDiscipline, FlagsLocal, Cancel*, Uninterrupted checked in every state) and every "
                      "behaviour it explores is replayed through the real interpreter comparing the ordered effect log (values and "
                      "types), the final point, error-vs-success and the error position chain. Families: "
                      + "; ".join("%s = %s" % (f, RULES[f]) for f in fams)
                      + ". distinct_nontrivial = distinct programs replayed.")
    ck.assumptions += ["trees come from the real parser (its conformance is C06/C07's subject)",
                       "mixed int/float equality beyond 2^53 and cyclic structures are left unspecified (not generated / not compared)",
                       "model values are exact: int64 wrap-around and IEEE doubles via limb arithmetic checked against the hardware"]
