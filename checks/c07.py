"""C07 — literals denote exactly the values they spell."""
import os

from lib import genlit, vlib
from checks.common import absorb

LEVEL = "model_checking"


def run(ck):
    q = ck.tier == "quick"
    rows = genlit.gen_literals(q, ck.seed)
    d = vlib.workdir("lit")
    src = os.path.join(d, "lit.ndjson")
    vlib.write_ndjson(src, rows)
    res = vlib.tlc("Literals", "SPECIFICATION Spec\nINVARIANT Emit\nCHECK_DEADLOCK FALSE\n", workers=vlib.NCPU, timeout=2400,
                   env={"LIT_FILE": src}, xmx="16g")
    vlib.tlc_must_pass(res, "Literals")
    ck.add_tlc(res, "Literals(%d spellings)" % len(rows))
    out = res.emitted()
    outp = os.path.join(d, "judged.ndjson")
    vlib.write_ndjson(outp, out)
    r = vlib.vh_json(["replay-literals", src, outp])
    absorb(ck, r, "literals")
    ck.add("traces_validated_against_impl", len(out))
    ck.note("not_applicable", r["extra"]["not_applicable"])
    ck.cov["rule"] = ("all quoted-string bodies up to %d symbols over {\", ', \\\\, newline, NUL, a, g, n, x, u, U, 0, 7, 8, 2- and 3-byte "
                      "runes} for both quote kinds, every escape form (valid and invalid variants) in several contexts and in pairs, "
                      "triple-quoted and back-quoted bodies, mixed triple quotes; integers at every power-of-two and power-of-ten "
                      "boundary (decimal, 0x, 0X, +-1), leading zeros, float spellings incl. round-to-even cases and random ones, each "
                      "with a leading sign. The TLA+ Unquote/NumberValue decides ok+value / invalid / not-applicable; the parser's "
                      "literal node must carry exactly that value (bit-exact for floats) or the text must be rejected." % (3 if q else 4))
    ck.assumptions += ["spellings that are not one literal (unescaped closing quote, raw newline, leading '.') and out-of-range decimal "
                       "exponents are judged not-applicable", "source texts are valid UTF-8"]
