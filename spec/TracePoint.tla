----------------------------- MODULE TracePoint ------------------------------
(* Trace validation for the point: each recorded builtin call (operation +  *)
(* full projected Meta/Fields/Tags/Measurement after it) must be the Point  *)
(* action of that name with those arguments, leading to exactly the logged  *)
(* state; Point's invariants are evaluated after every call.                *)
EXTENDS Point, IOUtils

Trace == ndJsonDeserialize(IOEnv.TRACE_FILE)

VARIABLE l
tvars == <<vars, l>>
Ev == Trace[l]

SameF(f, g) == DOMAIN f = DOMAIN g /\ \A x \in DOMAIN f : f[x] = g[x]
Post == /\ SameF(meta', Ev.post.meta) /\ SameF(fields', Ev.post.fields)
        /\ SameF(tags', Ev.post.tags) /\ meas' = Ev.post.meas

TraceInit == l = 1 /\ Init

Norm(f) == [x \in DOMAIN f |-> f[x]]
TReset == /\ l <= Len(Trace) /\ Ev.op.o = "init" /\ l' = l + 1
          /\ meta' = Norm(Ev.post.meta) /\ fields' = Norm(Ev.post.fields) /\ tags' = Norm(Ev.post.tags)
          /\ meas' = Ev.post.meas /\ lastop' = Op("init", "", "", N, "")

TOp == /\ l <= Len(Trace) /\ l' = l + 1
       /\ LET o == Ev.op IN
            CASE o.o = "add_key" -> AddKey(o.k, o.v)
              [] o.o = "set_tag_lit" -> SetTagLit(o.k, o.v.s)
              [] o.o = "set_tag" -> SetTag1(o.k)
              [] o.o = "set_tag_from" -> SetTagFrom(o.k, o.k2)
              [] o.o = "set_tag_unconv" -> SetTagUnconv(o.k, o.T)
              [] o.o = "drop_key" -> DropKey(o.k)
              [] o.o = "rename" -> Rename(o.k, o.k2)
              [] o.o = "cast" -> Cast(o.k, o.T)
              [] o.o = "set_measurement" -> SetMeasDel(o.k)
              [] OTHER -> FALSE
       /\ Post

TraceNext == TReset \/ TOp
TraceSpec == TraceInit /\ [][TraceNext]_tvars

ASSUME TLCSet(1, 0)
HighWater == TLCSet(1, IF l > TLCGet(1) THEN l ELSE TLCGet(1))
Accepted == IF TLCGet(1) = Len(Trace) + 1 THEN TRUE
            ELSE /\ PrintT("@@" \o ToJson([reject |-> TLCGet(1), line |-> Trace[TLCGet(1)]]))
                 /\ FALSE
=============================================================================
