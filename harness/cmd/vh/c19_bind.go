package main

import (
	"encoding/json"
	"fmt"
	"reflect"
	"strings"

	"github.com/GuanceCloud/platypus/pkg/ast"
	"github.com/GuanceCloud/platypus/pkg/engine"
	"github.com/GuanceCloud/platypus/pkg/engine/runtimev2"
	"github.com/GuanceCloud/platypus/pkg/errchain"
	"github.com/GuanceCloud/platypus/pkg/token"
)

func init() {
	register("replay-bindsig", replayBindSig)
	register("replay-bind", replayBind)
	register("replay-paramname", replayParamName)
}

// concrete spellings of ParamName's character classes: several per class, with different UTF-8 lengths and lead bytes
var nameClassChars = map[string][]string{
	"L":  {"a", "Z", "q"},
	"U":  {"_"},
	"D":  {"0", "7", "9"},
	"uL": {"\u00e9", "\u05d0", "\u03b1", "\u4e16", "\U0001d400", "\u00df", "\u0416", "\u00c0", "\u00aa"},
	"uD": {"\u0663", "\uff13", "\u0967", "\U0001d7d8"},
	"uS": {"\u00d7", "\u00a1", "\u20ac", "\u2026", "\u00a0", "\u00f7", "\u3000", "\U0001f600", "\u00b2", "\u00bd"},
	"P":  {"-", ".", "$", "@", "\"", "("},
	"S":  {" ", "\t"},
}

// replay-paramname: every name of the ParamName model, each class spelled with every representative in rotation, goes through
// CheckFnParamDef as the only parameter of a list (and as the second parameter after a plain one).
func replayParamName(args []string) (any, error) {
	sum := &Summary{}
	err := readNDJSON(args[0], func(raw json.RawMessage) error {
		var v struct {
			Name  []string `json:"name"`
			Valid bool     `json:"valid"`
		}
		if err := json.Unmarshal(raw, &v); err != nil {
			return err
		}
		sum.Distinct++
		rounds := 1
		for _, c := range v.Name {
			if n := len(nameClassChars[c]); n > rounds {
				rounds = n
			}
		}
		seen := map[string]bool{}
		for r := 0; r < rounds; r++ {
			for shift := 0; shift < 2; shift++ { // second pass: later positions rotate faster, so that pairs of representatives vary
				var b strings.Builder
				for i, c := range v.Name {
					reps := nameClassChars[c]
					b.WriteString(reps[(r+i*shift*(r+1))%len(reps)])
				}
				name := b.String()
				if seen[name] {
					continue
				}
				seen[name] = true
				for pos := 0; pos < 2; pos++ {
					ps := []*runtimev2.Param{{Name: name}}
					if pos == 1 {
						ps = []*runtimev2.Param{{Name: "first"}, {Name: name}}
					}
					sum.Evaluations++
					err := runtimev2.CheckFnParamDef(ps)
					if (err == nil) != v.Valid {
						sum.miss(fmt.Sprintf("paramname:%q:pos%d", name, pos), map[string]any{"name": name, "classes": v.Name, "want_valid": v.Valid, "got_err": fmt.Sprint(err)})
					}
				}
			}
		}
		sum.sample(map[string]any{"classes": v.Name, "valid": v.Valid})
		return nil
	})
	return sum, err
}

type specParam struct {
	Name string `json:"name"`
	Kind string `json:"kind"`
}

func mkParams(ps []specParam) []*runtimev2.Param {
	out := make([]*runtimev2.Param, len(ps))
	for i, p := range ps {
		q := &runtimev2.Param{Name: p.Name}
		if p.Name == "uni" { // placeholder for a one-letter non-ASCII name (see BindSig.tla)
			q.Name = "é"
		}
		switch p.Kind {
		case "opt":
			d := fmt.Sprintf("def%d", i+1)
			q.Val = func() any { return d }
		case "var":
			q.Variable = true
		case "varopt": // both marks at once: variadic and given a default
			q.Variable = true
			q.Val = func() any { return []any{} }
		}
		out[i] = q
	}
	return out
}

func sigText(ps []specParam) string {
	parts := []string{}
	for _, p := range ps {
		parts = append(parts, fmt.Sprintf("%s:%q", p.Kind, p.Name))
	}
	return "(" + strings.Join(parts, ",") + ")"
}

func replayBindSig(args []string) (any, error) {
	sum := &Summary{}
	err := readNDJSON(args[0], func(raw json.RawMessage) error {
		var v struct {
			Params []specParam `json:"params"`
			Valid  bool        `json:"valid"`
		}
		if err := json.Unmarshal(raw, &v); err != nil {
			return err
		}
		sum.Evaluations++
		sum.Distinct++
		err := runtimev2.CheckFnParamDef(mkParams(v.Params))
		if (err == nil) != v.Valid {
			sum.miss("bindsig:"+sigText(v.Params), map[string]any{"params": v.Params, "want_valid": v.Valid, "got_err": fmt.Sprint(err)})
		}
		sum.sample(map[string]any{"params": sigText(v.Params), "valid": v.Valid})
		return nil
	})
	return sum, err
}

func replayBind(args []string) (any, error) {
	sum := &Summary{}
	err := readNDJSON(args[0], func(raw json.RawMessage) error {
		var v struct {
			Params []specParam `json:"params"`
			Args   []struct {
				Named bool   `json:"named"`
				Name  string `json:"name"`
			} `json:"args"`
			Accepted bool     `json:"accepted"`
			Binding  [][]any  `json:"binding"`
			Kinds    []string `json:"kinds"`
		}
		if err := json.Unmarshal(raw, &v); err != nil {
			return err
		}
		sum.Evaluations++
		params := mkParams(v.Params)
		if e := runtimev2.CheckFnParamDef(params); e != nil {
			sum.miss("bind-sig:"+sigText(v.Params), map[string]any{"params": v.Params, "unexpected_invalid": e.Error()})
			return nil
		}
		for variant := 0; variant < 2; variant++ { // variant 1: every second argument is the literal nil (a given nil is still given)
			parts := []string{}
			npos := 0
			argLit := func(k int) string { // the literal of argument k (1-based): kind by position, value carries k
				if variant == 1 && k%2 == 0 {
					return "nil"
				}
				switch k % 5 {
				case 1:
					return fmt.Sprint(k)
				case 2:
					return fmt.Sprintf("\"s%d\"", k)
				case 3:
					return fmt.Sprintf("%d.5", k)
				case 4:
					return "true"
				}
				return fmt.Sprintf("[%d]", k)
			}
			argVal := func(k int) any {
				if variant == 1 && k%2 == 0 {
					return nil
				}
				switch k % 5 {
				case 1:
					return int64(k)
				case 2:
					return fmt.Sprintf("s%d", k)
				case 3:
					return float64(k) + 0.5
				case 4:
					return true
				}
				return []any{int64(k)}
			}
			for k, a := range v.Args {
				if a.Named {
					parts = append(parts, fmt.Sprintf("%s=%s", a.Name, argLit(k+1)))
				} else {
					parts = append(parts, argLit(k+1))
					npos++
				}
			}
			// the call is judged wherever it is written: as a statement, as a positional argument, as the value of a named
			// argument, inside a list in a named argument, two levels down, in a condition (contexts rotate over the cases)
			call := "f(" + strings.Join(parts, ", ") + ")"
			ctxs := []string{"%s", "w(%s)", "w(v = %s)", "w(v = [%s])", "w(1, v = w(v = %s))", "if %s == 0 {\n}", "x = [%s]", "w(a = 1, v = %s)"}
			text := fmt.Sprintf(ctxs[(sum.Evaluations+variant)%len(ctxs)], call)
			sig := "bind:" + sigText(v.Params) + text
			var got []any
			var getErr *errchain.PlError
			type getterErr struct {
				getter string
				param  int
				err    *errchain.PlError
			}
			var getterErrs []getterErr
			typed := map[string][]bool{} // getter -> success per parameter
			fn := map[string]*runtimev2.Fn{"f": {
				CallCheck: func(ctx *runtimev2.Task, e *ast.CallExpr) *errchain.PlError {
					return runtimev2.CheckPassParam(ctx, e, params)
				},
				Call: func(ctx *runtimev2.Task, e *ast.CallExpr) *errchain.PlError {
					for i := range params {
						x, err := runtimev2.GetParam(ctx, e, params, i)
						if err != nil {
							getErr = err
							return err
						}
						got = append(got, x)
						_, e1 := runtimev2.GetParamInt(ctx, e, params, i)
						_, e2 := runtimev2.GetParamFloat(ctx, e, params, i)
						_, e3 := runtimev2.GetParamBool(ctx, e, params, i)
						_, e4 := runtimev2.GetParamString(ctx, e, params, i)
						_, e5 := runtimev2.GetParamList(ctx, e, params, i)
						_, e6 := runtimev2.GetParamMap(ctx, e, params, i)
						for g, ee := range map[string]*errchain.PlError{"int": e1, "float": e2, "bool": e3, "str": e4, "list": e5, "map": e6} {
							typed[g] = append(typed[g], ee == nil)
							if ee != nil {
								getterErrs = append(getterErrs, getterErr{g, i, ee})
							}
						}
					}
					ctx.Regs.ReturnAppend(runtimev2.V{V: int64(0), T: ast.Int})
					return nil
				},
			}}
			wparams := []*runtimev2.Param{{Name: "a", Val: func() any { return int64(0) }}, {Name: "v", Val: func() any { return int64(0) }}}
			fn["w"] = &runtimev2.Fn{
				CallCheck: func(ctx *runtimev2.Task, e *ast.CallExpr) *errchain.PlError {
					return runtimev2.CheckPassParam(ctx, e, wparams)
				},
				Call: func(ctx *runtimev2.Task, e *ast.CallExpr) *errchain.PlError {
					for i := range wparams {
						if _, err := runtimev2.GetParam(ctx, e, wparams, i); err != nil {
							return err
						}
					}
					ctx.Regs.ReturnAppend(runtimev2.V{V: int64(0), T: ast.Int})
					return nil
				},
			}
			sc, lerr := engine.ParseV2("s.p", text, fn)
			if (lerr == nil) != v.Accepted {
				sum.miss(sig, map[string]any{"params": v.Params, "call": text, "want_accepted": v.Accepted, "load_err": fmt.Sprint(lerr)})
				return nil
			}
			if v.Accepted {
				sum.Distinct++
				// checking a loaded script again (Script.Check is the host's API) accepts it again and changes nothing about the binding
				if sum.Evaluations%2 == 0 {
					if e := sc.Check(); e != nil {
						sum.miss(sig+":recheck", map[string]any{"params": v.Params, "call": text, "second_check": e.Error()})
						return nil
					}
				}
				rerr := sc.Run(nil)
				want := []any{}
				for i, b := range v.Binding {
					switch b[0].(string) {
					case "arg":
						want = append(want, argVal(int(b[1].(float64))))
					case "default":
						want = append(want, fmt.Sprintf("def%d", i+1))
					case "rest":
						rest := []any{}
						for k := int(b[1].(float64)); k <= npos; k++ {
							rest = append(rest, argVal(k))
						}
						want = append(want, rest)
					}
				}
				norm := func(xs []any) []any {
					out := make([]any, len(xs))
					for i, x := range xs {
						if s, ok := x.([]any); ok && len(s) == 0 {
							out[i] = []any{}
						} else {
							out[i] = x
						}
					}
					return out
				}
				// a typed getter that refuses the bound value reports a position inside the call (also when the value is a default the
				// script did not write), with the line and column of that offset (C17)
				cs := strings.Index(text, call)
				for _, ge := range getterErrs {
					if len(ge.err.PosChain) == 0 {
						sum.miss(sig+":getter-pos:"+ge.getter, map[string]any{"call": text, "param": ge.param, "problem": "getter error without a position"})
						break
					}
					q := ge.err.PosChain[0]
					ln, col, _ := token.LnCol(text, token.Pos(q.Pos))
					if q.Pos < cs || q.Pos >= cs+len(call) || q.Ln != ln || q.Col != col || q.File != "s.p" {
						sum.miss(sig+":getter-pos:"+ge.getter, map[string]any{"call": text, "param": ge.param, "params": v.Params, "reported": fmt.Sprintf("%s:%d:%d (offset %d)", q.File, q.Ln, q.Col, q.Pos),
							"problem": fmt.Sprintf("the getter's error must lie inside the call, offsets %d..%d", cs, cs+len(call)-1)})
						break
					}
				}
				if rerr != nil || getErr != nil || !reflect.DeepEqual(norm(got), norm(want)) {
					sum.miss(sig, map[string]any{"params": v.Params, "call": text, "want": fmt.Sprint(want), "got": fmt.Sprint(got), "run_err": fmt.Sprint(rerr)})
				} else if variant == 0 {
					for i, kind := range v.Kinds {
						for g, oks := range typed {
							wantOK := kind == g
							if kind == "rest" {
								wantOK = g == "list" // a variadic tail is a list (nil when empty: only the list getter is checked loosely)
								if g != "list" || len(got[i].([]any)) == 0 {
									continue
								}
							}
							if i < len(oks) && oks[i] != wantOK {
								sum.miss(sig+":getter:"+g, map[string]any{"params": v.Params, "call": text, "param": i, "bound_kind": kind, "getter": g,
									"want_success": wantOK, "got_success": oks[i]})
							}
						}
					}
				}
			}
			if variant == 0 {
				sum.sample(map[string]any{"params": sigText(v.Params), "call": text, "accepted": v.Accepted, "binding": v.Binding})
			}
		}
		return nil
	})
	nestedVariadic(sum)
	freshDefaults(sum)
	return sum, err
}

// freshDefaults: an omitted optional parameter takes its declared default on every call - also when the default is a list or a map
// and an earlier call's value was changed in place afterwards (by the script, or by the callee), and although the parameter list was
// validated once at registration (CheckFnParamDef) on the very Param objects used for binding.
func freshDefaults(sum *Summary) {
	mk := func(def func() any) *runtimev2.Fn {
		ps := []*runtimev2.Param{{Name: "a"}, {Name: "opts", Val: def}}
		if err := runtimev2.CheckFnParamDef(ps); err != nil {
			sum.miss("bind-defaults:sig", map[string]any{"problem": err.Error()})
		}
		return &runtimev2.Fn{
			CallCheck: func(ctx *runtimev2.Task, e *ast.CallExpr) *errchain.PlError {
				return runtimev2.CheckPassParam(ctx, e, ps)
			},
			Call: func(ctx *runtimev2.Task, e *ast.CallExpr) *errchain.PlError {
				if _, err := runtimev2.GetParam(ctx, e, ps, 0); err != nil {
					return err
				}
				x, err := runtimev2.GetParam(ctx, e, ps, 1)
				if err != nil {
					return err
				}
				t := ast.Map
				if _, ok := x.([]any); ok {
					t = ast.List
				}
				ctx.Regs.ReturnAppend(runtimev2.V{V: x, T: t})
				return nil
			},
		}
	}
	var seen []string
	showPs := []*runtimev2.Param{{Name: "xs", Variable: true}}
	fns := map[string]*runtimev2.Fn{
		"fm": mk(func() any { return map[string]any{} }),
		"fl": mk(func() any { return []any{int64(0)} }),
		"show": {
			CallCheck: func(ctx *runtimev2.Task, e *ast.CallExpr) *errchain.PlError {
				return runtimev2.CheckPassParam(ctx, e, showPs)
			},
			Call: func(ctx *runtimev2.Task, e *ast.CallExpr) *errchain.PlError {
				xs, err := runtimev2.GetParam(ctx, e, showPs, 0)
				if err != nil {
					return err
				}
				for _, v := range xs.([]any) {
					seen = append(seen, showVal(v))
				}
				return nil
			},
		},
	}
	text := `m = fm(1)
m["k"] = 9
n = fm(2)
o = fm(3, opts={"x": 1})
p = fm(4)
show(m, n, o, p)
l = fl(1)
l[0] = 5
l2 = fl(2)
for i = 0; i < 2; i = i + 1 {
q = fm(i)
show(q)
q["i"] = i
}
show(l, l2)`
	sum.Evaluations++
	sc, err := engine.ParseV2("defaults.p", text, fns)
	if err != nil {
		sum.miss("bind-defaults:load", map[string]any{"script": text, "load_err": err.Error()})
		return
	}
	if e := sc.Run(nil); e != nil {
		sum.miss("bind-defaults:run", map[string]any{"script": text, "run_err": e.Error()})
		return
	}
	want := []string{showVal(map[string]any{"k": int64(9)}), showVal(map[string]any{}), showVal(map[string]any{"x": int64(1)}), showVal(map[string]any{}),
		showVal(map[string]any{}), showVal(map[string]any{}), showVal([]any{int64(5)}), showVal([]any{int64(0)})}
	if fmt.Sprint(seen) != fmt.Sprint(want) {
		sum.miss("bind-defaults", map[string]any{"script": text, "want": want, "got": seen,
			"note": "every call that omits the parameter gets the declared default, untouched by what happened to an earlier call's value"})
	}
}

// nestedVariadic: calls nested inside the variadic tail of other calls, after earlier calls in the same run. A trailing variadic
// parameter receives all remaining positional arguments in order - also when evaluating one of them runs another variadic call
// (of the same or another function), whatever ran before. The expected bindings follow from evaluating arguments left to right.
func nestedVariadic(sum *Summary) {
	var got [][]any
	params := []*runtimev2.Param{{Name: "xs", Variable: true}}
	pfx := []*runtimev2.Param{{Name: "a"}, {Name: "xs", Variable: true}}
	mk := func(ps []*runtimev2.Param) *runtimev2.Fn {
		return &runtimev2.Fn{
			CallCheck: func(ctx *runtimev2.Task, e *ast.CallExpr) *errchain.PlError {
				return runtimev2.CheckPassParam(ctx, e, ps)
			},
			Call: func(ctx *runtimev2.Task, e *ast.CallExpr) *errchain.PlError {
				var rec []any
				total := int64(0)
				for i := range ps {
					x, err := runtimev2.GetParam(ctx, e, ps, i)
					if err != nil {
						return err
					}
					if l, ok := x.([]any); ok {
						rec = append(rec, append([]any{}, l...)...)
						for _, y := range l {
							if n, ok := y.(int64); ok {
								total += n
							}
						}
					} else {
						rec = append(rec, x)
						if n, ok := x.(int64); ok {
							total += n
						}
					}
				}
				got = append(got, rec)
				ctx.Regs.ReturnAppend(runtimev2.V{V: total, T: ast.Int})
				return nil
			},
		}
	}
	fns := map[string]*runtimev2.Fn{"sum": mk(params), "psum": mk(pfx)}
	text := "r1 = sum(1, 2, 3)\nr2 = sum(1, sum(7, 8), 3)\nr3 = sum(sum(1), sum(2, sum(3, 4)), 5)\nr4 = psum(1, 2, psum(3, 4, 5), sum(), 6)\nfor i = 0; i < 2; i = i + 1 {\nr5 = sum(i, sum(10, i), sum(i, sum(i, 20)))\n}"
	want := [][]any{{1, 2, 3}, {7, 8}, {1, 15, 3}, {1}, {3, 4}, {2, 7}, {1, 9, 5}, {3, 4, 5}, {}, {1, 2, 12, 0, 6},
		{10, 0}, {0, 20}, {0, 20}, {0, 10, 20}, {10, 1}, {1, 20}, {1, 21}, {1, 11, 22}}
	sum.Evaluations++
	sc, err := engine.ParseV2("nested.p", text, fns)
	if err != nil {
		sum.miss("bind-nested:load", map[string]any{"script": text, "load_err": err.Error()})
		return
	}
	if e := sc.Run(nil); e != nil {
		sum.miss("bind-nested:run", map[string]any{"script": text, "run_err": e.Error()})
		return
	}
	norm := func(xs [][]any) string {
		var b strings.Builder
		for _, r := range xs {
			b.WriteString("[")
			for _, v := range r {
				fmt.Fprintf(&b, "%v ", v)
			}
			b.WriteString("]")
		}
		return b.String()
	}
	if norm(got) != norm(want) {
		sum.miss("bind-nested:bindings", map[string]any{"script": text, "want": norm(want), "got": norm(got)})
	}
}
