"""C19 — v2 call arguments bind to the declared parameters or the call is rejected."""
from checks.common import replay, tlc_emit

LEVEL = "model_checking"


def run(ck):
    q = ck.tier == "quick"
    mp = 3 if q else 4
    cfg = "CONSTANTS MaxParams = %d\nSPECIFICATION Spec\nINVARIANTS ScanAgrees Emit\nCHECK_DEADLOCK FALSE\n" % mp
    res, rows = tlc_emit(ck, "BindSig", cfg, "BindSig(<=%d params)" % mp, timeout=1200)
    replay(ck, "replay-bindsig", rows, "signatures")
    # parameter names as sequences of character classes (letters / digits are Unicode categories of whole characters)
    cfgn = "CONSTANTS MaxLen = %d\nSPECIFICATION Spec\nINVARIANTS ScanAgrees Emit\nCHECK_DEADLOCK FALSE\n" % (3 if q else 4)
    resn, rowsn = tlc_emit(ck, "ParamName", cfgn, "ParamName(<=%d characters)" % (3 if q else 4), timeout=900)
    replay(ck, "replay-paramname", rowsn, "parameter names")
    mp, ma = (3, 3) if q else (4, 5)
    cfg = ("CONSTANTS MaxParams = %d\nMaxArgs = %d\nSPECIFICATION Spec\nINVARIANTS MachineAgrees Laws Emit\n"
           "CHECK_DEADLOCK FALSE\n") % (mp, ma)
    res, rows = tlc_emit(ck, "Bind", cfg, "Bind(<=%d params, <=%d args)" % (mp, ma), timeout=2400, xmx="24g")
    replay(ck, "replay-bind", rows, "bindings")
    ck.cov["traces_validated_against_impl"] = len(rows)
    ck.cov["exhaustive"] = True
    ck.cov["rule"] = ("every parameter list (kinds req/opt/variadic, names incl. duplicates, a non-ASCII letter and invalid "
                      "identifiers) up to the bound goes through CheckFnParamDef; every (valid signature, call shape) behaviour "
                      "of the binding machine - TLC checks it equals the declarative Bind - is one engine.ParseV2 + Run with a "
                      "probe function reading every parameter through GetParam; every parameter name made of up to 3 (thorough 4) characters over the classes ASCII letter / "
                      "underscore / ASCII digit / non-ASCII letter / non-ASCII digit / non-ASCII sign or space / ASCII punctuation / blank (each class spelled with several characters of different "
                      "UTF-8 lengths and lead bytes) is judged by CheckFnParamDef against the ParamName model; distinct_nontrivial = accepted bindings + signatures")
    ck.assumptions += ["argument k carries the value k; defaults are distinguishable strings"]
