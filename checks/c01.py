"""C01 — decided by PlMachine/PlExpr (TLA+) over generated program families: hostile,control,builtins,extract,use."""
import os

from lib import gen, vlib
from checks import machine
from checks.common import absorb

LEVEL = "model_checking"
FAMILIES = "hostile,control,builtins,extract,use".split(",")   # use: call trees (callees failing / exiting at every position)


def run(ck):
    q = ck.tier == "quick"
    for fam in FAMILIES:
        progs = getattr(gen, "gen_" + fam)(q, ck.seed)
        machine.run_family(ck, fam, progs, with_signal=(fam == "cancel"))
        ck.cov.setdefault("families", {})[fam] = len(progs)
    machine.describe(ck, FAMILIES)
    # the boundary of acceptance: every program of the load-time family (valid constructs and offenders in every position, C08's
    # inputs) is offered to the real loader; whatever it accepts is run and must not crash or hang
    d = vlib.workdir("acc")
    src = os.path.join(d, "boundary.ndjson")
    progs = gen.gen_check(q, ck.seed)
    gen.write(src, progs)
    r = vlib.vh_json(["run-if-accepted", src], timeout=1800)
    absorb(ck, r, "accepted-then-run")
    ck.note("boundary_programs", r["extra"])
    # input points of every value type a host can put into a field (not only the documented ones): the builtin and extraction
    # programs, each on its point with every field holding each of the host values
    hp = os.path.join(d, "hostpoints.ndjson")
    hprogs = [p for p in gen.gen_builtins(True, ck.seed) + gen.gen_extract(True, ck.seed) + gen.gen_hostile(True, ck.seed) if not p.get("v2")]
    gen.write(hp, hprogs)
    r = vlib.vh_json(["host-typed-points", hp] + (["-every", "4"] if q else []), timeout=2400)
    absorb(ck, r, "host-typed-points")
    ck.note("host_typed_points", r["extra"])
    # a host runs scripts from many goroutines: freshly written scripts whose builtins meet patterns, formats and zones no script of
    # the process used before are loaded and first run several at a time - the process must survive (the Go runtime aborts on
    # unsynchronised shared tables), and every first run gives what the script gives alone
    r = vlib.vh_json(["cold-runs", "-n", "800" if q else "6000", "-g", "16"], timeout=1800)
    absorb(ck, r, "concurrent-first-runs")
    ck.cov["rule"] += (" In addition every program of the load-time checking family (offenders and valid constructs in every position, both "
                       "interpreters) is offered to the real loader and, if the loader accepts it, run under the panic guard: a script "
                       "the loader lets through must not crash the host either. "
                       "Finally the builtin, extraction and hostile-operand programs run on input points whose fields hold Go values of every kind a "
                       "host could supply (all integer widths, float32, []byte, slices, maps, time, structs, nil pointers, functions, "
                       "channels, NaN, invalid UTF-8, long strings): no panic, no hang. Freshly written scripts (unique patterns, formats, zones in every "
                       "builtin) are loaded and first run 16 at a time: no crash, and each first run equals the run alone.")
