---------------------------------- MODULE F64 ----------------------------------
(* IEEE-754 binary64 on top of BigNat: finite values are neg * man * 2^exp    *)
(* with man odd (or zero), plus inf and nan.  Every operation computes the   *)
(* exact result and rounds it once to 53 bits, ties to even.  Results below  *)
(* the normal range are "unspec" (vectors with such results are dropped).    *)
EXTENDS I64

FFin(neg, man, exp) == [c |-> "fin", neg |-> neg, man |-> man, exp |-> exp]
FZero(neg) == FFin(neg, <<>>, 0)
FInf(neg) == [c |-> "inf", neg |-> neg, man |-> <<>>, exp |-> 0]
FNaN == [c |-> "nan", neg |-> FALSE, man |-> <<>>, exp |-> 0]
FUnspec == [c |-> "unspec", neg |-> FALSE, man |-> <<>>, exp |-> 0]
FIsZero(a) == a.c = "fin" /\ a.man = <<>>

FNorm(neg, man, exp) == IF man = <<>> THEN FZero(neg)
                        ELSE LET tz == BnTz(man) IN FFin(neg, BnShr(man, tz), exp + tz)
FRange(f) == IF f.man = <<>> THEN f
             ELSE LET top == BnBitLen(f.man) + f.exp
                  IN IF top > 1024 THEN FInf(f.neg)
                     ELSE IF top - 1 < -1022 THEN FUnspec
                     ELSE f
\* exact value neg * man * 2^exp (+ a non-zero tail below the last bit when sticky) -> nearest double.
\* Callers guarantee BnBitLen(man) >= 55 whenever sticky.
FRound(neg, man, exp, sticky) ==
  IF man = <<>> THEN (IF sticky THEN FUnspec ELSE FZero(neg))
  ELSE LET bl == BnBitLen(man) IN
       IF bl <= 53 THEN FRange(FNorm(neg, man, exp))
       ELSE LET sh == bl - 53
                q == BnShr(man, sh)
                half == BnBit(man, sh - 1)
                rest == sticky \/ BnLow(man, sh - 1) # <<>>
                up == half = 1 /\ (rest \/ BnIsOdd(q))
                q2 == IF up THEN BnAdd(q, <<1>>) ELSE q
            IN FRange(FNorm(neg, q2, exp + sh))

FFromI64(i) == FRound(i.neg, i.mag, 0, FALSE)
FFromBool(b) == IF b THEN FFin(FALSE, <<1>>, 0) ELSE FZero(FALSE)
FNeg(a) == IF a.c = "nan" THEN a ELSE [a EXCEPT !.neg = ~a.neg]

FAdd(a, b) ==
  IF a.c = "unspec" \/ b.c = "unspec" THEN FUnspec
  ELSE IF a.c = "nan" \/ b.c = "nan" THEN FNaN
  ELSE IF a.c = "inf" THEN (IF b.c = "inf" /\ a.neg # b.neg THEN FNaN ELSE a)
  ELSE IF b.c = "inf" THEN b
  ELSE IF FIsZero(a) /\ FIsZero(b) THEN FZero(a.neg /\ b.neg)
  ELSE IF FIsZero(a) THEN b
  ELSE IF FIsZero(b) THEN a
  ELSE LET e == Min(a.exp, b.exp)
           s == SAdd(a.neg, BnShl(a.man, a.exp - e), b.neg, BnShl(b.man, b.exp - e))
       IN IF s.mag = <<>> THEN FZero(FALSE) ELSE FRound(s.neg, s.mag, e, FALSE)
FSub(a, b) == FAdd(a, FNeg(b))

FMul(a, b) ==
  IF a.c = "unspec" \/ b.c = "unspec" THEN FUnspec
  ELSE IF a.c = "nan" \/ b.c = "nan" THEN FNaN
  ELSE IF a.c = "inf" \/ b.c = "inf"
         THEN (IF FIsZero(a) \/ FIsZero(b) THEN FNaN ELSE FInf(a.neg # b.neg))
  ELSE IF FIsZero(a) \/ FIsZero(b) THEN FZero(a.neg # b.neg)
  ELSE FRound(a.neg # b.neg, BnMul(a.man, b.man), a.exp + b.exp, FALSE)

\* b is not zero (the language reports division by zero before dividing)
FDiv(a, b) ==
  IF a.c = "unspec" \/ b.c = "unspec" THEN FUnspec
  ELSE IF a.c = "nan" \/ b.c = "nan" THEN FNaN
  ELSE IF a.c = "inf" THEN (IF b.c = "inf" THEN FNaN ELSE FInf(a.neg # b.neg))
  ELSE IF b.c = "inf" THEN FZero(a.neg # b.neg)
  ELSE IF FIsZero(a) THEN FZero(a.neg # b.neg)
  ELSE LET s == Max(0, 56 + BnBitLen(b.man) - BnBitLen(a.man))
           qr == BnDivMod(BnShl(a.man, s), b.man)
       IN FRound(a.neg # b.neg, qr[1], a.exp - b.exp - s, qr[2] # <<>>)

\* "lt" | "eq" | "gt" | "un" (unordered: a NaN is involved)
FCmpFin(a, b) ==
  IF FIsZero(a) /\ FIsZero(b) THEN "eq"
  ELSE IF FIsZero(a) THEN (IF b.neg THEN "gt" ELSE "lt")
  ELSE IF FIsZero(b) THEN (IF a.neg THEN "lt" ELSE "gt")
  ELSE IF a.neg /\ ~b.neg THEN "lt"
  ELSE IF ~a.neg /\ b.neg THEN "gt"
  ELSE LET e == Min(a.exp, b.exp)
           c == BnCmp(BnShl(a.man, a.exp - e), BnShl(b.man, b.exp - e))
           d == IF a.neg THEN 0 - c ELSE c
       IN IF d < 0 THEN "lt" ELSE IF d > 0 THEN "gt" ELSE "eq"
FCmp(a, b) ==
  IF a.c = "nan" \/ b.c = "nan" THEN "un"
  ELSE IF a.c = "inf" /\ b.c = "inf" THEN (IF a.neg = b.neg THEN "eq" ELSE IF a.neg THEN "lt" ELSE "gt")
  ELSE IF a.c = "inf" THEN (IF a.neg THEN "lt" ELSE "gt")
  ELSE IF b.c = "inf" THEN (IF b.neg THEN "gt" ELSE "lt")
  ELSE FCmpFin(a, b)

\* decimal literal: digits (most significant first, all of integer and fraction part) * 10^e10 -> nearest double
FFromDecimal(neg, ds, e10) ==
  LET m == BnFromDec(ds) IN
    IF m = <<>> THEN FZero(neg)
    ELSE IF e10 >= 0 THEN FRound(neg, BnMul(m, BnPow10(e10)), 0, FALSE)
    ELSE LET d == BnPow10(0 - e10)
             s == Max(0, 56 + BnBitLen(d) - BnBitLen(m))
             qr == BnDivMod(BnShl(m, s), d)
         IN FRound(neg, qr[1], 0 - s, qr[2] # <<>>)
=============================================================================
