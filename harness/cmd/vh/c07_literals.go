package main

import (
	"encoding/json"
	"fmt"

	"github.com/GuanceCloud/platypus/pkg/ast"
	"github.com/GuanceCloud/platypus/pkg/parser"
)

// literalNeighbours: statements placed before the judged literal in the same text (every second case has none)
var literalNeighbours = []struct {
	text string
	n    int
}{{"", 0}, {"w = 0x1f\n", 1}, {"", 0}, {"w = \"s\\n\\x41\"\n", 1}, {"", 0}, {"w = 1.5e3\nw2 = 0XFF\n", 2}, {"", 0}, {"w = [0xff, 'q', `id`, 007]\n", 1},
	{"", 0}, {"w = '''m\nl'''\n", 1}, {"", 0}, {"w = 9223372036854775808\n", 1}, {"", 0}, {"w = inf\nw3 = nan\n", 2}, {"", 0}, {"w = true\nw4 = nil\n", 2}}

func init() { register("replay-literals", replayLiterals) }

// replay-literals <rows.ndjson> <judgements.ndjson>
func replayLiterals(args []string) (any, error) {
	type row struct {
		ID   string `json:"id"`
		Kind string `json:"kind"`
		Src  []int  `json:"src"`
		Tag  string `json:"tag"`
	}
	rows := map[string]row{}
	if err := readNDJSON(args[0], func(raw json.RawMessage) error {
		var r row
		if err := json.Unmarshal(raw, &r); err != nil {
			return err
		}
		rows[r.ID] = r
		return nil
	}); err != nil {
		return nil, err
	}
	sum := &Summary{Extra: map[string]any{}}
	na := 0
	err := readNDJSON(args[1], func(raw json.RawMessage) error {
		var j struct {
			ID string `json:"id"`
			J  struct {
				V     string `json:"v"`
				B     bool   `json:"b"`
				Bytes []int  `json:"bytes"`
				I     jI64   `json:"i"`
				F     jF64   `json:"f"`
			} `json:"j"`
		}
		if err := json.Unmarshal(raw, &j); err != nil {
			return err
		}
		r := rows[j.ID]
		if j.J.V == "na" {
			na++
			return nil
		}
		body := bytesOf(r.Src)
		var spelled string
		switch r.Kind {
		case "dq":
			spelled = `"` + body + `"`
		case "sq":
			spelled = `'` + body + `'`
		case "tdq":
			spelled = `"""` + body + `"""`
		case "tsq":
			spelled = `'''` + body + `'''`
		case "bq":
			spelled = "`" + body + "`"
		default:
			spelled = body
		}
		variants := []string{""}
		if r.Kind == "num" && j.J.V != "invalid" {
			variants = []string{"", "-", "+"}
		}
		for _, sign := range variants {
			// a literal denotes its value wherever it stands: alone in its text, or after other literals of every kind in the same text
			nb := literalNeighbours[sum.Evaluations%len(literalNeighbours)]
			src := nb.text + "x = " + sign + spelled
			sum.Evaluations++
			disturbParser()
			ss, perr := parser.ParsePipeline("l.p", src)
			sig := fmt.Sprintf("literal:%s:%q", r.Kind, sign+spelled)
			detail := map[string]any{"source": src, "kind": r.Kind, "want": j.J.V, "tag": r.Tag}
			if j.J.V == "invalid" {
				if perr == nil {
					detail["problem"] = "a malformed spelling was accepted"
					if len(ss) == 1 {
						detail["parsed_as"] = ss[0].String()
					}
					sum.miss(sig, detail)
				}
				continue
			}
			if perr != nil {
				detail["problem"] = "a well-formed literal was rejected: " + perr.Error()
				sum.miss(sig, detail)
				continue
			}
			wantStmts := 1 + nb.n
			if len(ss) != wantStmts || ss[len(ss)-1].NodeType != ast.TypeAssignmentExpr || len(ss[len(ss)-1].AssignmentExpr().RHS) != 1 {
				detail["problem"] = fmt.Sprintf("parsed as %d statements (want %d) / the last is not an assignment", len(ss), wantStmts)
				sum.miss(sig, detail)
				continue
			}
			rhs := ss[len(ss)-1].AssignmentExpr().RHS[0]
			switch j.J.V {
			case "ok":
				want := bytesOf(j.J.Bytes)
				var got string
				okKind := false
				if r.Kind == "bq" {
					if rhs.NodeType == ast.TypeIdentifier {
						got, okKind = rhs.Identifier().Name, true
					}
				} else if rhs.NodeType == ast.TypeStringLiteral {
					got, okKind = rhs.StringLiteral().Val, true
				}
				if !okKind || got != want {
					detail["problem"] = fmt.Sprintf("denotes %q, parsed %s %q", want, rhs.NodeType, got)
					sum.miss(sig, detail)
				}
			case "bool":
				if rhs.NodeType != ast.TypeBoolLiteral || rhs.BoolLiteral().Val != j.J.B {
					detail["problem"] = fmt.Sprintf("denotes the boolean %v, parsed %s %s", j.J.B, rhs.NodeType, rhs)
					sum.miss(sig, detail)
				}
			case "nil":
				if rhs.NodeType != ast.TypeNilLiteral {
					detail["problem"] = fmt.Sprintf("denotes nil, parsed %s %s", rhs.NodeType, rhs)
					sum.miss(sig, detail)
				}
			case "ident":
				if rhs.NodeType != ast.TypeIdentifier || rhs.Identifier().Name != body {
					detail["problem"] = fmt.Sprintf("is an identifier, parsed %s %s", rhs.NodeType, rhs)
					sum.miss(sig, detail)
				}
			case "int":
				w, _ := decI64(j.J.I)
				if sign == "-" {
					w = -w
				}
				if rhs.NodeType != ast.TypeIntegerLiteral || rhs.IntegerLiteral().Val != w {
					detail["problem"] = fmt.Sprintf("denotes the integer %d, parsed %s %s", w, rhs.NodeType, rhs)
					sum.miss(sig, detail)
				}
			case "float":
				w, _ := decF64(j.J.F)
				if sign == "-" {
					w = -w
				}
				if rhs.NodeType != ast.TypeFloatLiteral || !sameF(rhs.FloatLiteral().Val, w) {
					detail["problem"] = fmt.Sprintf("denotes the float %v, parsed %s %s", w, rhs.NodeType, rhs)
					sum.miss(sig, detail)
				}
			}
		}
		sum.Distinct++
		sum.sample(map[string]any{"spelling": spelled, "judgement": j.J.V})
		return nil
	})
	sum.Extra["not_applicable"] = na
	return sum, err
}
