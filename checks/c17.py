"""C17 — every reported position designates the right place in the source."""
from checks.common import replay, tlc_emit
from checks import c06, machine
from lib import gen

LEVEL = "model_checking"


def run(ck):
    q = ck.tier == "quick"
    # (a) offset -> line/column: scanning machine == declarative definition, all texts/offsets
    n = 5 if q else 7
    cfg = "CONSTANT MaxSyms = %d\nSPECIFICATION Spec\nINVARIANTS ScanAgrees ColPositive LineStarts Emit\nPROPERTY Monotone\nCHECK_DEADLOCK FALSE\n" % n
    res, rows = tlc_emit(ck, "LnCol", cfg, "LnCol(MaxSyms=%d)" % n)
    replay(ck, "replay-lncol", rows, "lncol")
    # (d) error chains: append / copy independence / rendering / JSON
    m = 6 if q else 7      # 4 x 9^(m-1) states, each emitted and replayed (m = 8 with two messages: 19 M, beyond the JVM heap)
    cfg = ("CONSTANTS MaxOps = %d\n"
           "SPECIFICATION Spec\nINVARIANTS NonEmpty InnermostFirst Emit\nPROPERTIES CopyIndependent OrigIndependent\n"
           "CHECK_DEADLOCK FALSE\n") % m
    res, rows = tlc_emit(ck, "ErrChain", cfg, "ErrChain(MaxOps=%d)" % m)
    replay(ck, "replay-errchain", rows, "errchain")
    ck.cov["traces_validated_against_impl"] = ck.cov.get("traces_validated_against_impl", 0) + len(rows)
    # (b) every position field of every node = the offset of the token the Syntax spec designates, in every layout
    c06.run_syntax(ck, "tree-positions")
    # (c) run-time error positions: script name + a position inside the statement at fault, for every chain entry
    progs = [p for p in gen.gen_use(q, ck.seed) if ":fail" in p["id"] or p["id"].startswith("use:first")]
    # run-time faults of every hostile-operand kind: a spread over the whole family (not its head), and every program whose fault sits at a
    # slice bound next to an OMITTED bound (the position must be the faulting operand's, there is no neighbour to borrow one from)
    hostile = gen.gen_hostile(True, ck.seed)
    progs += hostile[:: (6 if q else 1)] + [p for p in hostile if any(x in p["scripts"]["main.p"] for x in ("[:", "::", ":]"))][: (400 if q else 4000)]
    machine.run_family(ck, "error-positions", progs)
    # (e) load-time link errors: the root cause and every use() call site on the way out, for all script sets of the Loader spec
    scripts, mc = ('{"a","b","c"}', 2)
    cfg = ("CONSTANTS Scripts = %s\nMissing = \"zz\"\nMaxCalls = %d\nRelink = FALSE\nSPECIFICATION Spec\nINVARIANTS ChainShape Emit\n"
           "CHECK_DEADLOCK FALSE\n") % (scripts, mc)
    res, rows = tlc_emit(ck, "Loader", cfg, "Loader(%s,calls<=%d)" % (scripts, mc), timeout=1700, xmx="24g")
    replay(ck, "replay-loader", rows, "link-error-positions")
    # (f) parse diagnostics: the position of every syntax error lies in the source and its line/column is that offset's, for
    #     malformed texts, random token sequences - and for degenerate texts that are the first thing a fresh parser object sees
    from lib import vlib
    r = vlib.vh_json(["parse-total", "-seed", str(ck.seed), "-n", "1500" if q else "20000"], timeout=1500)
    from checks.common import absorb
    absorb(ck, r, "diagnostic-positions")
    # (g) v2 typed parameter getters: a getter that refuses the bound value (an argument, or a default the script did not write)
    #     reports a position inside the call - every behaviour of the Bind machine within small bounds
    cfg = ("CONSTANTS MaxParams = 2\nMaxArgs = 2\nSPECIFICATION Spec\nINVARIANTS MachineAgrees Laws Emit\nCHECK_DEADLOCK FALSE\n")
    res, rows = tlc_emit(ck, "Bind", cfg, "Bind(<=2 params, <=2 args)", timeout=900)
    replay(ck, "replay-bind", rows, "v2-getter-positions")
    ck.cov["exhaustive"] = False
    ck.cov["rule"] = ("(a,d) every state of the TLC-explored scanning machine (all texts <= MaxSyms symbols over "
                      "{a,\\n,2-byte,3-byte rune} x every offset -1..len+1) and every behaviour of the ErrChain "
                      "machine is one call sequence into the real code; (b) every tree of the Syntax spec in several layouts: each position "
                      "field must be the offset of the token the spec designates, with consistent line/column; (c) programs with a "
                      "run-time fault at every position of a use() call tree and hostile atoms: every chain entry names the right "
                      "script and lies inside the statement at fault; (e) every script set x visit order of the Loader spec (call i of a script sits "
                      "at line i, column 2i-1): a rejected root's chain is the root cause followed by exactly the call sites on the "
                      "path, each with its own script, line and column; (f) syntax-error positions of malformed / random texts, warm and on a parser object that has never parsed before. distinct = distinct texts / op sequences / trees / programs")
    ck.assumptions += ["TLC/SANY 1.8.0 and CommunityModules Json are trusted", "bounds: see rule"]
