"""C06 — expressions group by the documented precedence; layout never matters (also feeds C17 positions)."""
import json
import os

from lib import gentree, vlib
from checks.common import absorb

LEVEL = "model_checking"


def run_syntax(ck, label="syntax"):
    q = ck.tier == "quick"
    trees = gentree.gen_trees(q, ck.seed)
    d = vlib.workdir("syn")
    tf = os.path.join(d, "trees.ndjson")
    vlib.write_ndjson(tf, trees)
    res = vlib.tlc("Syntax", "SPECIFICATION Spec\nINVARIANTS Idempotent Emit\nCHECK_DEADLOCK FALSE\n", workers=vlib.NCPU,
                   timeout=2400, env={"TREE_FILE": tf}, xmx="16g")
    vlib.tlc_must_pass(res, "Syntax")
    ck.add_tlc(res, "Syntax(%d trees)" % len(trees))
    rows = res.emitted()
    outp = os.path.join(d, "rendered.ndjson")
    vlib.write_ndjson(outp, rows)
    r = vlib.vh_json(["replay-syntax", outp, "-layouts", "4" if q else "12", "-seed", str(ck.seed)])
    absorb(ck, r, label, cmd=["replay-syntax"])
    ck.add("traces_validated_against_impl", len(rows))
    ck.note("texts_parsed", r["extra"]["texts_parsed"])
    return len(trees)


def run(ck):
    n = run_syntax(ck)
    ck.cov["rule"] = ("trees: every ordered pair of binary operators in both nestings, unary/sign forms over every operator, the slice "
                      "forms over every admissible base, the 8 for shapes, if/elif/else forms, named arguments, attribute chains, keyword "
                      "case, plus random programs and expressions (depth <= 4). The TLA+ specification inserts exactly the parentheses "
                      "its precedence table requires (Par, checked idempotent), renders the token list and marks where line breaks may "
                      "follow; the harness lays each token list out in single-blank, minimal-blank and random admissible layouts (EOLs, "
                      "comments, blank lines, ';'), parses with the real parser and compares the tree (and every position field, C17). "
                      "distinct_nontrivial = distinct trees; evaluations = texts parsed.")
    ck.assumptions += ["precedence levels of `in`, unary operators and `!` are taken from gram.y (the manual's table omits them)",
                       "chained assignment a = b = 3 (manual's example) is not in the tree language: assignment is a statement"]
