---------------------------------- MODULE Cli ----------------------------------
(* `platypus run` (C20) as a sequence of steps:                              *)
(*   Select (load the script by name; workspace or single file) ->           *)
(*   [no input file: stop: check only] -> BuildPoint -> Run -> Snapshot ->   *)
(*   Print, or ReportError instead of output.                                *)
(* The point is abstracted to what a script can change about it.  The        *)
(* constant SnapshotBeforeRun names the deviation in which measurement and   *)
(* time are copied out of the point before the script runs (then             *)
(* PrintedIsFinal fails in the model).                                       *)
EXTENDS Integers, Sequences, TLC, Json

CONSTANT SnapshotBeforeRun

Modes == {"workspace", "workspace_ppl", "workspace_lone", "single"}     \* workspace_lone: the workspace holds this one script only     \* workspace_ppl: the selected script has the .ppl extension
\* line-protocol files: the input is the FIRST POINT of the file, not its first line: comment lines and blank lines before
\* it are skipped, a quoted string field may contain a line break, later points are ignored
\* text files: the WHOLE content becomes field `message` (several lines, surrounding blanks and a final line break included)
\* text_bom / lp_bom: the file begins with the bytes EF BB BF; they are content like any other (part of `message`, of the first measurement name)
\* lp_escaped_meas: the first point's measurement is spelled with escapes (\= \" \, and an escaped blank): the measurement is the NAME they spell
\* lp_same_key: the first point has a tag and a field of the same name: both are part of the point, as for the library
Inputs == {"none", "text", "text_multiline", "text_empty", "text_blank", "text_bom", "lineprotocol", "lp_comment_first", "lp_blank_first", "lp_newline_in_field", "lp_bom", "lp_same_key", "lp_escaped_meas"}
Outputs == {"json", "lineprotocol"}
\* crlfField: the script file has CR LF line ends, also inside a multi-line string literal whose value it stores: the script
\* that runs is the file's bytes, nothing is normalised on the way
\* nilField: the script leaves a field whose value is nil: it is part of the point and is printed (JSON null)
\* setTimeEpoch / setTimeBefore: the script sets the time to 1970-01-01T00:00:00Z exactly / to a moment before it: a time like any other
\* timeKey: the script leaves an integer field named `time`: a field like any other, the point's time is untouched
\* noFields: the script leaves a point without any field (everything dropped or moved to tags): still a point, printed as JSON
Kinds == {"noop", "addField", "crlfField", "nilField", "noFields", "toTag", "setMeas", "clearMeas", "setTime", "setTimeEpoch", "setTimeBefore", "timeKey", "dropMsg", "useSibling", "loadErr", "runErr", "linkErr", "selfUse"}

VARIABLES cfg, phase, pt, snap, out, err
vars == <<cfg, phase, pt, snap, out, err>>

Pt0 == [meas |-> "in", time |-> "in", added |-> FALSE, totag |-> FALSE, dropped |-> FALSE, fromlib |-> FALSE]
None == [meas |-> "-", time |-> "-", added |-> FALSE, totag |-> FALSE, dropped |-> FALSE, fromlib |-> FALSE]

Effect(k, p) == CASE k \in {"addField", "crlfField", "nilField", "timeKey"} -> [p EXCEPT !.added = TRUE]
                  [] k = "toTag" -> [p EXCEPT !.totag = TRUE]
                  [] k = "setMeas" -> [p EXCEPT !.meas = "new"]
                  [] k = "clearMeas" -> [p EXCEPT !.meas = "empty"]     \* set_measurement(""): an empty name is still the script's result
                  [] k = "setTime" -> [p EXCEPT !.time = "set", !.dropped = TRUE]   \* default_time drops its key
                  [] k = "setTimeEpoch" -> [p EXCEPT !.time = "epoch"]      \* the key holding the date is the script's own and is consumed
                  [] k = "setTimeBefore" -> [p EXCEPT !.time = "before"]
                  [] k \in {"dropMsg", "noFields"} -> [p EXCEPT !.dropped = TRUE]
                  [] k = "useSibling" -> [p EXCEPT !.fromlib = TRUE]
                  [] OTHER -> p

Init == /\ cfg \in [mode : Modes, input : Inputs, output : Outputs, kind : Kinds]
        /\ (cfg.kind = "useSibling" => cfg.mode \in {"workspace", "workspace_ppl"})      \* a sibling needs a workspace
        \* (a use() of a missing script, or of the script itself, is a load error in every mode - also when the script is the only one)
        /\ (cfg.mode = "workspace_lone" => cfg.kind \in {"noop", "addField", "linkErr", "selfUse", "runErr"})
        /\ (cfg.kind \in {"nilField", "noFields"} => cfg.output = "json")         \* line protocol cannot spell a point without fields                           \* line protocol has no spelling for nil
        /\ (cfg.kind = "clearMeas" => cfg.output = "json")                          \* line protocol cannot encode an empty name
        /\ (cfg.kind = "toTag" /\ cfg.input \in {"text_multiline", "text_blank", "text_empty"} => cfg.output = "json")  \* ... nor a line break inside a tag value
        /\ phase = "start" /\ pt = None /\ snap = None /\ out = None /\ err = "none"

Select == /\ phase = "start"
          /\ IF cfg.kind \in {"loadErr", "linkErr", "selfUse"} THEN phase' = "done" /\ err' = "load"
             ELSE IF cfg.input = "none" THEN phase' = "done" /\ err' = err       \* check only
             ELSE phase' = "loaded" /\ err' = err
          /\ UNCHANGED <<cfg, pt, snap, out>>
BuildPoint == /\ phase = "loaded" /\ pt' = Pt0
              /\ (IF SnapshotBeforeRun THEN snap' = Pt0 ELSE snap' = snap)
              /\ phase' = "built" /\ UNCHANGED <<cfg, out, err>>
Run == /\ phase = "built"
       /\ IF cfg.kind = "runErr" THEN phase' = "done" /\ err' = "run" /\ pt' = pt
          ELSE phase' = "ran" /\ pt' = Effect(cfg.kind, pt) /\ err' = err
       /\ UNCHANGED <<cfg, snap, out>>
Snapshot == /\ phase = "ran"
            /\ snap' = IF SnapshotBeforeRun THEN [pt EXCEPT !.meas = snap.meas, !.time = snap.time] ELSE pt
            /\ phase' = "snapped" /\ UNCHANGED <<cfg, pt, out, err>>
PrintOut == /\ phase = "snapped" /\ out' = snap /\ phase' = "done" /\ UNCHANGED <<cfg, pt, snap, err>>
Next == Select \/ BuildPoint \/ Run \/ Snapshot \/ PrintOut
Spec == Init /\ [][Next]_vars

PrintedIsFinal == (phase = "done" /\ out # None) => out = pt
CheckOnly == (phase = "done" /\ cfg.input = "none") => (out = None /\ pt = None)
ErrorsInsteadOfOutput == (phase = "done" /\ err # "none") => out = None
OutputUnlessError == (phase = "done" /\ err = "none" /\ cfg.input # "none") => out # None
Emit == phase = "done" => PrintT("@@" \o ToJson([cfg |-> cfg, out |-> out, err |-> err, printed |-> out # None]))
=============================================================================
