package main

import (
	"encoding/json"
	"flag"
	"fmt"
	"math/rand"
	"runtime/debug"
	"sort"
	"strings"
	"sync"
	"time"

	"github.com/GuanceCloud/platypus/pkg/engine"
	plruntime "github.com/GuanceCloud/platypus/pkg/engine/runtime"
	"github.com/GuanceCloud/platypus/pkg/inimpl/guancecloud/funcs"
	"github.com/GuanceCloud/platypus/pkg/inimpl/guancecloud/input"
	"github.com/GuanceCloud/platypus/pkg/parser"
)

func init() {
	register("race-run", raceRun)
	register("replay-sharing", replaySharing)
}

var sharedScripts = map[string]string{
	"main.p": `add_pattern("my", "\\d+")
ok = grok(_, "%{WORD:w} %{my:n:int}")
if ok {
  add_key(matched, true)
  use("lib.p")
}
m = load_json("{\"a\":{\"b\":[true]}}")
l = [1, 2, 3]
for v in l {
  l[0] = l[0] + v
  if v == 2 { continue }
  add_key(last, v)
}
x = m["a"]["b"][0]
add_key(x, x)
e = {}
e[_] = ok
add_key(ej, e)
add_key(en, len(e))
el = []
add_key(eln, len(el))
trim(w)
uppercase(w)
cast(n, "str")
replace(w, "[B-Z]+", "y")
if n == "7" {
  add_key(br, 1)
} elif n == "12" {
  add_key(br, 2)
} elif ok {
  add_key(br, 3)
} else {
  add_key(br, 4)
}
if f == 0 { add_key(br5, 0) } elif f == 2 { add_key(br5, 2) } elif f == 3 { add_key(br5, 3) } elif f == 4 { add_key(br5, 4) } elif f == 1 { add_key(br5, 5) } else { add_key(br5, 6) }
strfmt(sf, "%s-%v", w, n)
sql_cover(q)
if ok {
  default_time(ts, "+8")
} else {
  default_time(ts, "America/New_York")
}
datetime(dt, "ms", "RFC3339")
xml(xm, "/a/b", xv)
url_decode(u)
j = load_json(js)
add_key(j0, j[0])
rename(word, w)
set_tag(word)
hi = inf
lo = -inf
if f < hi { add_key(below_hi, true) }
if lo < f { add_key(above_lo, true) }
add_key(hi_pos, hi > 0)
add_key(lo_neg, lo < 0)
big = 0x7fffffffffffffff
add_key(big_pos, big > 0)
add_key(t_is, true == true)
`,
	"lib.p": `for i = 0; i < 3; i = i + 1 {
  add_key(cnt, i)
  if i == 1 { add_pattern("inner", "[a-z]+")
    grok(word, "%{inner:iw}") }
}
drop_key(nosuch)
`,
}

// failingScripts: runs that assign top-level variables named like everything the shared script reads and then fail inside a
// branch / a loop body.  Mixed with the shared script's runs: what a failed run leaves in pooled interpreter objects must never
// reach the run that takes the object next, on whatever goroutine.
var failingScripts = []string{
	"w = \"stale\"\nn = 99\nq = \"stale q\"\nu = \"st%20ale\"\njs = \"[9]\"\nok = true\nts = \"1999-01-01 00:00:00\"\nif true {\n  zz = 1 + nil\n}\n",
	"w = \"stale\"\nword = \"stale\"\nxm = \"<a><b>stale</b></a>\"\ndt = 5\nl = [9]\nm = 1\nfor i = 0; i < 2; i = i + 1 {\n  zz = l[7]\n}\n",
	"message = \"stale 1\"\nmatched = false\nx = 1\nj = 2\nfor v in [1, 2] {\n  if v == 2 {\n    zz = v + nil\n  }\n}\n",
}

// errPart: the error of a rendered run result
func errPart(r string) string {
	if i := strings.Index(r, " fields="); i >= 0 {
		return r[:i]
	}
	return r
}

func loadFailing() ([]*plruntime.Script, error) {
	var out []*plruntime.Script
	for _, src := range failingScripts {
		ok, errs := engine.ParseScript(map[string]string{"failing.p": src}, funcs.FuncsMap, funcs.FuncsCheckMap)
		if len(errs) > 0 {
			return nil, fmt.Errorf("failing script does not load: %v", errs)
		}
		out = append(out, ok["failing.p"])
	}
	return out, nil
}

var parseSources = []string{"x = 1 + 2 * 3\nif x { y = [1, {\"a\": x}] }", "for i = 0; i < 3; i = i + 1 { f(i) }", "x = (1 + ] 2", "a = \"abc", "-0x",
	"grok(_, \"%{WORD:w}\")\nadd_key(k, w)", "x = a[1:2:3]\ny = b.c.d\nz = `q r`", "",
	// signed spellings of the number keywords and of literals the shared script also spells: a sign folded into a literal must not reach
	// any other tree
	"floor = -inf\nceil = +inf\nq = -nan", "a = -0x7fffffffffffffff\nb = - inf\nc = [-inf, inf, -1, -1.5, -true]", "m = {\"k\": -inf}\nf(-inf, x = -nan)"}

// freshSource builds a source text never parsed before in this process: unique identifiers, numbers and strings, and
// keywords in a random letter case (cold paths: first-use initialisation, caches and memo tables are exercised concurrently).
var keywordWords = []string{"if", "elif", "else", "for", "in", "break", "continue", "true", "false", "nil", "null"}

func freshSource(rng *rand.Rand, uniq int) string {
	kw := func(w string) string {
		b := []byte(w)
		for i := range b {
			if rng.Intn(2) == 0 {
				b[i] -= 32
			}
		}
		return string(b)
	}
	id := func(p string) string { return fmt.Sprintf("%s%d_%d", p, uniq, rng.Intn(1000)) }
	x, y, f := id("x"), id("y"), id("f")
	parts := []string{
		fmt.Sprintf("%s %s == %s { %s = %s } %s %s < %d { %s = [%d, {\"k%d\": %s}] } %s { %s = %s }", kw("if"), x, kw("true"), y, kw("nil"),
			kw("elif"), x, rng.Intn(1<<30), y, uniq, uniq, x, kw("else"), y, kw("false")),
		fmt.Sprintf("%s i = 0; i < %d; i = i + 1 { %s i == 1 { %s }\n%s }", kw("for"), 2+rng.Intn(5), kw("if"), kw("continue"), kw("break")),
		fmt.Sprintf("%s v %s [%d, \"s%d\", %s] { %s(v) }", kw("for"), kw("in"), uniq, uniq, kw("null"), f),
		fmt.Sprintf("%s = %s[%d:%d]\n%s = `q %d`.b", x, y, rng.Intn(3), 3+rng.Intn(3), y, uniq),
		fmt.Sprintf("grok(_, \"%%{WORD:w%d}\")\nadd_key(k%d, %d.5e%d)", uniq, uniq, uniq, rng.Intn(5)),
		// literals of every kind with fresh content: integers beyond int64 (decimal and hexadecimal), escapes, multi-line text
		fmt.Sprintf("%s = 0x%x%016x + %d%019d\n%s = \"t\\t%d\\x41\\u00e9\" + '''m%d\nl'''", x, 1+rng.Intn(14), rng.Uint64(), 1+rng.Intn(8), rng.Int63(), y, uniq, uniq),
	}
	rng.Shuffle(len(parts), func(i, j int) { parts[i], parts[j] = parts[j], parts[i] })
	src := strings.Join(parts[:1+rng.Intn(len(parts))], "\n")
	switch rng.Intn(8) { // some sources are broken
	case 0:
		src += "\n" + x + " = (1 + ] 2"
	case 1:
		src += "\n" + y + " = \"abc"
	}
	return src
}

// canonical rendering of what loading a script set returned (per script: accepted or its error)
func loadRender(set map[string]string) string {
	ok, errs := engine.ParseScript(set, funcs.FuncsMap, funcs.FuncsCheckMap)
	names := []string{}
	for n := range set {
		names = append(names, n)
	}
	sort.Strings(names)
	var b strings.Builder
	for _, n := range names {
		if _, acc := ok[n]; acc {
			fmt.Fprintf(&b, "%s: accepted\n", n)
		} else {
			fmt.Fprintf(&b, "%s: %v\n", n, errs[n])
		}
	}
	return b.String()
}

// canonical rendering of what parsing returned (tree or error)
func parseRender(name, src string) string {
	ss, err := parser.ParsePipeline(name, src)
	if err != nil {
		return "error: " + err.Error()
	}
	tree, _ := convScript(src, ss)
	b, _ := json.Marshal(tree)
	return string(b)
}

// tsFor: the timestamp text a run carries depends on its message, so that concurrent runs of default_time meet different built-in
// layouts (nginx, redis, mysql, gin, postgresql) and the general parser at the same time
func tsFor(msg string) string {
	switch msg {
	case "zzz 7":
		return "04/Mar/2021:05:06:07 +0000"
	case "abc 12":
		return "04 Mar 2021 05:06:07.123"
	case "nomatch":
		return "2021/03/04 - 05:06:07"
	case "":
		return "210304 05:06:07"
	}
	if len(msg)%2 == 0 {
		return "2021-03-04 05:06:07.123 UTC"
	}
	return "2021-03-04 05:06:07"
}

// sqlFor: the SQL text a run carries depends on its message, so that concurrent runs feed different statements to sql_cover -
// among them ones whose reading depends on how backslashes inside string literals are treated (an engine that remembered
// the last reading across calls would make one run's result depend on another's)
func sqlFor(msg string) string {
	switch msg {
	case "zzz 7":
		return `SELECT * FROM audit WHERE path = 'C:\logs\' AND note = ' -- rotated'`
	case "abc 12":
		return `SELECT * FROM files WHERE dir = 'C:\'`
	case "nomatch":
		return `select 'it\'s' from t`
	}
	return "select * from t where id = 42"
}

// canonical result of one run of the shared main script on a private point
func sharedRun(sc *plruntime.Script, msg string, sig plruntime.Signal) string {
	pt := input.GetPoint()
	input.InitPt(pt, "m", map[string]string{"t": "v"}, map[string]any{"message": msg, "f": int64(1), "q": sqlFor(msg), "ts": tsFor(msg),
		"dt": int64(1614834367123), "xm": "<a><b>v</b></a>", "u": "a%20b", "js": "[1, 2]"}, fixedTime)
	err := sc.Run(pt, sig)
	s := fmt.Sprintf("err=%v fields=%s tags=%s", errStr(err), showVal(map[string]any(pt.Fields)), fmt.Sprint(pt.Tags))
	input.PutPoint(pt)
	return s
}

func loadShared() (*plruntime.Script, error) {
	ok, errs := engine.ParseScript(sharedScripts, funcs.FuncsMap, funcs.FuncsCheckMap)
	if len(errs) > 0 {
		return nil, fmt.Errorf("shared scripts do not load: %v", errs)
	}
	return ok["main.p"], nil
}

// race-run -seed S -rounds R -max G: free-running goroutines (run this binary built with -race).
func raceRun(args []string) (any, error) {
	fs := flag.NewFlagSet("race-run", flag.ContinueOnError)
	seed := fs.Int64("seed", 1, "")
	rounds := fs.Int("rounds", 100, "")
	maxG := fs.Int("max", 8, "")
	if err := fs.Parse(args); err != nil {
		return nil, err
	}
	rng := rand.New(rand.NewSource(*seed))
	msgs := []string{"zzz 7", "abc 12", "nomatch", "w 0"} // reference results are taken in this order (see sqlFor)
	sum := &Summary{Extra: map[string]any{}}
	// cold start: the very first parses, loads and runs of this process happen concurrently (tables built on first use,
	// one-time initialisation, pools that are still empty); their results are compared with the sequential ones below
	type coldRes struct{ msg, got, parse string }
	coldN := 2 + int(*seed%7)
	cold := make([]coldRes, coldN)
	{
		var wg sync.WaitGroup
		start := make(chan struct{})
		for i := 0; i < coldN; i++ {
			wg.Add(1)
			go func(i int) {
				defer wg.Done()
				<-start
				cold[i].msg = msgs[i%len(msgs)]
				cold[i].parse = parseRender("p.p", parseSources[i%len(parseSources)])
				if c, e := loadShared(); e == nil {
					cold[i].got = sharedRun(c, cold[i].msg, nil)
				} else {
					cold[i].got = "load error: " + e.Error()
				}
			}(i)
		}
		close(start)
		wg.Wait()
	}
	sc, err := loadShared()
	if err != nil {
		return nil, err
	}
	want := map[string]string{}
	for _, m := range msgs {
		want[m] = sharedRun(sc, m, nil)
	}
	failing, err := loadFailing()
	if err != nil {
		return nil, err
	}
	wantFail := make([]string, len(failing))
	for i, f := range failing {
		wantFail[i] = sharedRun(f, "abc 12", nil)
		if !strings.HasPrefix(wantFail[i], "err=failing.p:") {
			return nil, fmt.Errorf("failing script %d does not fail at run time: %s", i, wantFail[i])
		}
	}
	for _, m := range msgs { // the sequential answers once more, now after failed runs
		if got := sharedRun(sc, m, nil); got != want[m] {
			sum.miss("race-after-failed-run:"+m, map[string]any{"message": m, "alone": want[m], "after_failed_runs": got})
		}
	}
	for i, c := range cold {
		if c.got != want[c.msg] {
			sum.miss("race-cold-start:"+c.msg, map[string]any{"message": c.msg, "alone": want[c.msg], "at_cold_start": c.got, "goroutines": coldN})
		}
		if alone := parseRender("p.p", parseSources[i%len(parseSources)]); alone != c.parse {
			sum.miss("race-cold-parse", map[string]any{"source": parseSources[i%len(parseSources)], "alone": alone, "at_cold_start": c.parse})
		}
	}
	sum.Extra["cold_start_goroutines"] = coldN
	runs, parses, nfresh := 0, 0, 0
	var parsed [][2]string
	type loadedSet struct {
		set map[string]string
		got string
	}
	var loaded []loadedSet
	for r := 0; r < *rounds; r++ {
		g := 2 + rng.Intn(*maxG-1)
		// every second round runs a freshly loaded copy of the shared script: its first runs (cold call sites, lazily
		// initialised annotations) then happen concurrently
		scR := sc
		if r%2 == 1 {
			if scR, err = loadShared(); err != nil {
				return nil, err
			}
		}
		var wg sync.WaitGroup
		var mu sync.Mutex
		start := make(chan struct{})
		for i := 0; i < g; i++ {
			kind := rng.Intn(4)
			fi := rng.Intn(len(failingScripts))
			msg := msgs[rng.Intn(len(msgs))]
			src := parseSources[rng.Intn(len(parseSources))]
			fresh := rng.Intn(2) == 0
			if fresh {
				nfresh++
				src = freshSource(rng, nfresh)
			}
			delay := time.Duration(rng.Intn(200)) * time.Microsecond
			wg.Add(1)
			go func(i int) {
				defer wg.Done()
				<-start
				time.Sleep(delay)
				if kind == 0 {
					got := parseRender("p.p", src)
					// ... and a load of a linked set built around it (use() linking, pattern scoping, check pass)
					set := map[string]string{"a.p": src + "\nuse(\"b.p\")\n", "b.p": "add_pattern(\"pp\", \"\\\\d+\")\ngrok(_, \"%{pp:n:int}\")\n" + src,
						"c.p": "use(\"a.p\")\nuse(\"b.p\")\n", "d.p": "use(\"nosuch.p\")"}
					gotL := loadRender(set)
					mu.Lock()
					parses++
					parsed = append(parsed, [2]string{src, got})
					loaded = append(loaded, loadedSet{set, gotL})
					mu.Unlock()
					return
				}
				if kind == 3 {
					got := sharedRun(failing[fi], msg, nil)
					mu.Lock()
					runs++
					if wf := strings.Replace(wantFail[fi], "abc 12", msg, -1); errPart(got) != errPart(wf) {
						sum.miss("race-failing-result", map[string]any{"alone": wf, "concurrently": got, "goroutines": g})
					}
					mu.Unlock()
					return
				}
				got := sharedRun(scR, msg, nil)
				mu.Lock()
				runs++
				if got != want[msg] {
					sum.miss("race-result:"+msg, map[string]any{"message": msg, "alone": want[msg], "concurrently": got, "goroutines": g})
				}
				mu.Unlock()
			}(i)
		}
		close(start)
		wg.Wait()
		// every concurrent parse returned what the same parse returns alone (sources were first seen concurrently)
		for _, pr := range parsed {
			if alone := parseRender("p.p", pr[0]); alone != pr[1] {
				sum.miss("race-parse:"+pr[0], map[string]any{"source": pr[0], "alone": alone, "concurrently": pr[1], "goroutines": g})
			}
		}
		for _, ls := range loaded {
			if alone := loadRender(ls.set); alone != ls.got {
				sum.miss("race-load:"+ls.set["a.p"], map[string]any{"scripts": ls.set, "alone": alone, "concurrently": ls.got, "goroutines": g})
			}
		}
		loaded = loaded[:0]
		parsed = parsed[:0]
		sum.Evaluations++
	}
	sum.Distinct = sum.Evaluations
	sum.Extra["runs"] = runs
	sum.Extra["parses"] = parses
	sum.Extra["fresh_sources"] = nfresh
	sum.sample(map[string]any{"shared_script": sharedScripts["main.p"][:120], "result_alone": want["abc 12"]})
	return sum, nil
}

// gate: ExitSignal blocks until the scheduler lets this run take its next step.
type gate struct {
	id     int
	arrive chan int
	goOn   chan struct{}
	free   *bool
}

func (g *gate) ExitSignal() bool {
	if *g.free {
		return false
	}
	g.arrive <- g.id
	<-g.goOn
	return false
}

// replay-sharing <schedules.ndjson> -threads T: every interleaving TLC enumerated, gated at the poll.
func replaySharing(args []string) (any, error) {
	sc, err := loadShared()
	if err != nil {
		return nil, err
	}
	msgs := []string{"abc 12", "zzz 7", "nomatch"}
	want := map[string]string{}
	for _, m := range msgs {
		want[m] = sharedRun(sc, m, nil)
	}
	sum := &Summary{Extra: map[string]any{}}
	err = readNDJSON(args[0], func(raw json.RawMessage) error {
		var v struct {
			Sched []int `json:"sched"`
		}
		if err := json.Unmarshal(raw, &v); err != nil {
			return err
		}
		sum.Evaluations++
		sum.Distinct++
		nth := 0
		for _, t := range v.Sched {
			if t > nth {
				nth = t
			}
		}
		free := false
		arrive := make(chan int, nth)
		gates := make([]*gate, nth+1)
		results := make([]string, nth+1)
		var wg sync.WaitGroup
		for t := 1; t <= nth; t++ {
			gates[t] = &gate{id: t, arrive: arrive, goOn: make(chan struct{}), free: &free}
			wg.Add(1)
			go func(t int) {
				defer wg.Done()
				results[t] = sharedRun(sc, msgs[(t-1)%len(msgs)], gates[t])
			}(t)
		}
		waiting := map[int]bool{}
		finished := make(chan struct{})
		go func() { wg.Wait(); close(finished) }()
		step := func(t int) bool { // let thread t pass one poll; false if it already finished
			for !waiting[t] {
				select {
				case id := <-arrive:
					waiting[id] = true
				case <-time.After(2 * time.Second):
					return false
				}
			}
			waiting[t] = false
			gates[t].goOn <- struct{}{}
			return true
		}
		for _, t := range v.Sched {
			if !step(t) {
				break // the run has fewer polls than the model's steps: the rest runs free
			}
		}
		// release everything that is still gated
		done := false
		for !done {
			select {
			case id := <-arrive:
				gates[id].goOn <- struct{}{}
			case <-finished:
				done = true
			}
			for id, w := range waiting {
				if w {
					waiting[id] = false
					gates[id].goOn <- struct{}{}
				}
			}
		}
		for t := 1; t <= nth; t++ {
			m := msgs[(t-1)%len(msgs)]
			if results[t] != want[m] {
				sum.miss(fmt.Sprintf("sharing:%v", v.Sched), map[string]any{"schedule": v.Sched, "thread": t, "alone": want[m], "interleaved": results[t]})
			}
		}
		return nil
	})
	sum.sample(map[string]any{"result_alone": want["abc 12"]})
	return sum, err
}

// coldScript builds script i of the cold-runs stage: every builtin that takes a literal pattern, format, zone or type gets a literal
// no script of this process has used before (whatever is compiled, parsed or looked up on first use then happens in several
// runs at once), applied to subjects that make it do its work.
func coldScript(i int) string {
	return fmt.Sprintf(`add_pattern("p%[1]d", "[a-z]{%[2]d,}")
ok = grok(_, "%%{p%[1]d:w%[1]d} %%{NUMBER:n%[1]d:int}")
replace(q, "t%[1]d+[a-f]*", "X%[1]d")
replace(u, "(a)%%(2)(\\d{%[2]d})?", "$1-%[1]d")
strfmt(sf, "%[1]d:%%v-%%s-%%0%[2]dd", ok, w%[1]d, n%[1]d)
x = load_json("{\"k%[1]d\": [%[1]d, {\"z\": %[2]d.5}]}")
add_key(xk, x["k%[1]d"][0])
datetime(dt, "ms", "RFC3339")
default_time(ts, "+%[3]d")
trim(q, "s%[1]dX")
cast(n%[1]d, "str")
url_decode(u)
`, i, 1+i%5, 1+i%11)
}

func coldRunOnce(sc *plruntime.Script, i int) string {
	pt := input.GetPoint()
	input.InitPt(pt, "m", map[string]string{"t": "v"}, map[string]any{"message": fmt.Sprintf("abc %d", i), "q": fmt.Sprintf("select t%dtt%dabc", i, i),
		"u": "a%20b", "ts": "2021-03-04 05:06:07", "dt": int64(1614834367123)}, fixedTime)
	err := sc.Run(pt, nil)
	s := fmt.Sprintf("err=%v fields=%s tags=%s time=%d", errStr(err), showVal(map[string]any(pt.Fields)), fmt.Sprint(pt.Tags), pt.Time.UnixNano())
	input.PutPoint(pt)
	return s
}

// cold-runs -n N -g G: N freshly written scripts are loaded (G at a time), then run for the first time G at a time, each on a
// point of its own; afterwards every script is run once more alone and must give what its first run gave.  A crash of the
// process (the Go runtime aborts on concurrent map access) is reported by the caller as a violation.
func coldRuns(args []string) (any, error) {
	fs := flag.NewFlagSet("cold-runs", flag.ContinueOnError)
	n := fs.Int("n", 200, "")
	g := fs.Int("g", 16, "")
	if err := fs.Parse(args); err != nil {
		return nil, err
	}
	sum := &Summary{Extra: map[string]any{}}
	scripts := make([]*plruntime.Script, *n)
	first := make([]string, *n)
	for at := 0; at < *n; at += *g {
		end := at + *g
		if end > *n {
			end = *n
		}
		var wg sync.WaitGroup
		start := make(chan struct{})
		for i := at; i < end; i++ {
			wg.Add(1)
			go func(i int) {
				defer wg.Done()
				defer func() {
					if r := recover(); r != nil {
						first[i] = fmt.Sprintf("panic: %v\n%s", r, debug.Stack())
					}
				}()
				<-start
				ok, errs := engine.ParseScript(map[string]string{"cold.p": coldScript(i)}, funcs.FuncsMap, funcs.FuncsCheckMap)
				if len(errs) > 0 {
					first[i] = fmt.Sprintf("load error: %v", errs)
					return
				}
				scripts[i] = ok["cold.p"]
				first[i] = coldRunOnce(scripts[i], i)
			}(i)
		}
		close(start)
		wg.Wait()
	}
	for i := 0; i < *n; i++ {
		sum.Evaluations++
		sum.Distinct++
		switch {
		case strings.HasPrefix(first[i], "panic:"):
			sum.miss(fmt.Sprintf("cold-run-panic:%d", i), map[string]any{"script": coldScript(i), "panic": first[i]})
		case scripts[i] == nil:
			sum.miss(fmt.Sprintf("cold-run-load:%d", i), map[string]any{"script": coldScript(i), "problem": first[i]})
		default:
			if alone := coldRunOnce(scripts[i], i); alone != first[i] {
				sum.miss(fmt.Sprintf("cold-run-result:%d", i), map[string]any{"script": coldScript(i), "alone": alone, "among_concurrent_first_runs": first[i]})
			}
		}
	}
	sum.sample(map[string]any{"scripts": *n, "at_a_time": *g, "script_7": coldScript(7), "result_7": first[7%*n]})
	return sum, nil
}

func init() { register("cold-runs", coldRuns) }
