package main

import (
	"encoding/json"
	"flag"
	"fmt"
	"math"
	"math/big"
	"math/rand"
	"os"
	"strconv"
	"strings"
)

func init() {
	register("arith-gen", arithGen)
	register("arith-cmp", arithCmp)
}

const limbBits = 15

type jI64 struct {
	Neg bool  `json:"neg"`
	Mag []int `json:"mag"`
}

type jF64 struct {
	C   string `json:"c"`
	Neg bool   `json:"neg"`
	Man []int  `json:"man"`
	Exp int    `json:"exp"`
}

func limbsOf(x *big.Int) []int {
	out := []int{}
	v := new(big.Int).Set(x)
	mask := big.NewInt(1<<limbBits - 1)
	for v.Sign() > 0 {
		out = append(out, int(new(big.Int).And(v, mask).Int64()))
		v.Rsh(v, limbBits)
	}
	return out
}

func bigOf(l []int) *big.Int {
	v := new(big.Int)
	for i := len(l) - 1; i >= 0; i-- {
		v.Lsh(v, limbBits)
		v.Or(v, big.NewInt(int64(l[i])))
	}
	return v
}

func encI64(n int64) jI64 {
	b := big.NewInt(n)
	neg := b.Sign() < 0
	b.Abs(b)
	return jI64{Neg: neg, Mag: limbsOf(b)}
}

func decI64(j jI64) (int64, bool) {
	b := bigOf(j.Mag)
	if j.Neg {
		b.Neg(b)
	}
	if !b.IsInt64() {
		return 0, false
	}
	return b.Int64(), true
}

func encF64(f float64) jF64 {
	switch {
	case math.IsNaN(f):
		return jF64{C: "nan", Man: []int{}}
	case math.IsInf(f, 0):
		return jF64{C: "inf", Neg: f < 0, Man: []int{}}
	case f == 0:
		return jF64{C: "fin", Neg: math.Signbit(f), Man: []int{}}
	}
	neg := f < 0
	fr, e := math.Frexp(math.Abs(f)) // f = fr * 2^e, fr in [0.5,1)
	m := uint64(fr * (1 << 53))
	e -= 53
	for m%2 == 0 {
		m /= 2
		e++
	}
	return jF64{C: "fin", Neg: neg, Man: limbsOf(new(big.Int).SetUint64(m)), Exp: e}
}

func decF64(j jF64) (float64, bool) {
	switch j.C {
	case "nan":
		return math.NaN(), true
	case "inf":
		if j.Neg {
			return math.Inf(-1), true
		}
		return math.Inf(1), true
	case "unspec":
		return 0, false
	}
	m := bigOf(j.Man)
	if m.BitLen() > 53 {
		return 0, false
	}
	f := math.Ldexp(float64(m.Uint64()), j.Exp)
	if j.Neg {
		f = -f
	}
	return f, true
}

func sameF(a, b float64) bool {
	if math.IsNaN(a) || math.IsNaN(b) {
		return math.IsNaN(a) && math.IsNaN(b)
	}
	return math.Float64bits(a) == math.Float64bits(b)
}

var intPool = []int64{0, 1, -1, 2, -2, 7, 10, -10, 1 << 31, 1<<53 - 1, 1 << 53, 1<<53 + 1, -(1<<53 + 1),
	math.MaxInt64 - 1, math.MaxInt64, math.MinInt64 + 1, math.MinInt64, 3037000500, -3037000500, 4294967296}
var floatPool = []float64{0, math.Copysign(0, -1), 0.5, -1.5, 2, 0.1, 0.3, 1e300, -1e300, 1e-300, 9007199254740992,
	9007199254740993, math.MaxFloat64, math.Inf(1), math.Inf(-1), math.NaN(), 1.0 / 3, 123456.789, 5e-324 * (1 << 60)}

// arith-gen -seed S -n N -out file : operand vectors for spec/ArithCheck.tla
func arithGen(args []string) (any, error) {
	fs := flag.NewFlagSet("arith-gen", flag.ContinueOnError)
	seed := fs.Int64("seed", 1, "")
	n := fs.Int("n", 1000, "")
	out := fs.String("out", "", "")
	if err := fs.Parse(args); err != nil {
		return nil, err
	}
	rng := rand.New(rand.NewSource(*seed))
	f, err := os.Create(*out)
	if err != nil {
		return nil, err
	}
	defer f.Close()
	enc := json.NewEncoder(f)
	ri := func() int64 {
		switch rng.Intn(4) {
		case 0:
			return intPool[rng.Intn(len(intPool))]
		case 1:
			return int64(rng.Intn(2001) - 1000)
		case 2:
			return int64(rng.Uint64()) >> uint(rng.Intn(64))
		}
		return int64(rng.Uint64())
	}
	rf := func() float64 {
		switch rng.Intn(4) {
		case 0:
			return floatPool[rng.Intn(len(floatPool))]
		case 1:
			return float64(rng.Intn(2001)-1000) / 8
		case 2:
			return math.Ldexp(rng.Float64()*2-1, rng.Intn(200)-100)
		}
		return float64(ri())
	}
	iops := []string{"iadd", "isub", "imul", "iquo", "irem", "ineg", "icmp"}
	fops := []string{"fadd", "fsub", "fmul", "fdiv", "fcmp", "fromi", "fdec"}
	for i := 0; i < *n; i++ {
		if i%2 == 0 {
			op := iops[rng.Intn(len(iops))]
			a, b := ri(), ri()
			if (op == "iquo" || op == "irem") && b == 0 {
				b = 3
			}
			_ = enc.Encode(map[string]any{"op": op, "a": encI64(a), "b": encI64(b)})
		} else {
			op := fops[rng.Intn(len(fops))]
			a, b := rf(), rf()
			switch op {
			case "fromi":
				_ = enc.Encode(map[string]any{"op": op, "a": encI64(ri()), "b": encI64(0)})
				continue
			case "fdec":
				// a decimal spelling: digits and a power of ten
				nd := 1 + rng.Intn(19)
				ds := make([]int, nd)
				for k := range ds {
					ds[k] = rng.Intn(10)
				}
				_ = enc.Encode(map[string]any{"op": op, "neg": rng.Intn(2) == 0, "ds": ds, "e10": rng.Intn(61) - 30,
					"a": encI64(0), "b": encI64(0)})
				continue
			case "fdiv":
				if b == 0 {
					b = 3
				}
			}
			_ = enc.Encode(map[string]any{"op": op, "a": encF64(a), "b": encF64(b)})
		}
	}
	return map[string]any{"evaluations": *n}, nil
}

// arith-cmp <vectors> <results.ndjson>: compare TLC's results with the hardware.
func arithCmp(args []string) (any, error) {
	var rows []json.RawMessage
	if err := readNDJSON(args[0], func(raw json.RawMessage) error { rows = append(rows, raw); return nil }); err != nil {
		return nil, err
	}
	sum := &Summary{}
	unspec := 0
	err := readNDJSON(args[1], func(raw json.RawMessage) error {
		var res struct {
			I int             `json:"i"`
			R json.RawMessage `json:"r"`
		}
		if err := json.Unmarshal(raw, &res); err != nil {
			return err
		}
		var v struct {
			Op  string          `json:"op"`
			A   json.RawMessage `json:"a"`
			B   json.RawMessage `json:"b"`
			Neg bool            `json:"neg"`
			Ds  []int           `json:"ds"`
			E10 int             `json:"e10"`
		}
		if err := json.Unmarshal(rows[res.I-1], &v); err != nil {
			return err
		}
		sum.Evaluations++
		sum.Distinct++
		bad := func(want, got any) {
			sum.miss("arith:"+string(rows[res.I-1]), map[string]any{"vec": string(rows[res.I-1]), "want_hw": want, "got_tlc": got})
		}
		if strings.HasPrefix(v.Op, "i") {
			var a, b jI64
			_ = json.Unmarshal(v.A, &a)
			_ = json.Unmarshal(v.B, &b)
			x, _ := decI64(a)
			y, _ := decI64(b)
			var want int64
			switch v.Op {
			case "iadd":
				want = x + y
			case "isub":
				want = x - y
			case "imul":
				want = x * y
			case "iquo":
				want = x / y
			case "irem":
				want = x % y
			case "ineg":
				want = -x
			case "icmp":
				if x < y {
					want = -1
				} else if x > y {
					want = 1
				}
			}
			var r jI64
			_ = json.Unmarshal(res.R, &r)
			got, ok := decI64(r)
			if !ok || got != want {
				bad(want, string(res.R))
			}
			return nil
		}
		var want float64
		if v.Op == "fromi" {
			var a jI64
			_ = json.Unmarshal(v.A, &a)
			x, _ := decI64(a)
			want = float64(x)
		} else if v.Op == "fdec" {
			var sb strings.Builder
			if v.Neg {
				sb.WriteByte('-')
			}
			for _, d := range v.Ds {
				sb.WriteByte(byte('0' + d))
			}
			fmt.Fprintf(&sb, "e%d", v.E10)
			want, _ = strconv.ParseFloat(sb.String(), 64)
		} else {
			var a, b jF64
			_ = json.Unmarshal(v.A, &a)
			_ = json.Unmarshal(v.B, &b)
			x, _ := decF64(a)
			y, _ := decF64(b)
			switch v.Op {
			case "fadd":
				want = x + y
			case "fsub":
				want = x - y
			case "fmul":
				want = x * y
			case "fdiv":
				want = x / y
			case "fcmp":
				var r struct {
					S string `json:"s"`
				}
				_ = json.Unmarshal(res.R, &r)
				w := "un"
				switch {
				case x < y:
					w = "lt"
				case x > y:
					w = "gt"
				case x == y:
					w = "eq"
				}
				if r.S != w {
					bad(w, r.S)
				}
				return nil
			}
		}
		var r jF64
		_ = json.Unmarshal(res.R, &r)
		if r.C == "unspec" {
			unspec++
			if want != 0 && math.Abs(want) >= 2.2250738585072014e-308 {
				bad(want, "unspec for a normal result")
			}
			return nil
		}
		got, ok := decF64(r)
		if !ok || !sameF(got, want) {
			bad(fmt.Sprintf("%v (%x)", want, math.Float64bits(want)), string(res.R))
		}
		return nil
	})
	sum.Extra = map[string]any{"unspecified_results": unspec}
	sum.sample(string(rows[0]))
	return sum, err
}
