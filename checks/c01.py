"""C01 — decided by PlMachine/PlExpr (TLA+) over generated program families: hostile,control,builtins,extract."""
from lib import gen
from checks import machine

LEVEL = "model_checking"
FAMILIES = "hostile,control,builtins,extract".split(",")


def run(ck):
    q = ck.tier == "quick"
    for fam in FAMILIES:
        progs = getattr(gen, "gen_" + fam)(q, ck.seed)
        machine.run_family(ck, fam, progs, with_signal=(fam == "cancel"))
        ck.cov.setdefault("families", {})[fam] = len(progs)
    machine.describe(ck, FAMILIES)
