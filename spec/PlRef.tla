--------------------------------- MODULE PlRef ---------------------------------
(* Reference semantics of Platypus statements, written from the manual        *)
(* (docs/src/references/01-syntax-spec.md) as a big-step, structurally        *)
(* recursive definition: no control frames, no break/continue/exit flags, no  *)
(* polls.  A statement list yields a new state and an outcome                 *)
(*      "normal" | "break" | "continue" | "exit" | "error".                   *)
(* PlMachine (the implementation-shaped small-step machine) must refine it:   *)
(* TLC checks, for every program it is given, that the machine's              *)
(* uninterrupted run produces exactly the effects, final point and outcome    *)
(* defined here (invariant Refines in PlMachine).                             *)
(*                                                                            *)
(*  - if/elif/else: the first branch whose condition is truthy runs in a      *)
(*    fresh block scope; conditions are evaluated in order in a scope of      *)
(*    their own;                                                              *)
(*  - for init; cond; post: init once in the loop's scope, then while cond    *)
(*    is truthy (absent = true): body in a fresh scope, then post; break      *)
(*    ends the loop, continue goes to post;                                   *)
(*  - for v in x: x is evaluated once; list elements in order, string         *)
(*    characters, map keys (order policy mo); the loop variable is assigned   *)
(*    by the ordinary assignment rule; body-local variables do not survive    *)
(*    an iteration;                                                           *)
(*  - break / continue end the innermost enclosing loop's iteration;          *)
(*  - exit() ends the current script; use(name) runs the named script on the  *)
(*    same point with fresh variables, a callee's exit() ends only the        *)
(*    callee, a callee's error aborts the caller (call site appended); this   *)
(*    holds wherever the call is written, also inside an expression;          *)
(*  - an error anywhere ends everything.                                      *)
EXTENDS PlExpr

\* ExecList / ExecStmt / ForLoop / ForInLoop / PickBranch: see the last section of PlExpr (one recursive group with Eval).

\* a whole run: [status "done"|"error"|"diverge", log, pt, chain, cls]
RefRun(p, mo) ==
  LET prog == [n \in DOMAIN p.scripts |-> Annotate(p.scripts[n])]
      c0 == [prog |-> prog, name |-> p.main, mo |-> mo, v2 |-> p.v2]
      st0 == [sc |-> <<EmptyScope>>, heap |-> <<>>, pt |-> p.pt, log |-> <<>>, xt |-> FALSE, pend |-> "", v2 |-> p.v2, wrap |-> 0,
              pre |-> <<>>, c |-> c0]
      r == ExecList(prog[p.main], 1, st0, c0, p.fuel)
  IN [status |-> IF r.out = "error" THEN "error" ELSE IF r.out = "diverge" THEN "diverge" ELSE "done",
      log |-> r.st.log, pt |-> r.st.pt, cls |-> r.cls, chain |-> r.chain]
=============================================================================
