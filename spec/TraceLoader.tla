----------------------------- MODULE TraceLoader -----------------------------
(* Trace validation for the use() linker: every line of the ndjson trace    *)
(* recorded by the hooks in pkg/engine/callref.go must be explained by one  *)
(* Loader action with the logged arguments, and the logged projection of    *)
(* the real searchPath / retMap must equal the specification's state after  *)
(* that action.  Loader's invariants are evaluated after every event.       *)
(* Many traces are concatenated; a "config" line resets the machine.        *)
EXTENDS Loader, IOUtils

Trace == ndJsonDeserialize(IOEnv.TRACE_FILE)

VARIABLE l
tvars == <<vars, l>>
Ev == Trace[l]
ToSet(s) == {s[k] : k \in 1..Len(s)}

TraceInit == /\ l = 1
             /\ status = [s \in Scripts |-> "parse"] /\ calls = [s \in Scripts |-> <<>>]
             /\ visited = <<>> /\ stk = <<>> /\ path = <<>> /\ onPath = {}
             /\ ret = {} /\ errs = <<>> /\ bind = {} /\ err = NoErr /\ pc = "done"

Consume(name) == l <= Len(Trace) /\ Ev.ev = name /\ l' = l + 1
\* the logged projection of the implementation state after the step
Logged == path' = Ev.path /\ onPath' = ToSet(Ev.on) /\ ret' = ToSet(Ev.ret)

TReset == /\ Consume("config") /\ pc = "done"       \* the previous load ran to completion
          /\ status' = [s \in Scripts |-> Ev.status[s]]
          /\ calls' = [s \in Scripts |-> Ev.calls[s]]
          /\ visited' = <<>> /\ stk' = <<>> /\ path' = <<>> /\ onPath' = {}
          /\ ret' = {} /\ errs' = <<>> /\ bind' = {} /\ err' = NoErr /\ pc' = "driver"

TVisit == Consume("visit") /\ Visit(Ev.a) /\ Logged
TPush == Consume("push") /\ Top.name = Ev.a /\ PushOk /\ Logged
TCycle == Consume("cycle") /\ Top.name = Ev.a /\ PushCycle /\ Logged
TEarly == Consume("early") /\ Top.name = Ev.a /\ Early /\ Logged
AtCall == Top.name = Ev.a /\ Top.i = Ev.i /\ Top.i <= Len(calls[Top.name]) /\ CurTarget = Ev.b
TBind == Consume("bind") /\ pc = "loop" /\ AtCall /\ Bind /\ Logged
TFail == Consume("fail") /\ pc = "loop" /\ AtCall /\ Fail /\ Logged
TUnwind == Consume("unwind") /\ pc = "unwind" /\ Top.name = Ev.a /\ Top.i = Ev.i /\ Unwind /\ Logged
TPop == Consume("pop") /\ Top.name = Ev.a /\ Record /\ Logged

Site(s) == <<s[1], s[2], 2 * s[2] - 1>>       \* call i of a generated script sits at line i, column 2i-1
\* number of leading entries that lie in script f (a broken script's own error may carry several positions)
RECURSIVE OwnPrefix(_, _, _)
OwnPrefix(raw, f, k) == IF k < Len(raw) /\ raw[k + 1][1] = f THEN OwnPrefix(raw, f, k + 1) ELSE k
ChainOK(e, raw, root) ==
  /\ Len(raw) >= 1
  /\ LET own == IF e.kind \in {"parse", "check"} THEN OwnPrefix(raw, e.name, 0) ELSE IF e.kind = "missing" THEN 0 ELSE 1
         tail == SubSeq(raw, own + 1, Len(raw))
     IN /\ (e.kind \in {"parse", "check"} => own >= 1)
        /\ Len(tail) = Len(e.sites)
        /\ \A k \in 1..Len(tail) : tail[k] = Site(e.sites[k])
  /\ e.kind = "cycle" => /\ raw[1][1] \in {root, e.sites[1][1]}
                         /\ raw[1][2] = e.sites[1][2] /\ raw[1][3] = 2 * e.sites[1][2] - 1

TDone == /\ Consume("done") /\ Finish
         /\ ret = ToSet(Ev.acc)
         /\ DOMAIN errs = ToSet(Ev.roots)
         /\ \A k \in 1..Len(Ev.roots) : ChainOK(errs[Ev.roots[k]], Ev.chains[k], Ev.roots[k])

TraceNext == TReset \/ TVisit \/ TPush \/ TCycle \/ TEarly \/ TBind \/ TFail \/ TUnwind \/ TPop \/ TDone
TraceSpec == TraceInit /\ [][TraceNext]_tvars

ASSUME TLCSet(1, 0)
HighWater == TLCSet(1, IF l > TLCGet(1) THEN l ELSE TLCGet(1))
Accepted == IF TLCGet(1) = Len(Trace) + 1 THEN TRUE
            ELSE /\ PrintT("@@" \o ToJson([reject |-> TLCGet(1), line |-> Trace[TLCGet(1)]]))
                 /\ FALSE
=============================================================================
