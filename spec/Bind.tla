--------------------------------- MODULE Bind ---------------------------------
(* Binding of call arguments to declared v2 parameters (C19):               *)
(* declarative Bind, and a left-to-right machine shaped like                *)
(* runtimev2.CheckPassParam + GetParam.  Argument k of a call carries the   *)
(* value k, so a binding says exactly which argument each parameter got.    *)
EXTENDS Integers, Sequences, FiniteSets, TLC, Json

CONSTANTS MaxParams, MaxArgs
PNames == {"a", "b", "c"}
ANames == {"a", "b", "c", "zz"}
Kinds == {"req", "opt", "var"}
Param == [name : PNames, kind : Kinds]
ParamLists == UNION {[1..n -> Param] : n \in 0..MaxParams}
ValidSig(ps) ==
  /\ \A i, j \in DOMAIN ps : i # j => ps[i].name # ps[j].name
  /\ \A i, j \in DOMAIN ps : (i < j /\ ps[i].kind = "opt") => ps[j].kind = "opt"
  /\ \A i \in DOMAIN ps : ps[i].kind = "var" => i = Len(ps)
  /\ \A i, j \in DOMAIN ps : ~(ps[i].kind = "var" /\ ps[j].kind = "opt")
Sigs == {ps \in ParamLists : ValidSig(ps)}
Arg == [named : {FALSE}, name : {""}] \cup [named : {TRUE}, name : ANames]
Calls == UNION {[1..n -> Arg] : n \in 0..MaxArgs}

(* ------------------------------ declarative ----------------------------- *)
HasVar(ps) == Len(ps) > 0 /\ ps[Len(ps)].kind = "var"
NPos(as) == Cardinality({k \in DOMAIN as : ~as[k].named})
PIndex(ps, n) == CHOOSE i \in DOMAIN ps : ps[i].name = n
Known(ps, n) == \E i \in DOMAIN ps : ps[i].name = n
Rejected(ps, as) ==
  \/ \E k \in DOMAIN as : as[k].named /\ HasVar(ps)                       \* named together with variadic
  \/ \E j, k \in DOMAIN as : j < k /\ as[j].named /\ ~as[k].named          \* positional after named
  \/ \E k \in DOMAIN as : as[k].named /\ ~Known(ps, as[k].name)           \* unknown name
  \/ \E j, k \in DOMAIN as : j # k /\ as[j].named /\ as[k].named /\ as[j].name = as[k].name   \* duplicate name
  \/ \E k \in DOMAIN as : as[k].named /\ Known(ps, as[k].name) /\ PIndex(ps, as[k].name) <= NPos(as)  \* named + positional
  \/ (NPos(as) > Len(ps) /\ ~HasVar(ps))                                  \* more arguments than parameters
  \/ \E i \in DOMAIN ps : /\ ps[i].kind = "req"                           \* missing required parameter
                          /\ i > NPos(as)
                          /\ ~\E k \in DOMAIN as : as[k].named /\ as[k].name = ps[i].name
\* what parameter i receives: <<"arg", k>>, <<"default">>, or <<"rest", first positional index>>
Binding(ps, as) ==
  [i \in DOMAIN ps |->
     IF ps[i].kind = "var" THEN <<"rest", i>>
     ELSE IF i <= NPos(as) THEN <<"arg", i>>
     ELSE IF \E k \in DOMAIN as : as[k].named /\ as[k].name = ps[i].name
            THEN <<"arg", CHOOSE k \in DOMAIN as : as[k].named /\ as[k].name = ps[i].name>>
            ELSE <<"default">>]

\* argument k of a call is a literal of kind ArgKind(k); an omitted optional parameter gets its default (a string).
\* The typed getters (GetParamInt / Float / Bool / String / List / Map) succeed exactly on their own kind.
ArgKind(k) == CASE k % 5 = 1 -> "int" [] k % 5 = 2 -> "str" [] k % 5 = 3 -> "float" [] k % 5 = 4 -> "bool" [] OTHER -> "list"
Getters == {"int", "float", "bool", "str", "list", "map"}
BoundKind(b) == IF b[1] = "arg" THEN ArgKind(b[2]) ELSE IF b[1] = "default" THEN "str" ELSE "rest"
GetterOK(g, b) == BoundKind(b) = g

(* -------------------------------- machine ------------------------------- *)
VARIABLES ps, as, k, slots, namedSeen, verdict
vars == <<ps, as, k, slots, namedSeen, verdict>>
\* slots: parameter index (or beyond, for variadic tails) -> argument index, 0 = empty
NSlots == IF Len(as) > Len(ps) THEN Len(as) ELSE Len(ps)

Init == /\ ps \in Sigs /\ as \in Calls /\ k = 1 /\ namedSeen = FALSE /\ verdict = "binding"
        /\ slots = [i \in 1..(IF Len(as) > Len(ps) THEN Len(as) ELSE Len(ps)) |-> 0]

Rej == verdict' = "rejected" /\ UNCHANGED <<ps, as, k, slots, namedSeen>>

Place == /\ verdict = "binding" /\ k <= Len(as)
         /\ IF as[k].named
              THEN IF HasVar(ps) \/ ~Known(ps, as[k].name) THEN Rej
                   ELSE IF slots[PIndex(ps, as[k].name)] # 0 THEN Rej
                   ELSE /\ slots' = [slots EXCEPT ![PIndex(ps, as[k].name)] = k]
                        /\ namedSeen' = TRUE /\ k' = k + 1 /\ UNCHANGED <<ps, as, verdict>>
              ELSE IF namedSeen THEN Rej
                   ELSE IF k > Len(ps) /\ ~HasVar(ps) THEN Rej
                   ELSE /\ slots' = [slots EXCEPT ![k] = k]
                        /\ k' = k + 1 /\ UNCHANGED <<ps, as, namedSeen, verdict>>

Finish == /\ verdict = "binding" /\ k > Len(as)
          /\ verdict' = IF \E i \in DOMAIN ps : ps[i].kind = "req" /\ slots[i] = 0 THEN "rejected" ELSE "accepted"
          /\ UNCHANGED <<ps, as, k, slots, namedSeen>>

Next == Place \/ Finish
Spec == Init /\ [][Next]_vars

MachineAgrees ==
  verdict # "binding" =>
    /\ (verdict = "rejected") = Rejected(ps, as)
    /\ verdict = "accepted" =>
         \A i \in DOMAIN ps :
           LET b == Binding(ps, as)[i] IN
             CASE b[1] = "arg" -> slots[i] = b[2]
               [] b[1] = "default" -> slots[i] = 0
               [] b[1] = "rest" -> \A j \in i..NSlots : slots[j] = (IF j <= Len(as) THEN j ELSE 0)
\* sanity laws of the declarative definition
Laws ==
  verdict = "accepted" =>
    /\ \A i \in DOMAIN ps : ps[i].kind = "req" => Binding(ps, as)[i][1] = "arg"
    /\ \A i, j \in DOMAIN ps : (i # j /\ Binding(ps, as)[i][1] = "arg" /\ Binding(ps, as)[j][1] = "arg")
                                 => Binding(ps, as)[i][2] # Binding(ps, as)[j][2]

Emit == verdict # "binding" =>
          PrintT("@@" \o ToJson([params |-> ps, args |-> as, accepted |-> verdict = "accepted",
                                 binding |-> IF verdict = "accepted" THEN Binding(ps, as) ELSE <<>>,
                                 kinds |-> IF verdict = "accepted" THEN [i \in DOMAIN ps |-> BoundKind(Binding(ps, as)[i])] ELSE <<>>]))
=============================================================================
