package main

import (
	"encoding/json"
	"fmt"
	"sort"
	"strings"
	"time"

	"github.com/GuanceCloud/platypus/pkg/ast"
	"github.com/GuanceCloud/platypus/pkg/inimpl/guancecloud/input"
)

func init() { register("replay-point", replayPoint) }

// spec value: {"k":"int","n":7} | {"k":"float","t":15} (tenths) | {"k":"bool","b":true} | {"k":"str","s":".."} | {"k":"nil"} | list | map
type sval struct {
	K string `json:"k"`
	N int64  `json:"n"`
	T int64  `json:"t"`
	B bool   `json:"b"`
	S string `json:"s"`
}

func (v sval) goVal() any {
	switch v.K {
	case "int":
		return v.N
	case "float":
		return float64(v.T) / 10
	case "bool":
		return v.B
	case "str":
		return v.S
	}
	return nil
}

func (v sval) lit() string {
	switch v.K {
	case "int":
		return fmt.Sprint(v.N)
	case "float":
		return fmt.Sprintf("%.1f", float64(v.T)/10)
	case "bool":
		return fmt.Sprint(v.B)
	case "str":
		return fmt.Sprintf("%q", v.S)
	case "list":
		return "[1]"
	case "map":
		return `{"a": 1}`
	case "void":
		return "some.attr"
	case "unconv":
		return "[1, 1e308 * 10.0]"
	}
	return "nil"
}

func (v sval) same(g any) bool {
	switch v.K {
	case "int":
		x, ok := g.(int64)
		return ok && x == v.N
	case "float":
		x, ok := g.(float64)
		return ok && x == float64(v.T)/10
	case "bool":
		x, ok := g.(bool)
		return ok && x == v.B
	case "str":
		x, ok := g.(string)
		return ok && x == v.S
	case "nil":
		return g == nil
	}
	return false
}

type smeta struct {
	Dt   string `json:"dt"`
	Flag string `json:"flag"`
}

// TLC prints an empty function as [] and a non-empty one as an object.
type objOf[T any] map[string]T

func (o *objOf[T]) UnmarshalJSON(b []byte) error {
	s := strings.TrimSpace(string(b))
	if s == "[]" || s == "null" {
		*o = map[string]T{}
		return nil
	}
	var m map[string]T
	if err := json.Unmarshal(b, &m); err != nil {
		return err
	}
	*o = m
	return nil
}

type sstate struct {
	Meta   objOf[smeta]  `json:"meta"`
	Fields objOf[sval]   `json:"fields"`
	Tags   objOf[string] `json:"tags"`
	Meas   string        `json:"meas"`
}

type sop struct {
	O  string `json:"o"`
	K  string `json:"k"`
	K2 string `json:"k2"`
	V  sval   `json:"v"`
	T  string `json:"T"`
}

// aliasFlip alternates how the key `message` is spelled in generated scripts: by name, or through its alias `_`
var aliasFlip int

func spellKey(k string) string {
	if k == "message" {
		aliasFlip++
		if aliasFlip%2 == 0 {
			return "_"
		}
	}
	return k
}

func (o sop) script() string {
	o.K = spellKey(o.K)
	if o.K2 != "" {
		o.K2 = spellKey(o.K2)
	}
	switch o.O {
	case "add_key":
		return fmt.Sprintf("add_key(%s, %s)", o.K, o.V.lit())
	case "set_tag_lit":
		return fmt.Sprintf("set_tag(%s, %s)", o.K, o.V.lit())
	case "set_tag":
		return fmt.Sprintf("set_tag(%s)", o.K)
	case "set_tag_from":
		return fmt.Sprintf("set_tag(%s, %s)", o.K, o.K2)
	case "set_tag_unconv":
		if o.T == "attr" {
			return fmt.Sprintf("set_tag(%s, some.attr)", o.K)
		}
		return fmt.Sprintf("zzbig = 1e308 * 10.0\nzzl = [zzbig]\nset_tag(%s, zzl)", o.K)
	case "drop_key":
		return fmt.Sprintf("drop_key(%s)", o.K)
	case "rename":
		return fmt.Sprintf("rename(%s, %s)", o.K, o.K2)
	case "cast":
		return fmt.Sprintf("cast(%s, %q)", o.K, o.T)
	case "set_measurement":
		return fmt.Sprintf("set_measurement(%s, true)", o.K)
	}
	return "?"
}

var fixedTime = time.Unix(1700000000, 0)

func buildPoint(s sstate) *input.Point {
	tags := map[string]string{}
	for k, v := range s.Tags {
		tags[k] = v
	}
	fields := map[string]any{}
	for k, v := range s.Fields {
		fields[k] = v.goVal()
	}
	// a key the index knows as a tag although the point has no such tag (a tag that was given "no value"): built the way it arises
	var dangling []string
	for k, m := range s.Meta {
		if _, has := s.Tags[k]; !has && m.Flag == "tag" {
			tags[k] = "placeholder"
			dangling = append(dangling, k)
		}
	}
	pt := &input.Point{}
	input.InitPt(pt, s.Meas, tags, fields, fixedTime)
	for _, k := range dangling {
		_ = pt.Set(k, nil, ast.Void)
	}
	return pt
}

// diffPoint compares the real point's three structures (and Get) with a spec state.
func diffPoint(pt *input.Point, d sstate, keys []string) map[string]any {
	bad := map[string]any{}
	if pt.Measurement != d.Meas {
		bad["measurement"] = map[string]any{"want": d.Meas, "got": pt.Measurement}
	}
	for k, m := range pt.Meta {
		w, ok := d.Meta[k]
		flag := "field"
		if m.PtFlag == input.PtTag {
			flag = "tag"
		}
		if !ok {
			bad["meta:"+k] = fmt.Sprintf("index has %s(%s,%s) but the key must be absent", k, m.DType, flag)
		} else if w.Dt != m.DType.String() || w.Flag != flag {
			bad["meta:"+k] = map[string]any{"want": w, "got": []string{m.DType.String(), flag}}
		}
	}
	for k, w := range d.Meta {
		if _, ok := pt.Meta[k]; !ok {
			bad["meta:"+k] = map[string]any{"want": w, "got": "no index entry"}
		}
	}
	for k, v := range pt.Fields {
		w, ok := d.Fields[k]
		if !ok {
			bad["field:"+k] = map[string]any{"want": "absent", "got": fmt.Sprintf("%T(%v)", v, v)}
		} else if !w.same(v) {
			bad["field:"+k] = map[string]any{"want": w, "got": fmt.Sprintf("%T(%v)", v, v)}
		}
	}
	for k, w := range d.Fields {
		if _, ok := pt.Fields[k]; !ok {
			bad["field:"+k] = map[string]any{"want": w, "got": "absent"}
		}
	}
	for k, v := range pt.Tags {
		if w, ok := d.Tags[k]; !ok || w != v {
			bad["tag:"+k] = map[string]any{"want": d.Tags[k], "want_present": ok, "got": v}
		}
	}
	for k, w := range d.Tags {
		if _, ok := pt.Tags[k]; !ok {
			bad["tag:"+k] = map[string]any{"want": w, "got": "absent"}
		}
	}
	// reads through the index
	for _, k := range keys {
		v, t, err := pt.Get(k)
		_, present := d.Meta[k]
		if !present {
			if err == nil {
				bad["get:"+k] = fmt.Sprintf("absent key reads %T(%v) %s", v, v, t)
			}
			continue
		}
		var want sval
		if f, ok := d.Fields[k]; ok {
			want = f
		} else if tv, ok := d.Tags[k]; ok {
			want = sval{K: "str", S: tv}
		} else {
			want = sval{K: "nil"} // known to the index as a tag, no such tag in the point: reads nil
		}
		if err != nil || !want.same(v) || (want.K != t.String()) {
			bad["get:"+k] = map[string]any{"want": want, "got": fmt.Sprintf("%T(%v) %s err=%v", v, v, t, err)}
		}
	}
	return bad
}

func replayPoint(args []string) (any, error) {
	sum := &Summary{}
	cache := newScriptCache()
	seenOps := map[string]bool{}
	constructFails := 0
	err := readNDJSON(args[0], func(raw json.RawMessage) error {
		var row struct {
			S  sstate `json:"s"`
			Op sop    `json:"op"`
			D  sstate `json:"d"`
		}
		if err := json.Unmarshal(raw, &row); err != nil {
			return fmt.Errorf("%v in %s", err, string(raw))
		}
		if row.Op.O == "init" {
			return nil
		}
		sum.Evaluations++
		keyset := map[string]bool{row.Op.K: true}
		if row.Op.K2 != "" {
			keyset[row.Op.K2] = true
		}
		for k := range row.S.Meta {
			keyset[k] = true
		}
		for k := range row.D.Meta {
			keyset[k] = true
		}
		keys := []string{}
		for k := range keyset {
			keys = append(keys, k)
		}
		sort.Strings(keys)
		text := row.Op.script()
		okind := row.Op.O + ":" + row.Op.T + ":" + row.Op.V.K
		if m, ok := row.S.Meta[row.Op.K]; ok {
			okind += ":" + m.Flag + ":" + m.Dt
		} else {
			okind += ":absent"
		}
		if !seenOps[okind] {
			seenOps[okind] = true
			sum.Distinct++
		}
		sig := "point:" + text + "@" + stateSig(row.S)
		pt := buildPoint(row.S)
		if pre := diffPoint(pt, row.S, keys); len(pre) > 0 {
			// InitPt (and Set for a tag without value) are the code under test as well: a freshly initialised point that does not hold
			// exactly the tags and fields it was given - e.g. because recycled index entries are shared - is a disagreement
			constructFails++
			sum.miss("point:init:"+stateSig(row.S), map[string]any{"note": "a point initialised from these tags and fields does not hold them", "bad": pre})
			if constructFails > 50 {
				return nil
			}
			return nil
		}
		sc, err := cache.load(text)
		if err != nil {
			sum.miss(sig, map[string]any{"script": text, "load_error": err.Error()})
			return nil
		}
		if e := sc.Run(pt, nil); e != nil {
			sum.miss(sig, map[string]any{"script": text, "run_error": e.Error(), "state": row.S})
			return nil
		}
		bad := diffPoint(pt, row.D, keys)
		// script-level read of every key
		rd, err := cache.load("probe(" + strings.Join(keys, ", ") + ")")
		if err != nil {
			return err
		}
		cache.log = cache.log[:0]
		if e := rd.Run(pt, nil); e != nil {
			bad["read"] = e.Error()
		} else if len(cache.log) == 1 {
			for i, k := range keys {
				want := sval{K: "nil"}
				if f, ok := row.D.Fields[k]; ok {
					want = f
				} else if t, ok := row.D.Tags[k]; ok {
					want = sval{K: "str", S: t}
				}
				got, gt := cache.log[0].Vals[i], cache.log[0].Types[i]
				if !want.same(got) || gt != dtypeOf(want.K) {
					bad["script-read:"+k] = map[string]any{"want": want, "got": fmt.Sprintf("%T(%v) %s", got, got, gt)}
				}
			}
		}
		if len(bad) > 0 {
			sum.miss(sig, map[string]any{"script": text, "state": row.S, "want": row.D, "bad": bad})
		}
		sum.sample(map[string]any{"state": stateSig(row.S), "script": text, "after": stateSig(row.D)})
		return nil
	})
	return sum, err
}

func dtypeOf(k string) ast.DType {
	switch k {
	case "int":
		return ast.Int
	case "float":
		return ast.Float
	case "bool":
		return ast.Bool
	case "str":
		return ast.String
	}
	return ast.Nil
}

func stateSig(s sstate) string {
	keys := []string{}
	for k := range s.Meta {
		keys = append(keys, k)
	}
	sort.Strings(keys)
	var b strings.Builder
	b.WriteString(s.Meas + "|")
	for _, k := range keys {
		if f, ok := s.Fields[k]; ok {
			fmt.Fprintf(&b, "%s=F:%s:%s;", k, f.K, f.lit())
		} else {
			fmt.Fprintf(&b, "%s=T:%q;", k, s.Tags[k])
		}
	}
	return b.String()
}
