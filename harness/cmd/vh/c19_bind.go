package main

import (
	"encoding/json"
	"fmt"
	"reflect"
	"strings"

	"github.com/GuanceCloud/platypus/pkg/ast"
	"github.com/GuanceCloud/platypus/pkg/engine"
	"github.com/GuanceCloud/platypus/pkg/engine/runtimev2"
	"github.com/GuanceCloud/platypus/pkg/errchain"
)

func init() {
	register("replay-bindsig", replayBindSig)
	register("replay-bind", replayBind)
}

type specParam struct {
	Name string `json:"name"`
	Kind string `json:"kind"`
}

func mkParams(ps []specParam) []*runtimev2.Param {
	out := make([]*runtimev2.Param, len(ps))
	for i, p := range ps {
		q := &runtimev2.Param{Name: p.Name}
		if p.Name == "uni" { // placeholder for a one-letter non-ASCII name (see BindSig.tla)
			q.Name = "é"
		}
		switch p.Kind {
		case "opt":
			d := fmt.Sprintf("def%d", i+1)
			q.Val = func() any { return d }
		case "var":
			q.Variable = true
		}
		out[i] = q
	}
	return out
}

func sigText(ps []specParam) string {
	parts := []string{}
	for _, p := range ps {
		parts = append(parts, fmt.Sprintf("%s:%q", p.Kind, p.Name))
	}
	return "(" + strings.Join(parts, ",") + ")"
}

func replayBindSig(args []string) (any, error) {
	sum := &Summary{}
	err := readNDJSON(args[0], func(raw json.RawMessage) error {
		var v struct {
			Params []specParam `json:"params"`
			Valid  bool        `json:"valid"`
		}
		if err := json.Unmarshal(raw, &v); err != nil {
			return err
		}
		sum.Evaluations++
		sum.Distinct++
		err := runtimev2.CheckFnParamDef(mkParams(v.Params))
		if (err == nil) != v.Valid {
			sum.miss("bindsig:"+sigText(v.Params), map[string]any{"params": v.Params, "want_valid": v.Valid, "got_err": fmt.Sprint(err)})
		}
		sum.sample(map[string]any{"params": sigText(v.Params), "valid": v.Valid})
		return nil
	})
	return sum, err
}

func replayBind(args []string) (any, error) {
	sum := &Summary{}
	err := readNDJSON(args[0], func(raw json.RawMessage) error {
		var v struct {
			Params []specParam `json:"params"`
			Args   []struct {
				Named bool   `json:"named"`
				Name  string `json:"name"`
			} `json:"args"`
			Accepted bool    `json:"accepted"`
			Binding  [][]any `json:"binding"`
		}
		if err := json.Unmarshal(raw, &v); err != nil {
			return err
		}
		sum.Evaluations++
		params := mkParams(v.Params)
		if e := runtimev2.CheckFnParamDef(params); e != nil {
			sum.miss("bind-sig:"+sigText(v.Params), map[string]any{"params": v.Params, "unexpected_invalid": e.Error()})
			return nil
		}
		parts := []string{}
		npos := 0
		for k, a := range v.Args {
			if a.Named {
				parts = append(parts, fmt.Sprintf("%s=%d", a.Name, k+1))
			} else {
				parts = append(parts, fmt.Sprint(k+1))
				npos++
			}
		}
		text := "f(" + strings.Join(parts, ", ") + ")"
		sig := "bind:" + sigText(v.Params) + text
		var got []any
		var getErr *errchain.PlError
		fn := map[string]*runtimev2.Fn{"f": {
			CallCheck: func(ctx *runtimev2.Task, e *ast.CallExpr) *errchain.PlError {
				return runtimev2.CheckPassParam(ctx, e, params)
			},
			Call: func(ctx *runtimev2.Task, e *ast.CallExpr) *errchain.PlError {
				for i := range params {
					x, err := runtimev2.GetParam(ctx, e, params, i)
					if err != nil {
						getErr = err
						return err
					}
					got = append(got, x)
				}
				return nil
			},
		}}
		sc, lerr := engine.ParseV2("s.p", text, fn)
		if (lerr == nil) != v.Accepted {
			sum.miss(sig, map[string]any{"params": v.Params, "call": text, "want_accepted": v.Accepted, "load_err": fmt.Sprint(lerr)})
			return nil
		}
		if v.Accepted {
			sum.Distinct++
			rerr := sc.Run(nil)
			want := []any{}
			for i, b := range v.Binding {
				switch b[0].(string) {
				case "arg":
					want = append(want, int64(b[1].(float64)))
				case "default":
					want = append(want, fmt.Sprintf("def%d", i+1))
				case "rest":
					rest := []any{}
					for k := int(b[1].(float64)); k <= npos; k++ {
						rest = append(rest, int64(k))
					}
					want = append(want, rest)
				}
			}
			norm := func(xs []any) []any {
				out := make([]any, len(xs))
				for i, x := range xs {
					if s, ok := x.([]any); ok && len(s) == 0 {
						out[i] = []any{}
					} else {
						out[i] = x
					}
				}
				return out
			}
			if rerr != nil || getErr != nil || !reflect.DeepEqual(norm(got), norm(want)) {
				sum.miss(sig, map[string]any{"params": v.Params, "call": text, "want": fmt.Sprint(want), "got": fmt.Sprint(got), "run_err": fmt.Sprint(rerr)})
			}
		}
		sum.sample(map[string]any{"params": sigText(v.Params), "call": text, "accepted": v.Accepted, "binding": v.Binding})
		return nil
	})
	return sum, err
}
