"""Helpers shared by the per-property checks."""
import json
import os

from lib import vlib


def tlc_emit(ck, module, cfg, label, workers=None, timeout=900, **kw):
    """Exhaustive TLC run of a committed spec: must verify (else exit 2); returns emitted records."""
    res = vlib.tlc(module, cfg, workers=workers or vlib.NCPU, timeout=timeout, **kw)
    vlib.tlc_must_pass(res, label)
    ck.add_tlc(res, label)
    return res, res.emitted()


def replay(ck, cmd, rows, label, extra_args=(), race=False, shards=1, env=None):
    """Feed TLC-emitted vectors to the harness; every mismatch is a reproduced behaviour of the real code."""
    d = vlib.workdir("vec")
    path = os.path.join(d, label + ".ndjson")
    vlib.write_ndjson(path, rows)
    res = vlib.vh_json([cmd, path] + list(extra_args), race=race, env=env)
    return absorb(ck, res, label, cmd=[cmd] + list(extra_args))


def absorb(ck, res, label, cmd=None):
    ck.add("evaluations", res["evaluations"])
    ck.add("distinct_nontrivial", res.get("distinct", 0))
    ck.cov.setdefault("parts", {})[label] = {"evaluations": res["evaluations"], "distinct": res.get("distinct", 0),
                                             "mismatches": len(res.get("mismatches") or [])}
    if res.get("extra"):
        ck.cov["parts"][label]["extra"] = res["extra"]
    for s in (res.get("samples") or [])[:2]:
        ck.sample({label: s})
    for m in res.get("mismatches") or []:
        det = {"part": label, **(m["detail"] if isinstance(m["detail"], dict) else {"detail": m["detail"]})}
        if cmd and m.get("vec") is not None:
            det["replay"] = {"cmd": cmd, "vec": m["vec"]}
        ck.disagreement(m["sig"], det)
    return res


def validate_traces(ck, module, cfg, trace_path, label, is_reset, timeout=900, max_rejects=5):
    """I->S: TLC checks that the recorded ndjson trace file (many traces, each starting at a line for which
    is_reset(rec) holds) is a behaviour of the trace specification, evaluating the spec's invariants after
    every event.  A rejected trace is re-validated alone (fresh TLC process); only then is it a disagreement.
    Returns the number of traces accepted."""
    lines = [l for l in open(trace_path).read().splitlines() if l.strip()]
    # split into traces
    traces, cur = [], []
    for ln in lines:
        rec = json.loads(ln)
        if is_reset(rec) and cur:
            traces.append(cur)
            cur = []
        cur.append(ln)
    if cur:
        traces.append(cur)
    accepted = 0
    pending = traces
    rejects = 0
    d = vlib.workdir("traces")
    n = 0
    while pending:
        n += 1
        path = os.path.join(d, "%s-%d.ndjson" % (label, n))
        with open(path, "w") as fh:
            fh.write("\n".join(l for t in pending for l in t) + "\n")
        res = vlib.tlc(module, cfg, workers=1, timeout=timeout, env={"TRACE_FILE": path})
        ck.add_tlc(res, "%s/validate#%d" % (module, n))
        rej = [r for r in res.emitted() if "reject" in r]
        if res.ok and not rej:
            accepted += len(pending)
            break
        if res.invariant and not rej:
            # an invariant of the spec failed on a state reached by following the implementation's trace
            rej = [{"reject": None, "invariant": res.invariant}]
        if not rej:
            raise vlib.Broken("trace validation of %s ended without verdict:\n%s" % (label, res.out[-3000:]))
        # locate the offending trace
        if rej[0]["reject"] is None:
            # find by bisection: validate traces one by one (rare path)
            bad_idx = None
            for i, t in enumerate(pending):
                p1 = os.path.join(d, "%s-one.ndjson" % label)
                open(p1, "w").write("\n".join(t) + "\n")
                r1 = vlib.tlc(module, cfg, workers=1, timeout=timeout, env={"TRACE_FILE": p1})
                if not r1.ok:
                    bad_idx = i
                    break
            if bad_idx is None:
                raise vlib.Broken("invariant %s failed on the concatenation but on no single trace" % res.invariant)
            lineno, offending = None, {"invariant": res.invariant}
        else:
            lineno = rej[0]["reject"]
            offending = rej[0].get("line")
            acc, bad_idx = 0, None
            for i, t in enumerate(pending):
                if lineno <= acc + len(t):
                    bad_idx = i
                    break
                acc += len(t)
            if bad_idx is None:
                # all lines consumed but the last trace did not complete
                bad_idx = len(pending) - 1
        bad = pending[bad_idx]
        accepted += bad_idx
        # reproduce alone in a fresh process
        p1 = os.path.join(d, "%s-repro.ndjson" % label)
        open(p1, "w").write("\n".join(bad) + "\n")
        r1 = vlib.tlc(module, cfg, workers=1, timeout=timeout, env={"TRACE_FILE": p1})
        if r1.ok and not [r for r in r1.emitted() if "reject" in r]:
            raise vlib.Broken("trace rejected in concatenation but accepted alone (%s)" % label)
        first = json.loads(bad[0])
        ck.disagreement("trace:%s:%s" % (label, json.dumps(first, sort_keys=True)[:300]),
                        {"part": label + " (trace validation)", "rejected_event": offending,
                         "trace_head": [json.loads(x) for x in bad[:3]], "trace_len": len(bad),
                         "trace": [json.loads(x) for x in bad] if len(bad) < 80 else None})
        rejects += 1
        pending = pending[bad_idx + 1:]
        if rejects >= max_rejects:
            break
    ck.add("traces_validated_against_impl", accepted + rejects)
    ck.cov.setdefault("parts", {})[label + "/traces"] = {"traces": len(traces), "events": len(lines),
                                                         "accepted": accepted, "rejected": rejects}
    return accepted


def replay_file(path):
    """bin/check Cxx quick --replay <violation file>: re-run the single recorded vector against /repo."""
    v = json.load(open(path))
    rp = (v.get("detail") or {}).get("replay")
    if not rp:
        print("this violation was found by trace validation; re-run the check to reproduce it")
        print(json.dumps(v, indent=1)[:4000])
        return 1
    d = vlib.workdir("replay")
    p = os.path.join(d, "one.ndjson")
    vlib.write_ndjson(p, [rp["vec"]])
    res = vlib.vh_json([rp["cmd"][0], p] + rp["cmd"][1:])
    for m in res.get("mismatches") or []:
        print("VIOLATION property=%s replay=%s" % (v.get("property"), path))
        print(json.dumps(m["detail"], indent=1)[:4000])
        return 1
    print("no mismatch on the current tree for this vector")
    return 0
