------------------------------ MODULE ParamName ------------------------------
(* Validity of a declared parameter name (C19, isValidParamName): a name is  *)
(* an identifier - a letter or underscore followed by letters, digits and    *)
(* underscores, where "letter" and "digit" are the Unicode categories, not   *)
(* their ASCII subsets and not properties of single bytes.                   *)
(* Names are sequences of CHARACTER classes; the harness spells each class   *)
(* with several concrete characters (different UTF-8 lengths and lead bytes: *)
(* a character is one code point however many bytes it takes).               *)
(*   L  ASCII letter      U  underscore     D  ASCII digit                   *)
(*   uL non-ASCII letter  uD non-ASCII decimal digit                         *)
(*   uS non-ASCII character that is neither (a sign, a space, punctuation)   *)
(*   P  ASCII punctuation S  ASCII space                                     *)
(* The scanning machine is shaped like the code (first character, then the   *)
(* rest one by one); ScanAgrees ties it to the declarative rule.             *)
EXTENDS Integers, Sequences, TLC, Json

CONSTANT MaxLen
Classes == {"L", "U", "D", "uL", "uD", "uS", "P", "S"}
Names == UNION {[1..n -> Classes] : n \in 0..MaxLen}

Start(c) == c \in {"L", "U", "uL"}
Part(c) == c \in {"L", "U", "D", "uL", "uD"}
ValidName(s) == /\ Len(s) > 0 /\ Start(s[1]) /\ \A i \in 2..Len(s) : Part(s[i])

VARIABLES name, i, verdict
vars == <<name, i, verdict>>
Init == name \in Names /\ i = 1 /\ verdict = "scanning"
Empty == /\ verdict = "scanning" /\ Len(name) = 0 /\ verdict' = "invalid" /\ UNCHANGED <<name, i>>
First == /\ verdict = "scanning" /\ i = 1 /\ Len(name) > 0
         /\ IF Start(name[1]) THEN i' = 2 /\ UNCHANGED verdict ELSE verdict' = "invalid" /\ UNCHANGED i
         /\ UNCHANGED name
Rest == /\ verdict = "scanning" /\ i > 1 /\ i <= Len(name)
        /\ IF Part(name[i]) THEN i' = i + 1 /\ UNCHANGED verdict ELSE verdict' = "invalid" /\ UNCHANGED i
        /\ UNCHANGED name
Done == /\ verdict = "scanning" /\ i > 1 /\ i > Len(name) /\ verdict' = "valid" /\ UNCHANGED <<name, i>>
Next == Empty \/ First \/ Rest \/ Done
Spec == Init /\ [][Next]_vars

ScanAgrees == verdict # "scanning" => (verdict = "valid") = ValidName(name)
Emit == verdict # "scanning" => PrintT("@@" \o ToJson([name |-> name, valid |-> verdict = "valid"]))
=============================================================================
