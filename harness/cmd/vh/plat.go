package main

import (
	"github.com/GuanceCloud/platypus/pkg/inimpl/guancecloud/funcs"
	"github.com/GuanceCloud/platypus/pkg/parser"
	"go.uber.org/zap"
)

// The repository's packages log to stdout at debug level by default; the harness owns stdout.
func init() {
	nop := zap.NewNop().Sugar()
	funcs.InitLog(nop)
	parser.InitLog(nop)
}

// disturbTexts: texts the parser rejects (unbalanced brackets of every kind, unterminated literals, rejected operands) or accepts
// in unusual states.  The replay drivers parse one of them before every text they judge, so that a verdict never depends on the
// pooled parser / lexer happening to be fresh: what a text parses to must not depend on what was parsed before it.
var disturbTexts = []string{"f(a", "a)", "x = [1, 2", "x]", "if a {", "}", "\"abc", "x = (1 + ] 2", "-0x", "x = {\"k\": [1, (2", "'''open",
	"`open", "for ;; {", "x = a[1:", "y = 1 +", ")))", "]]", "}}", "x = \"\\x", "a = 1 # c",
	// valid texts that name things like keywords / functions / other tokens (identifier tables, interning, memoised lookups)
	"`in` = 1\n`true` = `in`\n`nil` = `false`", "`if` = `for` + `elif`\n`else` = `break`", "`continue` = `null` + `nan` + `inf`",
	"`len` = 1\n`probe` = `use`", "`a b` = `+`\n`1` = `\"`", "IF = 1\nTrue1 = Nil_", "x = TRUE && False || NIL == NULL"}

var disturbN int

func disturbParser() {
	disturbN++
	_, _ = parser.ParsePipeline("junk.p", disturbTexts[disturbN%len(disturbTexts)])
}
