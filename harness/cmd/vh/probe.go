package main

import (
	"github.com/GuanceCloud/platypus/pkg/ast"
	"github.com/GuanceCloud/platypus/pkg/engine"
	plruntime "github.com/GuanceCloud/platypus/pkg/engine/runtime"
	"github.com/GuanceCloud/platypus/pkg/errchain"
	"github.com/GuanceCloud/platypus/pkg/inimpl/guancecloud/funcs"
)

// Probed is one observation made by the host-supplied probe() builtin: the evaluated arguments.
type Probed struct {
	Vals  []any
	Types []ast.DType
}

// funcTables returns the real builtin tables extended with probe(...), which evaluates each argument
// with the interpreter and appends what it received to *log.
func funcTables(log *[]Probed) (map[string]plruntime.FuncCall, map[string]plruntime.FuncCheck) {
	call := map[string]plruntime.FuncCall{}
	check := map[string]plruntime.FuncCheck{}
	for k, v := range funcs.FuncsMap {
		call[k] = v
	}
	for k, v := range funcs.FuncsCheckMap {
		check[k] = v
	}
	call["probe"] = func(ctx *plruntime.Task, e *ast.CallExpr) *errchain.PlError {
		p := Probed{}
		for _, a := range e.Param {
			v, t, err := plruntime.RunStmt(ctx, a)
			if err != nil {
				return err
			}
			p.Vals = append(p.Vals, v)
			p.Types = append(p.Types, t)
		}
		if log != nil {
			*log = append(*log, p)
		}
		return nil
	}
	check["probe"] = func(ctx *plruntime.Task, e *ast.CallExpr) *errchain.PlError { return nil }
	return call, check
}

type scriptCache struct {
	log   []Probed
	call  map[string]plruntime.FuncCall
	check map[string]plruntime.FuncCheck
	m     map[string]*plruntime.Script
	errs  map[string]error
}

func newScriptCache() *scriptCache {
	c := &scriptCache{m: map[string]*plruntime.Script{}, errs: map[string]error{}}
	c.call, c.check = funcTables(&c.log)
	return c
}

// load returns the loaded single script "s.p" for the text (cached), or its load error.
func (c *scriptCache) load(text string) (*plruntime.Script, error) {
	if s, ok := c.m[text]; ok {
		return s, nil
	}
	if e, ok := c.errs[text]; ok {
		return nil, e
	}
	ok, errs := engine.ParseScript(map[string]string{"s.p": text}, c.call, c.check)
	if e, bad := errs["s.p"]; bad {
		c.errs[text] = e
		return nil, e
	}
	c.m[text] = ok["s.p"]
	return ok["s.p"], nil
}
