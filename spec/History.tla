-------------------------------- MODULE History --------------------------------
(* Run independence (C15): the answer to every load / run operation is a      *)
(* function of the operation alone - whatever ran, failed, exited or was      *)
(* cancelled before it, and although parser, task and point objects are       *)
(* recycled through pools.                                                    *)
(*                                                                            *)
(* The model keeps, for every pooled object, which of its fields still hold   *)
(* the previous user's data ("dirty").  Taking an object from its pool        *)
(* re-initialises the fields the code re-initialises (Reset); an operation    *)
(* then writes some fields before it reads them (Writes) and reads some       *)
(* (Reads).  NoStaleRead: no operation ever reads a field that is still       *)
(* dirty.  TLC explores every history of operations up to MaxLen and emits    *)
(* each one; the harness executes it in ONE process with deterministic pool   *)
(* reuse and compares every operation's result with the result of the same    *)
(* operation performed first in a fresh process (and, for runs, with the      *)
(* interpreter model's outcome).                                              *)
EXTENDS Integers, Sequences, FiniteSets, TLC, Json, HistoryTables

CONSTANTS NOps,      \* operations are numbered 1..NOps; their kinds are given by KindOf
          MaxLen

\* kinds of operations in the pool (index = operation number, see lib/genhist.py)
Kinds == <<"run_ok", "parse_err_eof", "parse_err_mid", "lex_err", "check_err", "run_err_in_loops", "run_exit_in_loop",
           "run_cancelled", "run_use", "run_err_after_return", "run_rename_drop", "parse_rejected_operand", "run_v2",
           "run_err_in_if", "run_err_in_cond", "run_bq_keywords", "run_emptymap_write", "run_emptymap_read", "run_void_into_keys", "run_typed_fields", "run_loadjson_mutate", "check_err_in_loop", "check_err_stray_break", "run_grok_digits", "run_grok_letters", "check_err_grok", "run_sql_bs1", "run_sql_bs2",
           "run_default_time", "run_zero_time", "run_use_badregex", "run_use_callee_err", "run_err_in_call_args", "run_strfmt", "run_use_lib_a", "run_use_lib_b", "run_zone_name", "run_zone_name_lower", "run_replace_upper", "run_replace_lower", "run_ok">>
\* operation NOps + k re-runs the script that operation k loaded earlier in the same history (no load in between)
KindOf(o) == IF o > NOps THEN "rerun" ELSE Kinds[((o - 1) % Len(Kinds)) + 1]
RunKinds == {"run_ok", "run_err_in_loops", "run_exit_in_loop", "run_cancelled", "run_use", "run_err_after_return", "run_rename_drop",
             "run_v2", "run_err_in_if", "run_err_in_cond", "run_bq_keywords", "run_emptymap_write", "run_emptymap_read", "run_void_into_keys", "run_typed_fields", "run_loadjson_mutate", "run_grok_digits", "run_grok_letters", "run_sql_bs1", "run_sql_bs2",
             "run_default_time", "run_zero_time", "run_use_badregex", "run_use_callee_err",
             "run_err_in_call_args", "run_strfmt", "run_use_lib_a", "run_use_lib_b", "run_zone_name", "run_zone_name_lower", "run_replace_upper", "run_replace_lower"}

Fields == [o \in Objects |-> FieldsOf(o)]
Reset == [o \in Objects |-> ResetOf(o)]
WritesFirst == [o \in Objects |-> WritesFirstOf(o)]
\* objects and fields an operation of each kind uses
Uses(k) == IF k \in {"parse_err_eof", "parse_err_mid", "lex_err", "parse_rejected_operand"} THEN {"parser"}
           ELSE IF k \in {"check_err", "check_err_grok", "check_err_in_loop", "check_err_stray_break"} THEN {"parser", "task"}
           ELSE IF k = "run_v2" THEN {"parser"}
           ELSE IF k = "rerun" THEN {"task", "point"}
           ELSE {"parser", "task", "point"}
Reads(o) == Fields[o]
\* fields an operation leaves dirty when it is done (everything it touched)
Leaves(k, o) == Fields[o]

VARIABLES hist, dirty, stale
vars == <<hist, dirty, stale>>

Init == hist = <<>> /\ dirty = [o \in Objects |-> {}] /\ stale = FALSE

Do(op) ==
  LET k == KindOf(op)
      used == Uses(k)
      afterGet == [o \in Objects |-> IF o \in used THEN (dirty[o] \ Reset[o]) \ WritesFirst[o] ELSE dirty[o]]
      staleRead == \E o \in used : afterGet[o] \cap Reads(o) # {}
  IN /\ Len(hist) < MaxLen
     /\ hist' = Append(hist, op)
     /\ stale' = (stale \/ staleRead)
     /\ dirty' = [o \in Objects |-> IF o \in used THEN Leaves(k, o) ELSE dirty[o]]
Rerun(k) == /\ KindOf(k) \in RunKinds
            /\ \E i \in 1..Len(hist) : hist[i] = k
            /\ Do(NOps + k)
Next == \/ \E op \in 1..NOps : Do(op)
        \/ \E k \in 1..NOps : Rerun(k)
Spec == Init /\ [][Next]_vars

NoStaleRead == ~stale
Emit == hist # <<>> => PrintT("@@" \o ToJson([h |-> hist]))
=============================================================================
