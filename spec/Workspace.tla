------------------------------ MODULE Workspace ------------------------------
(* Workspace discovery and script selection of `platypus run` (C20):        *)
(* which directory entries are scripts, which script `-s name` selects, and  *)
(* what the selected script's load verdict and effects are - as a function   *)
(* of the directory's content.                                               *)
(*                                                                           *)
(* Shaped like the code: engine.ReadPlScriptFromDir visits the directory     *)
(* entries one by one (Classify), engine.ParseScript parses/checks every     *)
(* script found (Parse) and links their use() calls (Link), run.loadScript   *)
(* picks the verdict of the selected name (Select), run.runScript runs it    *)
(* and prints (RunPrint).  The declarative side (Scripts, Acc, Effects,      *)
(* Outcome) is written from the property: a workspace is "a directory of     *)
(* .p/.ppl files"; the selected script is loaded together with them; the     *)
(* output is what the library yields for that script.                        *)
(*                                                                           *)
(* What the model pins down and the replay checks against the real runner:   *)
(*   - only regular entries whose extension is exactly .p or .ppl are        *)
(*     scripts (a directory named x.p, notes.txt, a.p.bak are not; a file    *)
(*     named just `.p` is);                                                  *)
(*   - a script is known by its full file name: main.p and main.ppl are two  *)
(*     scripts, use("lib") does not find lib.p;                              *)
(*   - the verdict of the selected script depends only on the scripts it     *)
(*     reaches through use(): a sibling that does not parse, does not check  *)
(*     or does not link is no reason to refuse an unrelated selection        *)
(*     (invariant BystandersIrrelevant, checked over EVERY subset of the     *)
(*     sibling universe);                                                    *)
(*   - selecting a name that is not a script of the workspace is an error,   *)
(*     never the run of something else.                                      *)
EXTENDS Integers, Sequences, FiniteSets, TLC, Json

CONSTANTS BrokenSiblingPoisons,  \* named deviation: any rejected script in the workspace refuses the selection
          AnyOrder,              \* TRUE: the directory entries are visited in every order; FALSE: in one fixed order
          SiblingCounts          \* the numbers of sibling entries explored (a set of naturals)

(* ------------------------------- entries --------------------------------- *)
\* body: "ok" | "syntax" | "check" ; uses: sequence of names passed to use()
Ent(name, ext, type, body, uses) == [name |-> name, ext |-> ext, type |-> type, body |-> body, uses |-> uses]

Siblings == {
  Ent("lib.p",     ".p",   "file", "ok",     <<>>),
  Ent("other.ppl", ".ppl", "file", "ok",     <<>>),
  Ent("bad.p",     ".p",   "file", "syntax", <<>>),
  Ent("chk.ppl",   ".ppl", "file", "check",  <<>>),
  Ent("lnk.p",     ".p",   "file", "ok",     <<"missing.p">>),
  Ent("via.p",     ".p",   "file", "ok",     <<"lib.p">>),
  Ent("cyc.p",     ".p",   "file", "ok",     <<"main.p">>),
  Ent("notes.txt", ".txt", "file", "ok",     <<>>),
  Ent("a.p.bak",   ".bak", "file", "ok",     <<>>),
  Ent("sub.p",     ".p",   "dir",  "ok",     <<>>),
  Ent(".p",        ".p",   "file", "ok",     <<>>),      \* nothing before the extension: still a file whose name ends in .p
  Ent("ln.p",      ".p",   "link", "ok",     <<>>) }      \* a symbolic link to a script file kept elsewhere: read like the file it names      \* nothing before the extension: still a file whose name ends in .p

\* what the selected main.p may contain: nothing special, or one or two use() calls
MainUses == { <<>>, <<"lib.p">>, <<"other.ppl">>, <<"bad.p">>, <<"chk.ppl">>, <<"lnk.p">>, <<"via.p">>, <<"cyc.p">>,
              <<"notes.txt">>, <<"a.p.bak">>, <<"sub.p">>, <<"lib">>, <<"main.ppl">>, <<"lib.p", "other.ppl">>, <<"via.p", "lib.p">>, <<".p">>, <<"ln.p">> }
\* what -s may name
Selections == {"main.p", "other.ppl", "via.p", "bad.p", "lnk.p", "notes.txt", "sub.p", "absent.p", "main", ".p", "ln.p"}

Main(u) == Ent("main.p", ".p", "file", "ok", u)

(* ------------------------- declarative definition ------------------------ *)
IsScript(e) == e.type \in {"file", "link"} /\ e.ext \in {".p", ".ppl"}
Scripts(dir) == {e \in dir : IsScript(e)}
Names(S) == {e.name : e \in S}
ByName(S, n) == CHOOSE e \in S : e.name = n
Range(s) == {s[i] : i \in DOMAIN s}

\* accepted: parses, checks, and every use() target exists, is accepted, and does not lead back onto the chain
RECURSIVE Acc(_, _, _)
Acc(n, S, path) ==
  /\ n \in Names(S) /\ n \notin path
  /\ LET e == ByName(S, n) IN
       /\ e.body = "ok"
       /\ \A t \in Range(e.uses) : Acc(t, S, path \cup {n})

\* the scripts a selection's verdict may depend on
RECURSIVE Reach(_, _, _)
Reach(n, S, seen) ==
  IF n \notin Names(S) \/ n \in seen THEN seen
  ELSE LET e == ByName(S, n)
           RECURSIVE Fold(_, _)
           Fold(i, acc) == IF i > Len(e.uses) THEN acc ELSE Fold(i + 1, Reach(e.uses[i], S, acc))
       IN Fold(1, seen \cup {n})

\* the fields an accepted script leaves: one marker per script run, in call order (a script used twice runs twice: same marker)
RECURSIVE Effects(_, _)
Effects(n, S) == LET e == ByName(S, n)
                     RECURSIVE Fold(_, _)
                     Fold(i, acc) == IF i > Len(e.uses) THEN acc ELSE Fold(i + 1, acc \cup Effects(e.uses[i], S))
                 IN Fold(1, {n})

Outcome(sel, dir) ==
  LET S == Scripts(dir) IN
  IF sel \notin Names(S) THEN [kind |-> "notfound", ran |-> {}]
  ELSE IF ~Acc(sel, S, {}) THEN [kind |-> "loaderr", ran |-> {}]
  ELSE [kind |-> "printed", ran |-> Effects(sel, S)]

(* ------------------------------- machine --------------------------------- *)
VARIABLES dir, sel, todo, found, verdict, phase, out
vars == <<dir, sel, todo, found, verdict, phase, out>>

Init == /\ sel \in Selections
        /\ \E W \in SUBSET Siblings, u \in MainUses :
              /\ Cardinality(W) \in SiblingCounts
              /\ (sel # "main.p" => u = <<>>)          \* what main.p contains matters when it is the selection
              /\ dir = W \cup {Main(u)}
        /\ todo = dir /\ found = {} /\ verdict = [n \in {} |-> TRUE] /\ phase = "readdir" /\ out = [kind |-> "none", ran |-> {}]

\* ReadPlScriptFromDir: one directory entry per step, in any order
Classify == /\ phase = "readdir" /\ todo # {}
            /\ \E e \in (IF AnyOrder THEN todo ELSE {CHOOSE x \in todo : TRUE}) :
                 /\ todo' = todo \ {e}
                 /\ found' = IF e.type = "dir" THEN found
                             ELSE IF e.ext \notin {".p", ".ppl"} THEN found
                             ELSE found \cup {e}
            /\ UNCHANGED <<dir, sel, verdict, phase, out>>
ReadDone == /\ phase = "readdir" /\ todo = {} /\ phase' = "parse" /\ UNCHANGED <<dir, sel, todo, found, verdict, out>>
\* ParseScript: every script found gets a verdict of its own (parse + check + link)
ParseLink == /\ phase = "parse"
             /\ verdict' = [n \in Names(found) |-> Acc(n, found, {})]
             /\ phase' = "select" /\ UNCHANGED <<dir, sel, todo, found, out>>
\* loadScript: the verdict of the selected name decides; runScript prints what the run left
Select == /\ phase = "select"
          /\ out' = IF sel \notin DOMAIN verdict THEN [kind |-> "notfound", ran |-> {}]
                    ELSE IF ~verdict[sel] \/ (BrokenSiblingPoisons /\ \E n \in DOMAIN verdict : ~verdict[n])
                           THEN [kind |-> "loaderr", ran |-> {}]
                    ELSE [kind |-> "printed", ran |-> Effects(sel, found)]
          /\ phase' = "done" /\ UNCHANGED <<dir, sel, todo, found, verdict>>
Next == Classify \/ ReadDone \/ ParseLink \/ Select
Spec == Init /\ [][Next]_vars

(* ------------------------------ properties ------------------------------- *)
\* the machine computes the declarative outcome, whatever order the directory is read in
MatchesDefinition == phase = "done" => out = Outcome(sel, dir)
\* only what the selection reaches matters: the outcome is that of the workspace reduced to the reached scripts
BystandersIrrelevant ==
  phase = "done" =>
    LET S == Scripts(dir)
        need == {e \in S : e.name \in Reach(sel, S, {})}
    IN out = Outcome(sel, need)
\* nothing that is not a script is ever run or selected
OnlyScriptsRun == phase = "done" => out.ran \subseteq Names(Scripts(dir))
FoundAreScripts == found \subseteq Scripts(dir)

Emit == phase = "done" =>
          PrintT("@@" \o ToJson([dir |-> {[name |-> e.name, type |-> e.type, body |-> e.body, uses |-> e.uses] : e \in dir},
                                 sel |-> sel, kind |-> out.kind, ran |-> out.ran]))
=============================================================================
