-------------------------------- MODULE Sharing --------------------------------
(* Concurrent use of one loaded script (C16): several threads run the same    *)
(* published syntax tree on private points; every run takes a task object     *)
(* from the pool, advances statement by statement, and gives the object       *)
(* back.  Ownership discipline: a pooled object has at most one holder        *)
(* between Get and Put; the tree is annotated only while it is being loaded,  *)
(* never after it was published; a run's result is its sequential result.     *)
(* TLC enumerates ALL interleavings of the threads' steps; each is replayed   *)
(* through the real interpreter with the exit-signal poll as scheduler gate.  *)
EXTENDS Integers, Sequences, FiniteSets, TLC, Json

CONSTANTS Threads,     \* e.g. {1, 2}
          Steps,       \* number of gated steps (polls) of every run
          PoolSize     \* pooled task objects that exist so far (more are allocated on demand)

VARIABLES pc, holds, owner, published, annotated, sched
vars == <<pc, holds, owner, published, annotated, sched>>

Objs == 1..(PoolSize + Cardinality(Threads))
Init == /\ pc = [t \in Threads |-> -1]            \* -1: not started, 0..Steps: steps done, Steps+1: finished
        /\ holds = [t \in Threads |-> 0]
        /\ owner = [o \in Objs |-> 0]
        /\ published = FALSE /\ annotated = 0 /\ sched = <<>>

\* load phase: the checker / linker annotate the tree, then the script is published
Annotate == ~published /\ annotated < 2 /\ annotated' = annotated + 1 /\ UNCHANGED <<pc, holds, owner, published, sched>>
Publish == ~published /\ annotated = 2 /\ published' = TRUE /\ UNCHANGED <<pc, holds, owner, annotated, sched>>

Acquire(t) == /\ published /\ pc[t] = -1
              /\ \E o \in Objs : /\ owner[o] = 0
                                 /\ \A p \in Objs : (owner[p] = 0 /\ p < o) => FALSE      \* the pool hands out the first free object
                                 /\ owner' = [owner EXCEPT ![o] = t] /\ holds' = [holds EXCEPT ![t] = o]
              /\ pc' = [pc EXCEPT ![t] = 0] /\ UNCHANGED <<published, annotated, sched>>
Step(t) == /\ pc[t] >= 0 /\ pc[t] < Steps /\ holds[t] # 0
           /\ pc' = [pc EXCEPT ![t] = @ + 1] /\ sched' = Append(sched, t)
           /\ UNCHANGED <<holds, owner, published, annotated>>
Release(t) == /\ pc[t] = Steps
              /\ owner' = [owner EXCEPT ![holds[t]] = 0] /\ holds' = [holds EXCEPT ![t] = 0]
              /\ pc' = [pc EXCEPT ![t] = Steps + 1] /\ UNCHANGED <<published, annotated, sched>>
Next == Annotate \/ Publish \/ \E t \in Threads : Acquire(t) \/ Step(t) \/ Release(t)
Spec == Init /\ [][Next]_vars

ExclusiveOwner == \A t1, t2 \in Threads : (t1 # t2 /\ holds[t1] # 0) => holds[t1] # holds[t2]
OwnerConsistent == \A t \in Threads : holds[t] # 0 => owner[holds[t]] = t
TreeFrozen == [][published => annotated' = annotated]_vars
RunsOnlyPublished == \A t \in Threads : pc[t] >= 0 => published
Done == \A t \in Threads : pc[t] = Steps + 1
Emit == Done => PrintT("@@" \o ToJson([sched |-> sched]))
=============================================================================
