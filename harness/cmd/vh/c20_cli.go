package main

import (
	"encoding/json"
	"fmt"
	"os"
	"os/exec"
	"path/filepath"
	"reflect"
	"sort"
	"strings"
	"time"

	"github.com/GuanceCloud/platypus/pkg/engine"
	"github.com/GuanceCloud/platypus/pkg/inimpl/guancecloud/funcs"
	"github.com/GuanceCloud/platypus/pkg/inimpl/guancecloud/input"
	"github.com/influxdata/influxdb1-client/models"
	influxdb "github.com/influxdata/influxdb1-client/v2"
)

func init() { register("replay-cli", replayCli) }

type cliCfg struct {
	Mode   string `json:"mode"`
	Input  string `json:"input"`
	Output string `json:"output"`
	Kind   string `json:"kind"`
}

const lpInput = "m1,t1=a f1=1i,f2=\"s\",ts=\"2021-03-04 05:06:07\",message=\"lpmsg\" 1600000000000000000\nm2,t9=z f9=9i 1600000001000000000\n"

// line-protocol input flavours (Cli!Inputs): the first POINT is the input
var lpInputs = map[string]string{
	"lineprotocol":        lpInput,
	"lp_comment_first":    "# exported by a tool\n# second comment line\n" + lpInput,
	"lp_blank_first":      "\n\n" + lpInput,
	"lp_bom":              "\xef\xbb\xbf" + lpInput,
	"lp_escaped_meas":     "m\\=1\\\"q\\,r\\ s,t1=a f1=1i,f2=\"s\",ts=\"2021-03-04 05:06:07\",message=\"lpmsg\" 1600000000000000000\nm2,t9=z f9=9i 1600000001000000000\n",
	"lp_same_key":         "m1,t1=a,dup=tagside f1=1i,f2=\"s\",dup=\"fieldside\",ts=\"2021-03-04 05:06:07\",message=\"lpmsg\" 1600000000000000000\nm2,t9=z f9=9i 1600000001000000000\n",
	"lp_newline_in_field": "m1,t1=a f1=1i,f2=\"line one\nline two\",ts=\"2021-03-04 05:06:07\",message=\"lpmsg\" 1600000000000000000\nm2,t9=z f9=9i 1600000001000000000\n",
}

func isText(in string) bool { return strings.HasPrefix(in, "text") }

func isLP(in string) bool { _, ok := lpInputs[in]; return ok }

func cliScript(kind, in string) string {
	switch kind {
	case "noop":
		return "x = 1\n"
	case "addField":
		return "add_key(nf, 5)\n"
	case "nilField":
		return "add_key(nf, nil)\nadd_key(keep, 1)\n"
	case "noFields":
		if isLP(in) {
			return "drop_key(f1)\ndrop_key(f2)\ndrop_key(ts)\ndrop_key(message)\n"
		}
		return "drop_key(message)\n"
	case "crlfField":
		return "x = 1\r\nadd_key(nf, \"\"\"first\r\nsecond\r\n\"\"\")\r\n"
	case "toTag":
		if isLP(in) {
			return "set_tag(f1)\n"
		}
		return "add_key(keep, 1)\nset_tag(message)\n" // line protocol cannot print a point without fields
	case "setMeas":
		return "set_measurement(\"newm\")\n"
	case "clearMeas":
		return "set_measurement(\"\")\n"
	case "setTime":
		if isLP(in) {
			return "default_time(ts)\n"
		}
		return "add_key(ts, \"2021-03-04 05:06:07\")\ndefault_time(ts)\n"
	case "setTimeEpoch":
		return "add_key(t0, \"1970-01-01T00:00:00Z\")\ndefault_time(t0)\n"
	case "setTimeBefore":
		return "add_key(t0, \"1969-07-20T20:17:40Z\")\ndefault_time(t0)\n"
	case "timeKey":
		return "add_key(nf, 5)\nadd_key(time, 1600000000123456789)\n"
	case "dropMsg":
		return "add_key(keep, 1)\ndrop_key(message)\n"
	case "useSibling":
		return "use(\"lib.p\")\n"
	case "loadErr":
		return "nosuch()\n"
	case "linkErr":
		return "use(\"missing.p\")\n"
	case "runErr":
		return "x = 1 + nil\n"
	}
	return ""
}

type cliPoint struct {
	Meas   string
	Tags   map[string]string
	Fields map[string]any
	Time   time.Time
}

func normFields(f map[string]any) map[string]any {
	out := map[string]any{}
	for k, v := range f {
		switch x := v.(type) {
		case int64:
			out[k] = float64(x)
		case json.Number:
			fl, _ := x.Float64()
			out[k] = fl
		default:
			out[k] = v
		}
	}
	return out
}

// libraryResult: the same script and input through the library API.
func libraryResult(scripts map[string]string, name, in string, data []byte, now time.Time) (*cliPoint, error, error) {
	ok, errs := engine.ParseScript(scripts, funcs.FuncsMap, funcs.FuncsCheckMap)
	if e, bad := errs[name]; bad {
		return nil, e, nil
	}
	var meas string
	var tags map[string]string
	var fields map[string]any
	tn := now
	if isLP(in) {
		pts, err := models.ParsePointsWithPrecision(data, now, "")
		if err != nil {
			return nil, nil, err
		}
		p := influxdb.NewPointFrom(pts[0])
		fields, _ = p.Fields()
		tags, meas, tn = p.Tags(), p.Name(), p.Time()
	} else {
		meas, fields = "default_name", map[string]any{"message": string(data)}
	}
	pt := &input.Point{}
	input.InitPt(pt, meas, tags, fields, tn)
	if e := ok[name].Run(pt, nil); e != nil {
		return nil, nil, e
	}
	return &cliPoint{pt.Measurement, pt.Tags, pt.Fields, pt.Time}, nil, nil
}

func parseCliOutput(stdout, format string) (*cliPoint, error) {
	const marker = "Platypus Output Data:\n"
	i := strings.Index(stdout, marker)
	if i < 0 {
		return nil, nil
	}
	body := strings.TrimSpace(stdout[i+len(marker):])
	if format == "json" {
		var doc struct {
			Measurement string            `json:"measurement"`
			Tags        map[string]string `json:"tags"`
			Fields      map[string]any    `json:"fields"`
			Time        time.Time         `json:"time"`
		}
		if err := json.Unmarshal([]byte(body), &doc); err != nil {
			return nil, fmt.Errorf("output is not the JSON document: %v: %q", err, body)
		}
		return &cliPoint{doc.Measurement, doc.Tags, doc.Fields, doc.Time}, nil
	}
	// the whole body is one point (a string field may contain a line break); fall back to its first line
	pts, err := models.ParsePointsString(body)
	if err != nil || len(pts) != 1 {
		line := strings.SplitN(body, "\n", 2)[0]
		pts, err = models.ParsePointsString(line)
		if err != nil || len(pts) != 1 {
			return nil, fmt.Errorf("output is not one line-protocol point: %v: %q", err, body)
		}
	}
	p := influxdb.NewPointFrom(pts[0])
	f, _ := p.Fields()
	return &cliPoint{p.Name(), p.Tags(), f, p.Time()}, nil
}

func samePoint(a, b *cliPoint, timeSlack time.Duration) string {
	if a.Meas != b.Meas {
		return fmt.Sprintf("measurement %q vs %q", a.Meas, b.Meas)
	}
	ta, tb := a.Tags, b.Tags
	if len(ta) == 0 && len(tb) == 0 {
		ta, tb = nil, nil
	}
	if !reflect.DeepEqual(ta, tb) {
		return fmt.Sprintf("tags %v vs %v", a.Tags, b.Tags)
	}
	if !reflect.DeepEqual(normFields(a.Fields), normFields(b.Fields)) {
		return fmt.Sprintf("fields %v vs %v", a.Fields, b.Fields)
	}
	d := a.Time.Sub(b.Time)
	if d < 0 {
		d = -d
	}
	if d > timeSlack {
		return fmt.Sprintf("time %v vs %v", a.Time.UTC(), b.Time.UTC())
	}
	return ""
}

// replay-cli <platypus binary> <expectations.ndjson> <scratch dir>
func replayCli(args []string) (any, error) {
	bin, scratch := args[0], args[2]
	sum := &Summary{}
	n := 0
	err := readNDJSON(args[1], func(raw json.RawMessage) error {
		var v struct {
			Cfg cliCfg `json:"cfg"`
			Out struct {
				Meas    string `json:"meas"`
				Time    string `json:"time"`
				Added   bool   `json:"added"`
				Totag   bool   `json:"totag"`
				Dropped bool   `json:"dropped"`
				Fromlib bool   `json:"fromlib"`
			} `json:"out"`
			Err     string `json:"err"`
			Printed bool   `json:"printed"`
		}
		if err := json.Unmarshal(raw, &v); err != nil {
			return err
		}
		n++
		dir := filepath.Join(scratch, fmt.Sprintf("c%d", n))
		ws := filepath.Join(dir, "ws")
		if err := os.MkdirAll(ws, 0o755); err != nil {
			return err
		}
		defer os.RemoveAll(dir)
		main := cliScript(v.Cfg.Kind, v.Cfg.Input)
		mainName := "main.p"
		if v.Cfg.Mode == "workspace_ppl" {
			mainName = "main.ppl"
		}
		if v.Cfg.Kind == "selfUse" {
			main = fmt.Sprintf("add_key(keep, 1)\nuse(%q)\n", mainName)
		}
		scripts := map[string]string{mainName: main}
		_ = os.WriteFile(filepath.Join(ws, mainName), []byte(main), 0o644)
		if v.Cfg.Mode != "single" && v.Cfg.Mode != "workspace_lone" {
			// a decoy with the other extension and the same stem must not be picked
			decoy := "main.ppl"
			if mainName == "main.ppl" {
				decoy = "main.p"
			}
			scripts[decoy] = "add_key(decoy, 1)\n"
			_ = os.WriteFile(filepath.Join(ws, decoy), []byte(scripts[decoy]), 0o644)
			_ = os.MkdirAll(filepath.Join(ws, "sub.p"), 0o755) // a directory named like a script is skipped
			// siblings: one .p, one .ppl, and a file that is not a script
			scripts["lib.p"] = "add_key(fromlib, 1)\n"
			scripts["other.ppl"] = "add_key(fromother, 1)\n"
			_ = os.WriteFile(filepath.Join(ws, "lib.p"), []byte(scripts["lib.p"]), 0o644)
			_ = os.WriteFile(filepath.Join(ws, "other.ppl"), []byte(scripts["other.ppl"]), 0o644)
			_ = os.WriteFile(filepath.Join(ws, "notes.txt"), []byte("nosuch("), 0o644)
		}
		var data []byte
		inPath := filepath.Join(dir, "input")
		switch v.Cfg.Input {
		case "text":
			data = []byte("hello cli world")
		case "text_multiline":
			data = []byte("  first line \n\nthird line\twith a tab\n")
		case "text_empty": // an empty file is a text input like any other: message = ""
			data = []byte{}
		case "text_blank":
			data = []byte(" \n")
		case "text_bom":
			data = []byte("\xef\xbb\xbfhello cli world")
		default:
			if isLP(v.Cfg.Input) {
				data = []byte(lpInputs[v.Cfg.Input])
			}
		}
		if v.Cfg.Input != "none" {
			_ = os.WriteFile(inPath, data, 0o644)
		}
		var cmd *exec.Cmd
		cliArgs := []string{"run", "-s", mainName, "--output-type", v.Cfg.Output}
		if v.Cfg.Mode != "single" {
			cliArgs = append(cliArgs, "-w", ws)
		} else {
			// single file: no workspace, the script given by its path
			cliArgs = []string{"run", "-w", "", "-s", filepath.Join(ws, "main.p"), "--output-type", v.Cfg.Output}
		}
		if v.Cfg.Input != "none" {
			typ := v.Cfg.Input
			if isLP(typ) {
				typ = "lineprotocol"
			} else if isText(typ) {
				typ = "text"
			}
			cliArgs = append(cliArgs, "-i", inPath, "-t", typ)
		}
		cmd = exec.Command(bin, cliArgs...)
		cmd.Dir = dir
		// the process time zone is the host's business: the instant that is printed must not depend on it (zones rotate over the
		// cases; the one script that reads a zone-less date - its meaning is the local zone's - stays in UTC, where the
		// library result of this process is computed)
		tz := []string{"UTC", "Asia/Shanghai", "America/St_Johns", "Pacific/Chatham"}[sum.Evaluations%4]
		if v.Cfg.Kind == "setTime" {
			tz = "UTC"
		}
		cmd.Env = append(os.Environ(), "TZ="+tz)
		start := time.Now()
		outB, runErr := cmd.CombinedOutput()
		stdout := string(outB)
		sum.Evaluations++
		sum.Distinct++
		sig := fmt.Sprintf("cli:%s:%s:%s:%s", v.Cfg.Mode, v.Cfg.Input, v.Cfg.Output, v.Cfg.Kind)
		detail := map[string]any{"cfg": v.Cfg, "args": cliArgs, "script": main, "TZ": tz}
		bad := func(p string) {
			detail["problem"] = p
			o := stdout
			if len(o) > 1500 {
				o = o[:1500]
			}
			detail["cli_output"] = o
			sum.miss(sig, detail)
		}
		if runErr != nil {
			bad("the command failed: " + runErr.Error())
			return nil
		}
		got, perr := parseCliOutput(stdout, v.Cfg.Output)
		if perr != nil {
			bad(perr.Error())
			return nil
		}
		hasErrLine := strings.Contains(stdout, "ERROR")
		if !v.Printed {
			if got != nil {
				bad("output was printed where the specification has none (check-only run or error)")
			} else if v.Err != "none" && !hasErrLine {
				bad("a " + v.Err + " error must be reported instead of output")
			} else if v.Err == "none" && hasErrLine {
				bad("an error was reported for a check-only run of a valid script")
			}
			return nil
		}
		if got == nil {
			bad("no output was printed")
			return nil
		}
		// (i) identical to the library API on the same script and input
		lib, lerr, rerr := libraryResult(scripts, mainName, v.Cfg.Input, data, start)
		if lerr != nil || rerr != nil || lib == nil {
			bad(fmt.Sprintf("library API does not produce a point here: %v %v", lerr, rerr))
			return nil
		}
		slack := time.Millisecond
		if isText(v.Cfg.Input) && v.Out.Time == "in" {
			slack = 30 * time.Second // "now" is taken twice
		}
		if d := samePoint(got, lib, slack); d != "" {
			bad("CLI output differs from the library result: " + d)
			return nil
		}
		// (ii) the specification's abstract final point
		wantMeas := "default_name"
		if isLP(v.Cfg.Input) {
			wantMeas = "m1"
		}
		if v.Cfg.Input == "lp_bom" {
			wantMeas = "\ufeffm1"
		}
		if v.Cfg.Input == "lp_escaped_meas" {
			wantMeas = "m=1\"q,r s" // the name the escapes spell
		}
		if v.Out.Meas == "new" {
			wantMeas = "newm"
		}
		if v.Out.Meas == "empty" {
			wantMeas = ""
		}
		if got.Meas != wantMeas {
			bad(fmt.Sprintf("measurement %q, the script left %q", got.Meas, wantMeas))
			return nil
		}
		if v.Out.Time != "in" {
			want := time.Date(2021, 3, 4, 5, 6, 7, 0, time.UTC)
			switch v.Out.Time {
			case "epoch":
				want = time.Unix(0, 0)
			case "before":
				want = time.Date(1969, 7, 20, 20, 17, 40, 0, time.UTC)
			}
			if !got.Time.Equal(want) {
				bad(fmt.Sprintf("time %v, the script set %v", got.Time.UTC(), want))
				return nil
			}
		} else if isLP(v.Cfg.Input) && !got.Time.Equal(time.Unix(1600000000, 0)) {
			bad(fmt.Sprintf("time %v, the input point has %v", got.Time.UTC(), time.Unix(1600000000, 0).UTC()))
			return nil
		}
		if _, dec := got.Fields["decoy"]; dec {
			bad("the script with the other extension was run instead of the selected one")
			return nil
		}
		_, hasNf := got.Fields["nf"]
		_, hasLib := got.Fields["fromlib"]
		_, hasMsg := got.Fields["message"]
		moved := "f1"
		if isText(v.Cfg.Input) {
			moved = "message"
		}
		_, tagMoved := got.Tags[moved]
		switch {
		case hasNf != v.Out.Added:
			bad("field nf presence does not match the script's effect")
		case hasLib != v.Out.Fromlib:
			bad("the sibling script's effect is missing / unexpected")
		case tagMoved != v.Out.Totag:
			bad("the moved-to-tag key is not where the script left it")
		case v.Cfg.Kind == "timeKey" && fmt.Sprint(got.Fields["time"]) != "1.6000000001234568e+18" && fmt.Sprint(got.Fields["time"]) != "1600000000123456789":
			bad(fmt.Sprintf("the integer field `time` the script left is printed as %v", got.Fields["time"]))
		case v.Cfg.Kind == "dropMsg" && hasMsg:
			bad("message was dropped by the script but is printed")
		}
		keys := []string{}
		for k := range got.Fields {
			keys = append(keys, k)
		}
		sort.Strings(keys)
		sum.sample(map[string]any{"cfg": v.Cfg, "measurement": got.Meas, "fields": keys, "tags": got.Tags})
		return nil
	})
	return sum, err
}
