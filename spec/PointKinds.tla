----------------------------- MODULE PointKinds ------------------------------
(* The point's key index over KINDS instead of values (C10).  Point.tla     *)
(* explores a handful of concrete representative values completely; this     *)
(* module forgets the values and keeps what the index invariants talk about: *)
(*   meta   : key -> [dt, flag]        fieldk : key -> kind of the Go value  *)
(*   tagged : set of keys present in Tags (tag values are strings by type)   *)
(* so that executions over ARBITRARY values - the largest and smallest       *)
(* int64, 2^63 as a float, NaN and infinities, "1e19", "inf", very long and  *)
(* non-ASCII strings, nested lists - can be validated: every recorded call   *)
(* must be the action of that name, leading to exactly the logged kinds, and *)
(* IndexAgrees / Disjoint / FieldTypes are evaluated after every call.       *)
(* A value the implementation stores with a Go type outside int64 / float64  *)
(* / bool / string / nil is logged as kind "other:<type>" and breaks         *)
(* FieldTypes.  Point refines this module under the projection value -> kind *)
(* (checked by TLC: property KindsRefined in the Point configuration).       *)
EXTENDS Integers, Sequences, FiniteSets, TLC

VARIABLES meta, fieldk, tagged
kvars == <<meta, fieldk, tagged>>

Has(k) == k \in DOMAIN meta
Drop(f, k) == [x \in DOMAIN f \ {k} |-> f[x]]
Put(f, k, v) == [x \in DOMAIN f \cup {k} |-> IF x = k THEN v ELSE f[x]]
FieldKinds == {"int", "float", "bool", "str", "nil"}
\* kind stored for a value of kind vk written to a field
StoredK(vk) == IF vk \in {"list", "map"} THEN "str" ELSE IF vk \in {"void", "unconv"} THEN "nil" ELSE vk

SetK(k, vk) ==
  IF Has(k) /\ meta[k].flag = "tag"
    THEN /\ tagged' = (IF vk = "void" THEN tagged \ {k} ELSE IF vk = "unconv" THEN tagged ELSE tagged \cup {k})
         /\ UNCHANGED <<meta, fieldk>>
    ELSE /\ fieldk' = Put(fieldk, k, StoredK(vk))
         /\ meta' = Put(meta, k, [dt |-> StoredK(vk), flag |-> "field"])
         /\ UNCHANGED tagged
SetTagK(k) == /\ tagged' = tagged \cup {k} /\ fieldk' = Drop(fieldk, k)
              /\ meta' = Put(meta, k, [dt |-> "str", flag |-> "tag"])
DeleteK(k) == /\ meta' = Drop(meta, k) /\ fieldk' = Drop(fieldk, k) /\ tagged' = tagged \ {k}
Same == UNCHANGED kvars

AddKey(k, vk) == SetK(k, vk)
SetTagAny(k) == SetTagK(k)                       \* every form of set_tag: the key is a tag afterwards
DropKey(k) == IF Has(k) THEN DeleteK(k) ELSE Same
Rename(to, from) ==
  IF to = from \/ ~Has(from) THEN Same
  ELSE /\ meta' = Put(Drop(Drop(meta, from), to), to, meta[from])
       /\ IF meta[from].flag = "field"
            THEN /\ fieldk' = (IF from \in DOMAIN fieldk THEN Put(Drop(Drop(fieldk, from), to), to, fieldk[from])
                               ELSE Drop(Drop(fieldk, from), to))
                 /\ tagged' = tagged \ {to}
            ELSE /\ tagged' = (IF from \in tagged THEN (tagged \ {from}) \cup {to} ELSE tagged \ {from, to})
                 /\ fieldk' = Drop(fieldk, to)
\* cast: a present key holds a value of the target type afterwards (a tag stays a tag: its text is replaced)
Cast(k, T) == IF Has(k) THEN SetK(k, T) ELSE Same
SetMeasDel(k) == IF Has(k) THEN DeleteK(k) ELSE Same

(* ------------------------------ invariants ------------------------------ *)
IndexAgrees ==
  /\ DOMAIN fieldk \cup tagged \subseteq DOMAIN meta
  /\ \A k \in DOMAIN meta \ (DOMAIN fieldk \cup tagged) : meta[k].flag = "tag"
  /\ \A k \in DOMAIN fieldk : meta[k].flag = "field" /\ meta[k].dt = fieldk[k]
  /\ \A k \in tagged : meta[k].flag = "tag" /\ meta[k].dt = "str"
Disjoint == DOMAIN fieldk \cap tagged = {}
FieldTypes == \A k \in DOMAIN fieldk : fieldk[k] \in FieldKinds
\* the index entry of EVERY tag says "str" - also of a tag that was given "no value" and is absent from the tags at the moment
TagMetaStr == \A k \in DOMAIN meta : meta[k].flag = "tag" => meta[k].dt = "str"

\* the action a builtin call stands for (o = operation name, vk = kind of the value passed, T = cast target)
Step(o, k, k2, vk, T) ==
  CASE o = "add_key" -> AddKey(k, vk)
    [] o \in {"set_tag_lit", "set_tag", "set_tag_from", "set_tag_unconv"} -> SetTagAny(k)
    [] o = "drop_key" -> DropKey(k)
    [] o = "rename" -> Rename(k, k2)
    [] o = "cast" -> Cast(k, T)
    [] o = "set_measurement" -> SetMeasDel(k)
    [] OTHER -> FALSE
=============================================================================
