"""C12 — extraction builtins store exactly what their pattern engine extracts."""
import json
import os

from lib import gen, vlib
from checks import machine
from checks.common import absorb

LEVEL = "model_checking"


def run(ck):
    q = ck.tier == "quick"
    d = vlib.workdir("c12")
    # the catalogs are part of the specification: verify them against the engines first (framework error if wrong)
    r = vlib.vh_json(["catalog-check", os.path.join(vlib.SPEC, "catalogs.json")])
    if r["bad"]:
        raise vlib.Broken("catalog entries disagree with the engines they stand for (fix spec/catalogs.json): %s" % r["bad"][:5])
    ck.note("catalog_entries_verified_against_engines", r["entries"])
    # (1) load-time scoping of add_pattern definitions: the Check specification decides accept / reject + offender
    scope = gen.gen_scope(q, ck.seed)
    src = os.path.join(d, "scope.src.ndjson")
    gen.write(src, scope)
    trees = os.path.join(d, "scope.trees.ndjson")
    info = vlib.vh_json(["ast-json", src, trees])
    if info["skipped"]:
        raise vlib.Broken("scope programs rejected by the parser: %s" % info["skipped"][:3])
    res = vlib.tlc("Check", "SPECIFICATION Spec\nINVARIANT Emit\nCHECK_DEADLOCK FALSE\n", workers=4, timeout=900, env={"PROG_FILE": trees})
    vlib.tlc_must_pass(res, "Check(scoping)")
    ck.add_tlc(res, "Check(add_pattern scoping, %d programs)" % len(scope))
    rows = res.emitted()
    outp = os.path.join(d, "scope.out.ndjson")
    vlib.write_ndjson(outp, rows)
    absorb(ck, vlib.vh_json(["replay-check", src, outp]), "pattern-scoping")
    accepted = {x["id"] for x in rows if x["accept"]}
    ck.note("scoping_programs", {"accepted": len(accepted), "rejected": len(rows) - len(accepted)})
    if not accepted or len(accepted) == len(rows):
        raise vlib.Broken("scoping family is vacuous (accepted=%d of %d)" % (len(accepted), len(rows)))
    # (2) run-time effects: grok (typed captures, trim_space, subjects, scoping of the accepted programs), default_time,
    #     datetime, xml, sql_cover
    progs = [p for p in scope if p["id"] in accepted] + gen.gen_extract(q, ck.seed)
    machine.run_family(ck, "extract", progs)
    ck.add("traces_validated_against_impl", len(rows))
    ck.cov["rule"] = ("(1) add_pattern / grok placed at every pair of positions of nested blocks (before/after, same/outer/inner/sibling "
                      "block, loops, shadowing a global name, shadowing an outer definition, a pattern referring to another local "
                      "pattern, undefined names): the TLA+ Patterns!Annotate + Check decide acceptance and the offending call; both "
                      "are compared with the real load. (2) every catalog entry of grok (typed captures, trim_space) x subject "
                      "situation (field, tag, variable, shadowing, absent, non-string), captures landing on existing tags, grok as a "
                      "condition; default_time for every catalogued layout x zone {none, +h, -h:mm, IANA, invalid} x subject kind; "
                      "datetime, xml (destination spellings), sql_cover: the TLA+ builtin semantics decide the complete final point "
                      "(incl. time), the returned value and no-op/failure-note/error behaviour. distinct = distinct programs.")
    ck.assumptions += ["engines (grok regex, dateparse, XPath, SQL obfuscator, time formatting) are finite catalogs verified against the "
                       "engines on every run; zone-less timestamps under TZ=UTC; the text of failure notes is not compared"]
