"""C11 — field-manipulating builtins have exactly their documented effect."""
import os

from lib import gen, vlib
from checks import machine

LEVEL = "model_checking"


def run(ck):
    q = ck.tier == "quick"
    # the regular-expression catalog is verified against the engine it stands for (Go's regexp), never against the code under test
    r = vlib.vh_json(["catalog-check", os.path.join(vlib.SPEC, "catalogs.json")])
    if r["bad"]:
        raise vlib.Broken("catalog entries disagree with their engines: %s" % r["bad"][:5])
    ck.note("catalog_entries_verified_against_engines", r["entries"])
    progs = gen.gen_builtins(q, ck.seed)
    r = machine.run_family(ck, "builtins", progs)
    ck.cov.setdefault("families", {})["builtins"] = len(progs)
    ck.cov["rule"] = ("builtin x argument shape (identifier, string literal, attribute expression, `_`, nested expressions, optional "
                      "arguments present/absent) x subject situation (variable only, field only, tag only, variable shadowing a field / a "
                      "tag, absent) x subject value (int, float, bool, several strings, nil, list, map); the TLA+ semantics (PlExpr: "
                      "GetKey, Conv2String, CastV, trim/uppercase/url_decode/Sprintf on byte sequences, point Set/SetTag/Rename/Delete, "
                      "catalogs for JSON texts and regular expressions) decides destination, value, type, frame condition, printed "
                      "text, return value and error-vs-no-op; the whole final point (every bystander key), the probe log and stdout are "
                      "compared. Programs whose outcome depends on an unmodelled engine are counted as unspecified_by_model and only "
                      "checked for absence of panics. distinct_nontrivial = distinct programs.")
    ck.assumptions += ["catalog entries (JSON texts, regular expressions) are part of the specification",
                       "float formatting is specified only for integral values and dyadic fractions with <= 4 binary places"]
