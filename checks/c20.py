"""C20 — the command-line runner reports the point exactly as the script left it."""
import os

from lib import vlib
from checks.common import absorb, tlc_emit

LEVEL = "model_checking"


def run(ck):
    cfg = ("CONSTANT SnapshotBeforeRun = FALSE\nSPECIFICATION Spec\n"
           "INVARIANTS PrintedIsFinal CheckOnly ErrorsInsteadOfOutput OutputUnlessError Emit\nCHECK_DEADLOCK FALSE\n")
    res, rows = tlc_emit(ck, "Cli", cfg, "Cli (all configurations)", workers=4)
    # the named deviation must be caught by the model itself (vacuity guard of PrintedIsFinal)
    dev = vlib.tlc("Cli", cfg.replace("= FALSE", "= TRUE").replace(" Emit", ""), workers=4, timeout=300)
    if dev.invariant != "PrintedIsFinal":
        raise vlib.Broken("the model does not distinguish snapshot-before-run: %s" % dev.out[-800:])
    ck.note("model_detects_snapshot_before_run", True)
    d = vlib.workdir("cli")
    exp = os.path.join(d, "exp.ndjson")
    vlib.write_ndjson(exp, rows)
    binp = vlib.build_cli()
    r = vlib.vh_json(["replay-cli", binp, exp, d], timeout=1200)
    absorb(ck, r, "cli", cmd=None)
    ck.add("traces_validated_against_impl", len(rows))
    workspace(ck, binp, d)
    ck.cov["exhaustive"] = True
    ck.cov["rule"] = ("every configuration {workspace, single file} x {no input, text, line protocol file starting with a point / with comment lines / with blank lines / whose first "
                      "point has a line break inside a string field (the first POINT is the input)} x {json, lineprotocol} x script kinds "
                      "{no-op, add field, move to tag, set_measurement, default_time, drop message, use() of a sibling, load error, link "
                      "error, run error} is a behaviour of the Cli model (invariants PrintedIsFinal, CheckOnly, ErrorsInsteadOfOutput); each "
                      "is materialised on disk, run through the built `platypus run`, its output parsed back and compared with the library "
                      "API's result for the same script and input and with the model's final point. distinct = configurations.")
    ck.assumptions += ["log line decoration, key order and float formatting are not compared; the time of text inputs is 'now' (30 s slack)",
                       "TZ=UTC for zone-less timestamps"]


def workspace(ck, binp, d):
    """Workspace discovery and selection (spec/Workspace.tla): every subset of the sibling universe x what main.p uses x what -s names."""
    q = ck.tier == "quick"
    base = ("CONSTANTS BrokenSiblingPoisons = %s AnyOrder = %s SiblingCounts = %s\nSPECIFICATION Spec\n"
            "INVARIANTS MatchesDefinition BystandersIrrelevant OnlyScriptsRun FoundAreScripts%s\nCHECK_DEADLOCK FALSE\n")
    counts = "{0, 1, 2, 12}" if q else "{0, 1, 2, 3, 4, 5, 9, 10, 11, 12}"
    res, rows = tlc_emit(ck, "Workspace", base % ("FALSE", "FALSE", counts, " Emit"), "Workspace (directory contents x selection)", timeout=1500)
    # the directory is read in every order: same outcome (small directories)
    res2, _ = tlc_emit(ck, "Workspace", base % ("FALSE", "TRUE", "{0, 1, 2}" if q else "{0, 1, 2, 3, 4}", ""), "Workspace (every visiting order)", timeout=1500)
    # vacuity guard: the named deviation (a rejected sibling refuses every selection) must violate BystandersIrrelevant in the model
    dev = vlib.tlc("Workspace", base % ("TRUE", "FALSE", "{1}", ""), workers=4, timeout=300)
    if dev.invariant not in ("BystandersIrrelevant", "MatchesDefinition"):
        raise vlib.Broken("the Workspace model does not distinguish a poisoning sibling: %s" % dev.out[-800:])
    ck.note("model_detects_poisoning_sibling", True)
    # the runner is launched for the small and the nearly full directories and a sample of the rest; the library judges every row
    every = 9 if q else 3
    for i, r in enumerate(rows):
        n = len(r["dir"]) - 1
        r["cli"] = (n <= 1) or (i % every == 0)
    exp = os.path.join(d, "ws.ndjson")
    vlib.write_ndjson(exp, rows)
    r = vlib.vh_json(["replay-workspace", exp, binp, d], timeout=2400)
    absorb(ck, r, "workspace", cmd=["replay-workspace", "build", "tmp"])
    ck.add("traces_validated_against_impl", len(rows))
    ck.cov["workspace_rule"] = ("Workspace model: every directory made of main.p (15 bodies: no use(), one or two use() calls naming a sibling, a "
                                "non-script file, a directory, a name without extension, a missing name) and a subset of 12 sibling entries (among them a file named just `.p` and a symbolic link to a script kept elsewhere; thorough: all subsets of up to 5 and of at least 9 entries) "
                                "(valid .p / .ppl, unparsable, check-failing, link-failing, using another sibling, using main.p, notes.txt, "
                                "a.p.bak, a directory named sub.p) x 9 selections; TLC checks that the step machine (entries classified one "
                                "by one, in every order for small directories) computes the declarative outcome and that entries the selection "
                                "does not reach never matter; every behaviour is materialised on disk and judged through ReadPlScriptFromDir + "
                                "ParseScript + Run, and a sample (all directories with <= 1 sibling, every %d-th other) through the built runner." % every)
