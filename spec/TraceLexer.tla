------------------------------ MODULE TraceLexer ------------------------------
(* Token cover (C05): the items the lexer emits for a source text cover it   *)
(* in order, without overlap, skipping only blanks; every item's text is a   *)
(* non-empty piece of the source of the right lexical class; the stream      *)
(* ends with EOF at the end of the source or with one ERROR item positioned  *)
(* inside it; the number of items is bounded by the length (termination).    *)
(* The trace is recorded from the real lexer (parser.Lex / NextItem):        *)
(*   {"ev":"src","s":[bytes]}  {"ev":"item","cls":c,"pos":p,"len":n}         *)
(*   {"ev":"eof","pos":p}      {"ev":"error","pos":p}                        *)
EXTENDS Integers, Sequences, TLC, Json, IOUtils

Trace == ndJsonDeserialize(IOEnv.TRACE_FILE)

VARIABLES l, src, cur, done, items
vars == <<l, src, cur, done, items>>
Ev == Trace[l]

Blank(b) == b \in {32, 9, 13}
Alpha(b) == b = 95 \/ (b >= 97 /\ b <= 122) \/ (b >= 65 /\ b <= 90) \/ b >= 128
Digit(b) == b >= 48 /\ b <= 57
\* first byte admissible for an item of the lexical class
KindOK(cls, b) ==
  CASE cls = "id" -> Alpha(b) [] cls = "kw" -> Alpha(b)
    [] cls = "num" -> Digit(b) \/ Alpha(b)          \* inf / nan are numbers
    [] cls = "str" -> b \in {34, 39} [] cls = "qid" -> b = 96
    [] cls = "op" -> b \in {43, 45, 42, 47, 37, 61, 33, 60, 62, 38, 124}
    [] cls = "punct" -> b \in {44, 58, 59, 46, 40, 41, 91, 93, 123, 125}
    [] cls = "eol" -> b = 10 [] cls = "comment" -> b = 35
    [] OTHER -> FALSE
GapBlank(from, to) == \A i \in (from + 1)..to : Blank(src[i])      \* offsets are 0-based, src is 1-based

Init == l = 1 /\ src = <<>> /\ cur = 0 /\ done = TRUE /\ items = 0

TSrc == /\ l <= Len(Trace) /\ Ev.ev = "src" /\ done          \* the previous stream ended properly
        /\ src' = Ev.s /\ cur' = 0 /\ done' = FALSE /\ items' = 0 /\ l' = l + 1
TItem == /\ l <= Len(Trace) /\ Ev.ev = "item" /\ ~done
         /\ Ev.pos >= cur /\ GapBlank(cur, Ev.pos)            \* only blanks are skipped, no overlap
         /\ Ev.len >= 1 /\ Ev.pos + Ev.len <= Len(src)        \* a non-empty piece of the source
         /\ KindOK(Ev.cls, src[Ev.pos + 1])
         /\ items < Len(src) + 1                              \* progress: at most one item per byte
         /\ cur' = Ev.pos + Ev.len /\ items' = items + 1 /\ l' = l + 1 /\ UNCHANGED <<src, done>>
TEof == /\ l <= Len(Trace) /\ Ev.ev = "eof" /\ ~done
        /\ GapBlank(cur, Len(src)) /\ Ev.pos >= cur /\ Ev.pos <= Len(src)
        /\ done' = TRUE /\ l' = l + 1 /\ UNCHANGED <<src, cur, items>>
\* An unbalanced ")" or "}" is reported right after that bracket (the bracket itself is the offending lexeme).
AfterCloser(p) == p >= 1 /\ src[p] \in {41, 125} /\ GapBlank(cur, p - 1)
TError == /\ l <= Len(Trace) /\ Ev.ev = "error" /\ ~done
          /\ Ev.pos >= cur /\ Ev.pos <= Len(src) /\ (GapBlank(cur, Ev.pos) \/ AfterCloser(Ev.pos))
          /\ done' = TRUE /\ l' = l + 1 /\ UNCHANGED <<src, cur, items>>
TraceNext == TSrc \/ TItem \/ TEof \/ TError
TraceSpec == Init /\ [][TraceNext]_vars

Cover == cur <= Len(src)
ASSUME TLCSet(1, 0)
HighWater == TLCSet(1, IF l > TLCGet(1) THEN l ELSE TLCGet(1))
Accepted == IF TLCGet(1) = Len(Trace) + 1 THEN TRUE
            ELSE /\ PrintT("@@" \o ToJson([reject |-> TLCGet(1), line |-> Trace[TLCGet(1)]]))
                 /\ FALSE
=============================================================================
