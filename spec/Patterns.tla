-------------------------------- MODULE Patterns --------------------------------
(* grok pattern names and their scoping (C12).  add_pattern(name, pattern)    *)
(* defines a name at LOAD time in the block that contains the call: it is     *)
(* visible to later statements of that block and inside nested blocks, and    *)
(* nowhere else; a name is looked up in the innermost enclosing definitions   *)
(* first, then among the global patterns.  Ann* walks a script in source       *)
(* order with the check pass's scope chain and attaches to every grok /       *)
(* add_pattern call whether its pattern is resolvable (res) and which local    *)
(* definitions it uses (env) - the load-time facts both the acceptance check  *)
(* and the run-time effect of grok depend on.                                 *)
EXTENDS Catalogs, FiniteSets, TLC

\* names referenced as %{NAME...} in a pattern text
RECURSIVE NameEnd(_, _)
NameEnd(s, k) == IF k > Len(s) THEN k ELSE IF s[k] \in {58, 125} THEN k ELSE NameEnd(s, k + 1)
RECURSIVE RefsFrom(_, _)
RefsFrom(s, i) == IF i + 1 > Len(s) THEN <<>>
                  ELSE IF s[i] = 37 /\ s[i + 1] = 123
                         THEN LET e == NameEnd(s, i + 2) IN <<SubSeq(s, i + 2, e - 1)>> \o RefsFrom(s, e)
                  ELSE RefsFrom(s, i + 1)
Refs(s) == RefsFrom(s, 1)

\* scopes: sequence (innermost last) of sequences of [n, p] (later definitions shadow earlier ones)
RECURSIVE FindIn(_, _, _)
FindIn(sc, n, i) == IF i = 0 THEN [found |-> FALSE, p |-> <<>>]
                    ELSE IF sc[i].n = n THEN [found |-> TRUE, p |-> sc[i].p] ELSE FindIn(sc, n, i - 1)
RECURSIVE FindLocal(_, _, _)
FindLocal(scopes, n, i) == IF i = 0 THEN [found |-> FALSE, p |-> <<>>]
                           ELSE LET r == FindIn(scopes[i], n, Len(scopes[i])) IN IF r.found THEN r ELSE FindLocal(scopes, n, i - 1)
Local(scopes, n) == FindLocal(scopes, n, Len(scopes))
Resolvable(p, scopes) == \A i \in 1..Len(Refs(p)) : Local(scopes, Refs(p)[i]).found \/ Refs(p)[i] \in GlobalPatterns
\* the local definitions a pattern uses: its own references first, then the references of those definitions
RECURSIVE EnvOf(_, _, _, _)
EnvOf(names, i, scopes, acc) ==
  IF i > Len(names) THEN acc
  ELSE LET l == Local(scopes, names[i])
           seen == \E j \in 1..Len(acc) : acc[j].n = names[i]
       IN IF ~l.found \/ seen THEN EnvOf(names, i + 1, scopes, acc)
          ELSE EnvOf(names \o Refs(l.p), i + 1, scopes, Append(acc, [n |-> names[i], p |-> l.p]))
Env(p, scopes) == EnvOf(Refs(p), 1, scopes, <<>>)

Push(scopes) == Append(scopes, <<>>)
Define(scopes, n, p) == [scopes EXCEPT ![Len(scopes)] = Append(@, [n |-> n, p |-> p])]

RECURSIVE AnnE(_, _), AnnSeq(_, _), AnnS(_, _, _, _)
AnnSeq(es, scopes) == [i \in 1..Len(es) |-> AnnE(es[i], scopes)]
AnnE(e, scopes) ==
  CASE e.k = "paren" -> [e EXCEPT !.e = AnnE(e.e, scopes)]
    [] e.k = "un" -> [e EXCEPT !.e = AnnE(e.e, scopes)]
    [] e.k = "bin" -> [e EXCEPT !.l = AnnE(e.l, scopes), !.r = AnnE(e.r, scopes)]
    [] e.k = "list" -> [e EXCEPT !.es = AnnSeq(e.es, scopes)]
    [] e.k = "map" -> [e EXCEPT !.ks = AnnSeq(e.ks, scopes), !.vs = AnnSeq(e.vs, scopes)]
    [] e.k = "idx" -> [e EXCEPT !.is = AnnSeq(e.is, scopes)]
    [] e.k = "attr" -> [e EXCEPT !.o = AnnE(e.o, scopes), !.a = AnnE(e.a, scopes)]
    [] e.k = "slice" -> [e EXCEPT !.o = AnnE(e.o, scopes), !.s = AnnE(e.s, scopes), !.e = AnnE(e.e, scopes), !.st = AnnE(e.st, scopes)]
    [] e.k = "assign" -> [e EXCEPT !.ls = AnnSeq(e.ls, scopes), !.rs = AnnSeq(e.rs, scopes)]
    [] e.k = "call" ->
         LET as == AnnSeq(e.as, scopes)
             pat == IF e.f \in {"grok", "add_pattern"} /\ Len(e.as) >= 2 /\ e.as[2].k = "str" THEN e.as[2].s ELSE <<>>
         IN ([res |-> Resolvable(pat, scopes), env |-> Env(pat, scopes)] @@ [e EXCEPT !.as = as])
    [] OTHER -> e

\* statements ss[i..] under the scope chain; acc = annotated statements so far
AnnS(ss, i, scopes, acc) ==
  IF i > Len(ss) THEN acc
  ELSE LET s == ss[i] IN
  CASE s.k = "if" ->
         LET sc1 == Push(scopes)
             s2 == [s EXCEPT !.cs = AnnSeq(s.cs, sc1),
                             !.bs = [j \in 1..Len(s.bs) |-> AnnS(s.bs[j], 1, Push(sc1), <<>>)],
                             !.eb = AnnS(s.eb, 1, Push(sc1), <<>>)]
         IN AnnS(ss, i + 1, scopes, Append(acc, s2))
    [] s.k = "for" ->
         LET sc1 == Push(scopes)
             s2 == [s EXCEPT !.i = AnnE(s.i, sc1), !.c = AnnE(s.c, sc1), !.p = AnnE(s.p, sc1), !.b = AnnS(s.b, 1, Push(sc1), <<>>)]
         IN AnnS(ss, i + 1, scopes, Append(acc, s2))
    [] s.k = "forin" ->
         LET sc1 == Push(scopes)
             s2 == [s EXCEPT !.it = AnnE(s.it, sc1), !.b = AnnS(s.b, 1, Push(sc1), <<>>)]
         IN AnnS(ss, i + 1, scopes, Append(acc, s2))
    [] OTHER ->
         LET s2 == AnnE(s, scopes)
             def == s.k = "call" /\ s.f = "add_pattern" /\ Len(s.as) = 2 /\ s.as[1].k = "str" /\ s.as[2].k = "str" /\ s2.res
         IN AnnS(ss, i + 1, IF def THEN Define(scopes, s.as[1].s, s.as[2].s) ELSE scopes, Append(acc, s2))
Annotate(ss) == AnnS(ss, 1, <<<<>>>>, <<>>)
=============================================================================
