------------------------------- MODULE BindSig -------------------------------
(* Validation of a declared v2 parameter list (C19, CheckFnParamDef):       *)
(* a left-to-right scanning machine shaped like the code's loop, and the    *)
(* declarative rule it must implement.                                      *)
EXTENDS Integers, Sequences, FiniteSets, TLC, Json

CONSTANTS MaxParams
\* a declared parameter has two independent marks - "has a default" and "variadic"; varopt carries both
Kinds == {"req", "opt", "var", "varopt"}
HasDef(p) == p.kind \in {"opt", "varopt"}
IsVar(p) == p.kind \in {"var", "varopt"}
\* names: three plain ones, a non-ASCII letter (valid), and two invalid identifiers.
\* "uni" stands for the one-letter name U+00E9 (the harness substitutes it): TLC's on-disk state queue
\* does not preserve non-ASCII characters in strings (measured: "\u00e9" came back as "\uffe9").
Names == {"a", "b", "c", "uni", "1x", ""}
ValidName(n) == n \in {"a", "b", "c", "uni"}

Param == [name : Names, kind : Kinds]
ParamLists == UNION {[1..n -> Param] : n \in 0..MaxParams}

(* declarative *)
ValidSig(ps) ==
  /\ \A i \in DOMAIN ps : ValidName(ps[i].name)
  /\ \A i, j \in DOMAIN ps : i # j => ps[i].name # ps[j].name
  /\ \A i, j \in DOMAIN ps : (i < j /\ HasDef(ps[i])) => HasDef(ps[j])            \* required (and variadic) never after optional
  /\ \A i \in DOMAIN ps : IsVar(ps[i]) => i = Len(ps)                             \* variadic only last (hence at most one)
  /\ \A i, j \in DOMAIN ps : ~(IsVar(ps[i]) /\ HasDef(ps[j]))                      \* variadic not mixed with optional - nor itself given a default

(* scanning machine *)
VARIABLES ps, i, optional, variable, seen, verdict
vars == <<ps, i, optional, variable, seen, verdict>>

Init == /\ ps \in ParamLists /\ i = 1 /\ optional = FALSE /\ variable = FALSE /\ seen = {}
        /\ verdict = "scanning"

Reject == verdict' = "invalid" /\ UNCHANGED <<ps, i, optional, variable, seen>>

Scan == /\ verdict = "scanning" /\ i <= Len(ps)
        /\ LET p == ps[i] IN
             IF ~ValidName(p.name) \/ p.name \in seen THEN Reject
             ELSE IF ~HasDef(p) /\ optional THEN Reject
             ELSE IF IsVar(p) /\ (optional \/ HasDef(p) \/ variable \/ i # Len(ps)) THEN Reject
             ELSE /\ seen' = seen \cup {p.name}
                  /\ optional' = (optional \/ HasDef(p))
                  /\ variable' = (variable \/ IsVar(p))
                  /\ i' = i + 1 /\ UNCHANGED <<ps, verdict>>

Done == /\ verdict = "scanning" /\ i > Len(ps)
        /\ verdict' = "valid" /\ UNCHANGED <<ps, i, optional, variable, seen>>

Next == Scan \/ Done
Spec == Init /\ [][Next]_vars

ScanAgrees == verdict # "scanning" => (verdict = "valid") = ValidSig(ps)
Emit == verdict # "scanning" => PrintT("@@" \o ToJson([params |-> ps, valid |-> verdict = "valid"]))
=============================================================================
