--------------------------- MODULE PointKindsProof ---------------------------
(* The index invariants of PointKinds are INDUCTIVE for arbitrary keys and   *)
(* arbitrarily long operation sequences (machine-checked with TLAPS): TLC    *)
(* shows them for 3-4 keys, this proof for every key set.                    *)
EXTENDS PointKinds, TLAPS

ValueKinds == {"int", "float", "bool", "str", "nil", "list", "map", "void", "unconv"}
CastTargets == {"int", "float", "str", "bool"}

PNext == \E k, k2 \in STRING, vk \in ValueKinds, T \in CastTargets :
           \/ AddKey(k, vk) \/ SetTagAny(k) \/ DropKey(k) \/ Rename(k, k2) \/ Cast(k, T) \/ SetMeasDel(k)

\* TagMetaStr (PointKinds) is the strengthening induction needs - found by the first, failed proof attempt: IndexAgrees alone does
\* not say what the index entry of a tag that was given "no value" holds, yet the next write into that tag relies on it.
Inv == IndexAgrees /\ Disjoint /\ FieldTypes /\ TagMetaStr

LEMMA StoredKinds == \A vk \in ValueKinds : StoredK(vk) \in FieldKinds
  BY DEF ValueKinds, StoredK, FieldKinds

PInit == meta = [x \in {} |-> 0] /\ fieldk = [x \in {} |-> 0] /\ tagged = {}      \* the empty point
PSpec == PInit /\ [][PNext]_kvars

THEOREM InitInv == PInit => Inv
  BY DEF PInit, Inv, IndexAgrees, Disjoint, FieldTypes, TagMetaStr

THEOREM Inductive == Inv /\ [PNext]_kvars => Inv'
<1> SUFFICES ASSUME Inv, [PNext]_kvars PROVE Inv'
  OBVIOUS
<1>1. CASE UNCHANGED kvars
  BY <1>1 DEF Inv, IndexAgrees, Disjoint, FieldTypes, TagMetaStr, kvars
<1>2. ASSUME NEW k \in STRING, NEW vk \in ValueKinds, AddKey(k, vk) PROVE Inv'
  BY <1>2, StoredKinds DEF Inv, IndexAgrees, Disjoint, FieldTypes, TagMetaStr, AddKey, SetK, Has, Put, Drop, FieldKinds
<1>3. ASSUME NEW k \in STRING, SetTagAny(k) PROVE Inv'
  BY <1>3 DEF Inv, IndexAgrees, Disjoint, FieldTypes, TagMetaStr, SetTagAny, SetTagK, Put, Drop, FieldKinds
<1>4. ASSUME NEW k \in STRING, DropKey(k) PROVE Inv'
  BY <1>4 DEF Inv, IndexAgrees, Disjoint, FieldTypes, TagMetaStr, DropKey, DeleteK, Same, Has, Put, Drop, kvars
<1>5. ASSUME NEW k \in STRING, NEW k2 \in STRING, Rename(k, k2) PROVE Inv'
  BY <1>5 DEF Inv, IndexAgrees, Disjoint, FieldTypes, TagMetaStr, Rename, Same, Has, Put, Drop, kvars
<1>6. ASSUME NEW k \in STRING, NEW T \in CastTargets, Cast(k, T) PROVE Inv'
  BY <1>6 DEF Inv, IndexAgrees, Disjoint, FieldTypes, TagMetaStr, Cast, SetK, Same, Has, Put, Drop, kvars, CastTargets, StoredK, FieldKinds
<1>7. ASSUME NEW k \in STRING, SetMeasDel(k) PROVE Inv'
  BY <1>7 DEF Inv, IndexAgrees, Disjoint, FieldTypes, TagMetaStr, SetMeasDel, DeleteK, Same, Has, Put, Drop, kvars
<1> QED
  BY <1>1, <1>2, <1>3, <1>4, <1>5, <1>6, <1>7 DEF PNext

THEOREM Safety == PSpec => []Inv
  BY InitInv, Inductive, PTL DEF PSpec
=============================================================================
