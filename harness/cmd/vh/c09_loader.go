package main

import (
	"encoding/json"
	"flag"
	"fmt"
	"math/rand"
	"os"
	"sort"
	"strings"

	"github.com/GuanceCloud/platypus/pkg/ast"
	"github.com/GuanceCloud/platypus/pkg/engine"
	plruntime "github.com/GuanceCloud/platypus/pkg/engine/runtime"
	"github.com/GuanceCloud/platypus/pkg/errchain"
	"github.com/GuanceCloud/platypus/pkg/inimpl/guancecloud/funcs"
)

func init() {
	register("replay-loader", replayLoader)
	register("record-loader", recordLoader)
}

type loaderCfg struct {
	Status map[string]string   `json:"status"`
	Calls  map[string][]string `json:"calls"`
}

// Script text for a model script: call i sits alone on line i at column 2i-1 so that every call
// site has a distinguishable (line, column).
// curShapeOff: 0 = the use calls are the script's top-level statements; 2 = they sit in a loop body two lines further down.
// The replay alternates between the two shapes; expected call-site lines shift by the same amount.
var curShapeOff int

// curColOff: 13 = every use call is the loop clause of an empty-bodied for statement of its own (`for ; false; use(..) {}`): the
// call sits 13 columns further right; 0 otherwise.
var curColOff int
var shapeCounter int

func scriptText(status string, calls []string) string {
	switch status {
	case "parse":
		// unparsable in a different way from set to set: cut after an operator, inside an open block / parenthesis / list / string,
		// an unbalanced closer - what a rejected text leaves in the (pooled) parser must not reach the scripts parsed after it
		return []string{"x = 1 +", "if a {", "x = (1", "x = [1,", "for v in [1] {\nx = 1", "x = \"abc", "x = 1 }", "f(1, {\"k\": [2"}[shapeCounter%8]
	case "check":
		// a check error with a chain of 3 positions (spare capacity in its slice): a shared, not copied,
		// chain would be overwritten by the second script that uses this one
		return "len(len(nosuchfn()))"
	}
	var b strings.Builder
	if curShapeOff == 2 && len(calls) > 0 {
		// the use calls sit in a loop body, after a statement that contains a (never taken) continue: call i is on line i+2
		b.WriteString("for lv in [1] {\nif lv == 2 { continue }\n")
	}
	for i, t := range calls {
		b.WriteString(strings.Repeat(" ", 2*i))
		if curColOff == 13 {
			fmt.Fprintf(&b, "for ; false; use(%q) {}\n", t)
			continue
		}
		fmt.Fprintf(&b, "use(%q)\n", t)
	}
	if len(calls) == 0 {
		// a script that uses nothing: every third set spells it without any statement (a comment, blank lines, a lone separator) -
		// still a script, and a legitimate target of use()
		b.WriteString([]string{"add_key(k, 1)\n", "add_key(k, 1)\n", "# nothing to do\n", "add_key(k, 1)\n", "add_key(k, 1)\n", "\n\n", "add_key(k, 1)\n", "add_key(k, 1)\n", ";\n"}[shapeCounter%9])
	} else if curShapeOff == 2 {
		b.WriteString("}\n")
	}
	return b.String()
}

type lev struct {
	Ev   string   `json:"ev"`
	A    string   `json:"a"`
	B    string   `json:"b"`
	I    int      `json:"i"`
	Path []string `json:"path"`
	On   []string `json:"on"`
	Ret  []string `json:"ret"`
}

func keysOf[V any](m map[string]V) []string {
	r := make([]string, 0, len(m))
	for k := range m {
		r = append(r, k)
	}
	sort.Strings(r)
	return r
}

// installLoaderSink records the linker's hook events (with the projected on-path / resolved state).
func installLoaderSink(evs *[]lev) {
	engine.VerifSink = func(ev string, a ...any) {
		e := lev{Ev: ev}
		var path []string
		var on map[string]struct{}
		var ret map[string]*plruntime.Script
		switch ev {
		case "visit", "cycle", "push", "early", "pop":
			e.A = a[0].(string)
			path, on, ret = a[1].([]string), a[2].(map[string]struct{}), a[3].(map[string]*plruntime.Script)
		case "fail", "bind", "unwind":
			e.A, e.B = a[0].(string), a[1].(string)
			expr, refs := a[2].(*ast.CallExpr), a[3].([]*ast.CallExpr)
			for k, r := range refs {
				if r == expr {
					e.I = k + 1
				}
			}
			path, on, ret = a[4].([]string), a[5].(map[string]struct{}), a[6].(map[string]*plruntime.Script)
		}
		e.Path = append([]string{}, path...)
		e.On = keysOf(on)
		e.Ret = keysOf(ret)
		*evs = append(*evs, e)
	}
}

type loadResult struct {
	order    []string
	accepted map[string]*plruntime.Script
	errs     map[string]error
	evs      []lev
}

// loadSet loads the set through the public API with the given map insertion order.
func loadSet(cfg loaderCfg, insertion []string) loadResult {
	scripts := make(map[string]string, len(insertion))
	for _, n := range insertion {
		scripts[n] = scriptText(cfg.Status[n], cfg.Calls[n])
	}
	disturbChecker() // the verdict on this set must not depend on what was loaded (and rejected) before
	var evs []lev
	installLoaderSink(&evs)
	acc, errs := engine.ParseScript(scripts, funcs.FuncsMap, funcs.FuncsCheckMap)
	engine.VerifSink = nil
	r := loadResult{accepted: acc, errs: errs, evs: evs}
	for _, e := range evs {
		if e.Ev == "visit" {
			r.order = append(r.order, e.A)
		}
	}
	return r
}

type specErrRec struct {
	Root  string  `json:"root"`
	Kind  string  `json:"kind"`
	Name  string  `json:"name"`
	Sites [][]any `json:"sites"`
}

type loaderVec struct {
	loaderCfg
	Order    []string     `json:"order"`
	Accepted []string     `json:"accepted"`
	Errs     []specErrRec `json:"errs"`
	Bind     [][]any      `json:"bind"`
}

func siteOf(s []any) (string, int) {
	return s[0].(string), int(s[1].(float64))
}

// chainProblem compares a rejected root's PosChain with the spec's error (root cause, then call sites).
func chainProblem(e error, want specErrRec) string {
	pe, ok := e.(*errchain.PlError)
	if !ok {
		return fmt.Sprintf("error is %T, not *errchain.PlError", e)
	}
	ch := pe.PosChain
	sites := want.Sites
	var tail []errchain.Position
	switch want.Kind {
	case "missing":
		tail = ch
	case "parse", "check":
		k := 0 // the broken script's own error: one or more positions inside that script
		for k < len(ch) && ch[k].File == want.Name {
			k++
		}
		if k < 1 {
			return fmt.Sprintf("root cause must be %s's own error, chain=%v", want.Name, ch)
		}
		tail = ch[k:]
	case "cycle":
		if len(ch) < 1 {
			return "empty chain"
		}
		s0, i0 := siteOf(sites[0])
		if (ch[0].File != want.Root && ch[0].File != s0) || ch[0].Ln != i0+curShapeOff || ch[0].Col != 2*i0-1+curColOff {
			return fmt.Sprintf("cycle root cause must be the closing call site %s:%d:%d, got %v", s0, i0, 2*i0-1, ch[0])
		}
		tail = ch[1:]
	}
	if len(tail) != len(sites) {
		return fmt.Sprintf("want %d call sites %v, chain=%v", len(sites), sites, ch)
	}
	for k, s := range sites {
		n, i := siteOf(s)
		if tail[k].File != n || tail[k].Ln != i+curShapeOff || tail[k].Col != 2*i-1+curColOff {
			return fmt.Sprintf("call site %d must be %s:%d:%d, chain=%v", k, n, i+curShapeOff, 2*i-1+curColOff, ch)
		}
	}
	return ""
}

// verdictProblems: accepted / rejected per script against the specification (independent of the visit order).
func verdictProblems(v loaderVec, r loadResult) map[string]any {
	bad := map[string]any{}
	wantAcc := map[string]bool{}
	for _, a := range v.Accepted {
		wantAcc[a] = true
	}
	for n := range v.Status {
		_, got := r.accepted[n]
		_, gotErr := r.errs[n]
		if got != wantAcc[n] {
			bad["verdict:"+n] = map[string]any{"want_accepted": wantAcc[n], "got_accepted": got, "err": fmt.Sprint(r.errs[n])}
		}
		if got == gotErr {
			bad["both-or-neither:"+n] = map[string]any{"accepted": got, "err": gotErr}
		}
	}
	return bad
}

func scriptsOf(cfg loaderCfg, names []string) map[string]string {
	out := map[string]string{}
	for _, n := range names {
		out[n] = scriptText(cfg.Status[n], cfg.Calls[n])
	}
	return out
}

func compareLoad(v loaderVec, r loadResult) map[string]any {
	bad := verdictProblems(v, r)
	for _, b := range v.Bind {
		caller, idx, callee := b[0].(string), int(b[1].(float64)), b[2].(string)
		s, ok := r.accepted[caller]
		if !ok {
			continue // binding of a rejected script is not observable by a run
		}
		if idx > len(s.CallRef) {
			bad[fmt.Sprintf("bind:%s:%d", caller, idx)] = "no such call ref"
			continue
		}
		got, _ := s.CallRef[idx-1].PrivateData.(*plruntime.Script)
		if got == nil || got != r.accepted[callee] || got.Name != callee {
			name := "<nil>"
			if got != nil {
				name = got.Name
			}
			bad[fmt.Sprintf("bind:%s:%d", caller, idx)] = map[string]any{"want": callee, "got": name}
		}
	}
	for _, e := range v.Errs {
		ge, ok := r.errs[e.Root]
		if !ok {
			continue // verdict mismatch already reported
		}
		if p := chainProblem(ge, e); p != "" {
			bad["chain:"+e.Root] = p
		}
	}
	return bad
}

func cfgSig(c loaderCfg) string {
	names := keysOf(c.Status)
	var b strings.Builder
	for _, n := range names {
		fmt.Fprintf(&b, "%s[%s]%s;", n, c.Status[n], strings.Join(c.Calls[n], ","))
	}
	return b.String()
}

// replay-loader <vectors.ndjson>: every (script set, visit order) explored by TLC is loaded through
// engine.ParseScript; map insertion order is varied until Go's map iteration produced exactly that
// visit order (observed through the visit hook, never assumed).
func replayLoader(args []string) (any, error) {
	sum := &Summary{Extra: map[string]any{}}
	ordersWanted, ordersSeen, loads, relinks := 0, 0, 0, 0
	err := readNDJSON(args[0], func(raw json.RawMessage) error {
		var v loaderVec
		if err := json.Unmarshal(raw, &v); err != nil {
			return err
		}
		ordersWanted++
		shapeCounter++
		curShapeOff, curColOff = 2*(shapeCounter%2), 0
		if shapeCounter%5 == 4 { // every fifth set: each use call is the loop clause of an empty-bodied for statement
			curShapeOff, curColOff = 0, 13
		}
		defer func() { curShapeOff, curColOff = 0, 0 }()
		// insertion order: wanted visit order first, then the broken scripts
		ins := append([]string{}, v.Order...)
		for _, n := range keysOf(v.Status) {
			if v.Status[n] != "ok" {
				ins = append(ins, n)
			}
		}
		var hit *loadResult
		for try := 0; try < 12*len(ins)+12; try++ {
			rot := try % (len(ins))
			cand := append(append([]string{}, ins[rot:]...), ins[:rot]...)
			r := loadSet(v.loaderCfg, cand)
			loads++
			if strings.Join(r.order, ",") == strings.Join(v.Order, ",") {
				hit = &r
				break
			}
			// whatever order this load took: which scripts are accepted does not depend on it (Loader!OrderIndependent), so the verdicts
			// of EVERY load are judged - also of loads whose visit order is not the wanted one (a script wrongly rejected before linking is
			// never visited, so the wanted order may never show up)
			if bad := verdictProblems(v, r); len(bad) > 0 {
				sum.Evaluations++
				sum.miss("loader-verdicts:"+cfgSig(v.loaderCfg)+"@"+strings.Join(r.order, ","),
					map[string]any{"status": v.Status, "calls": v.Calls, "order_taken": r.order, "scripts": scriptsOf(v.loaderCfg, cand), "bad": bad})
				return nil
			}
		}
		if hit == nil {
			return nil // order not produced by this Go runtime: reported as coverage, never as a violation
		}
		ordersSeen++
		sum.Evaluations++
		if len(v.Order) > 1 {
			sum.Distinct++
		}
		if bad := compareLoad(v, *hit); len(bad) > 0 {
			sum.miss("loader:"+cfgSig(v.loaderCfg)+"@"+strings.Join(v.Order, ","),
				map[string]any{"status": v.Status, "calls": v.Calls, "order": v.Order, "bad": bad})
		}
		// hot reload (Loader with Relink = TRUE): the accepted scripts are linked again through the exported linker, half of them
		// replaced by the objects of a second load of the same texts. Every use() call of every accepted script must then be bound to
		// the object of that name in the set just linked - not to what an earlier link left on the call.
		if len(hit.accepted) >= 2 {
			r2 := loadSet(v.loaderCfg, ins)
			names := keysOf(hit.accepted)
			for flip := 0; flip < 2 && len(r2.accepted) == len(hit.accepted); flip++ {
				mix := map[string]*plruntime.Script{}
				for i, n := range names {
					if (i+flip)%2 == 0 {
						mix[n] = hit.accepted[n]
					} else {
						mix[n] = r2.accepted[n]
					}
				}
				acc, errs := engine.EngineCallRefLinkAndCheck(mix, map[string]error{})
				relinks++
				bad := map[string]any{}
				for _, n := range names {
					s := mix[n]
					if s == nil {
						bad["missing:"+n] = "the second load of the same texts did not accept it"
						continue
					}
					if acc[n] != s || errs[n] != nil {
						bad["verdict:"+n] = fmt.Sprintf("re-linking the accepted scripts: accepted=%v err=%v", acc[n] == s, errs[n])
						continue
					}
					for k, ce := range s.CallRef {
						callee := ""
						if k < len(v.Calls[n]) {
							callee = v.Calls[n][k]
						}
						got, _ := ce.PrivateData.(*plruntime.Script)
						if callee != "" && got != mix[callee] {
							which := "an object that is not in the linked set"
							if got == nil {
								which = "nothing"
							}
							bad[fmt.Sprintf("bind:%s:%d", n, k+1)] = map[string]any{"want": callee + " of the set just linked", "got": which}
						}
					}
				}
				if len(bad) > 0 {
					sum.miss("relink:"+cfgSig(v.loaderCfg)+"@"+strings.Join(v.Order, ",")+fmt.Sprintf("/%d", flip),
						map[string]any{"status": v.Status, "calls": v.Calls, "order": v.Order, "bad": bad,
							"note": "scripts accepted by one load were linked again (engine.EngineCallRefLinkAndCheck) together with objects of a second load of the same texts"})
					break
				}
			}
		}
		sum.sample(map[string]any{"status": v.Status, "calls": v.Calls, "order": v.Order, "accepted": v.Accepted})
		return nil
	})
	sum.Extra["relinks"] = relinks
	sum.Extra["orders_wanted"] = ordersWanted
	sum.Extra["orders_observed"] = ordersSeen
	sum.Extra["loads"] = loads
	return sum, err
}

// record-loader -seed S -n N -scripts K -calls C -out file: random larger sets; one trace per load:
// a "config" line, the hook events, a "done" line with the real verdicts and chains.
func recordLoader(args []string) (any, error) {
	fs := flag.NewFlagSet("record-loader", flag.ContinueOnError)
	seed := fs.Int64("seed", 1, "")
	n := fs.Int("n", 100, "")
	k := fs.Int("scripts", 5, "")
	c := fs.Int("calls", 3, "")
	out := fs.String("out", "", "")
	if err := fs.Parse(args); err != nil {
		return nil, err
	}
	rng := rand.New(rand.NewSource(*seed))
	f, err := os.Create(*out)
	if err != nil {
		return nil, err
	}
	defer f.Close()
	enc := json.NewEncoder(f)
	all := []string{"a", "b", "c", "d", "e", "f"}[:*k]
	type line struct {
		lev
		Status map[string]string   `json:"status"`
		Calls  map[string][]string `json:"calls"`
		Acc    []string            `json:"acc"`
		Chains [][][]any           `json:"chains"`
		Roots  []string            `json:"roots"`
	}
	empty := func() line {
		return line{lev: lev{Path: []string{}, On: []string{}, Ret: []string{}}, Status: map[string]string{"_": ""},
			Calls: map[string][]string{"_": {}}, Acc: []string{}, Chains: [][][]any{}, Roots: []string{}}
	}
	sum := &Summary{}
	events := 0
	for t := 0; t < *n; t++ {
		cfg := loaderCfg{Status: map[string]string{}, Calls: map[string][]string{}}
		for _, s := range all {
			switch rng.Intn(8) {
			case 0:
				cfg.Status[s] = "parse"
			case 1:
				cfg.Status[s] = "check"
			default:
				cfg.Status[s] = "ok"
			}
			cfg.Calls[s] = []string{}
			if cfg.Status[s] == "ok" {
				for j := rng.Intn(*c + 1); j > 0; j-- {
					if rng.Intn(12) == 0 {
						cfg.Calls[s] = append(cfg.Calls[s], "zz")
					} else {
						// bias towards forward edges so that deep acyclic graphs are common
						cfg.Calls[s] = append(cfg.Calls[s], all[rng.Intn(len(all))])
					}
				}
			}
		}
		ins := append([]string{}, all...)
		rng.Shuffle(len(ins), func(i, j int) { ins[i], ins[j] = ins[j], ins[i] })
		r := loadSet(cfg, ins)
		l0 := empty()
		l0.Ev, l0.Status, l0.Calls = "config", map[string]string{}, map[string][]string{}
		for _, s := range []string{"a", "b", "c", "d", "e", "f"} { // the trace spec's Scripts constant
			l0.Status[s], l0.Calls[s] = "parse", []string{}
			if st, ok := cfg.Status[s]; ok {
				l0.Status[s], l0.Calls[s] = st, cfg.Calls[s]
			}
		}
		_ = enc.Encode(l0)
		for _, e := range r.evs {
			l := empty()
			l.lev = e
			if l.Path == nil {
				l.Path = []string{}
			}
			_ = enc.Encode(l)
			events++
		}
		ld := empty()
		ld.Ev = "done"
		ld.Acc = keysOf(r.accepted)
		for _, root := range keysOf(r.errs) {
			if cfg.Status[root] != "ok" {
				continue
			}
			pe, ok := r.errs[root].(*errchain.PlError)
			ch := [][]any{}
			if ok {
				for _, p := range pe.PosChain {
					ch = append(ch, []any{p.File, p.Ln, p.Col})
				}
			}
			ld.Roots = append(ld.Roots, root)
			ld.Chains = append(ld.Chains, ch)
		}
		_ = enc.Encode(ld)
		sum.Evaluations++
		sum.sample(map[string]any{"status": cfg.Status, "calls": cfg.Calls, "visit_order": r.order, "events": len(r.evs)})
	}
	sum.Distinct = sum.Evaluations
	sum.Extra = map[string]any{"events": events}
	return sum, nil
}
