package main

import (
	"encoding/json"
	"fmt"
	"os"
	"os/exec"
	"runtime"
	"runtime/debug"
	"sort"
	"strconv"
	"strings"
	"time"

	"github.com/GuanceCloud/platypus/pkg/engine"
	plruntime "github.com/GuanceCloud/platypus/pkg/engine/runtime"
	"github.com/GuanceCloud/platypus/pkg/engine/runtimev2"
	"github.com/GuanceCloud/platypus/pkg/inimpl/guancecloud/input"
)

func init() {
	register("history-ref", historyRef)
	register("replay-history", replayHistory)
}

type histOp struct {
	progSet
	Kind   string `json:"kind"`
	FireAt int    `json:"fire_at"`
	PtTime string `json:"pt_time"` // "zero": the input point carries the zero time
}

func loadOps(path string) ([]*histOp, error) {
	var ops []*histOp
	err := readNDJSON(path, func(raw json.RawMessage) error {
		o := &histOp{}
		if err := json.Unmarshal(raw, o); err != nil {
			return err
		}
		ops = append(ops, o)
		return nil
	})
	return ops, err
}

// loadedOp: what a load operation leaves behind for later re-runs in the same history
type loadedOp struct {
	v2  *runtimev2.Script
	v1  *plruntime.Script
	err string
}

func loadOp(o *histOp, obs *runObs) (l loadedOp) {
	defer func() {
		if r := recover(); r != nil {
			l.err = fmt.Sprintf("PANIC %v", r)
		}
	}()
	if o.V2 {
		sc, err := engine.ParseV2(o.Main, o.Scripts[o.Main], v2Table(obs))
		if err != nil {
			return loadedOp{err: "load-error: " + err.Error()}
		}
		return loadedOp{v2: sc}
	}
	call, check := v1Tables(obs)
	ok, errs := engine.ParseScript(o.Scripts, call, check)
	if e, bad := errs[o.Main]; bad {
		return loadedOp{err: "load-error: " + e.Error()}
	}
	return loadedOp{v1: ok[o.Main]}
}

// runLoaded runs a loaded script with POOLED objects and renders the outcome canonically (maps sorted), so that two
// outcomes are equal iff their strings are equal.
func runLoaded(o *histOp, l loadedOp, obs *runObs) string {
	var b strings.Builder
	defer func() {
		if r := recover(); r != nil {
			fmt.Fprintf(&b, "PANIC %v", r)
		}
	}()
	if l.err != "" {
		return l.err
	}
	if o.V2 {
		e := l.v2.Run(obs)
		fmt.Fprintf(&b, "run-error: %v\nlog: %v\n", errStr(e), showLog(obs.log))
		return b.String()
	}
	f, err := o.Pt.goFields()
	if err != nil {
		return "bad op: " + err.Error()
	}
	tags := map[string]string{}
	for k, v := range o.Pt.Tags {
		tags[k] = v
	}
	pt := input.GetPoint()
	tn := fixedTime
	if o.PtTime == "zero" {
		tn = time.Time{}
	}
	input.InitPt(pt, o.Pt.Meas, tags, f, tn)
	e := l.v1.Run(pt, obs)
	fmt.Fprintf(&b, "run-error: %v\nlog: %v\nmeas: %q time: %d drop: %v\n", errStr(e), showLog(obs.log), pt.Measurement, pt.Time.UnixNano(), pt.Drop)
	keys := []string{}
	for k := range pt.Fields {
		keys = append(keys, k)
	}
	sort.Strings(keys)
	for _, k := range keys {
		fmt.Fprintf(&b, "field %s=%s\n", k, showVal(pt.Fields[k]))
	}
	keys = keys[:0]
	for k := range pt.Tags {
		keys = append(keys, k)
	}
	sort.Strings(keys)
	for _, k := range keys {
		fmt.Fprintf(&b, "tag %s=%q\n", k, pt.Tags[k])
	}
	keys = keys[:0]
	for k := range pt.Meta {
		keys = append(keys, k)
	}
	sort.Strings(keys)
	for _, k := range keys {
		fmt.Fprintf(&b, "meta %s=%s/%d\n", k, pt.Meta[k].DType, pt.Meta[k].PtFlag)
	}
	input.PutPoint(pt)
	return b.String()
}

// opResult performs one operation: load, and run when it loads.
func opResult(o *histOp) (string, loadedOp, *runObs) {
	obs := &runObs{fireAt: o.FireAt}
	l := loadOp(o, obs)
	return runLoaded(o, l, obs), l, obs
}

func errStr(e any) string {
	if e == nil {
		return "<nil>"
	}
	s := fmt.Sprint(e)
	if s == "<nil>" || strings.HasSuffix(fmt.Sprintf("%T", e), "PlError") && s == "" {
		return "<nil>"
	}
	return s
}

// history-ref <ops.ndjson> <index>: the operation performed FIRST in a fresh process
func historyRef(args []string) (any, error) {
	ops, err := loadOps(args[0])
	if err != nil {
		return nil, err
	}
	i, _ := strconv.Atoi(args[1])
	res, _, _ := opResult(ops[i-1])
	return map[string]any{"op": i, "result": res}, nil
}

// replay-history <ops.ndjson> <histories.ndjson>: every history in this one process, pinned to one P with the
// collector off so that sync.Pool hands every operation the object its predecessor used.
func replayHistory(args []string) (any, error) {
	ops, err := loadOps(args[0])
	if err != nil {
		return nil, err
	}
	self, _ := os.Executable()
	refs := make([]string, len(ops)+1)
	for i := range ops {
		out, err := exec.Command(self, "history-ref", args[0], strconv.Itoa(i+1)).Output()
		if err != nil {
			return nil, fmt.Errorf("reference run of op %d failed: %v", i+1, err)
		}
		var r struct {
			Result string `json:"result"`
		}
		if err := json.Unmarshal(out, &r); err != nil {
			return nil, err
		}
		refs[i+1] = r.Result
	}
	runtime.GOMAXPROCS(1)
	debug.SetGCPercent(-1)
	sum := &Summary{Extra: map[string]any{}}
	nops := 0
	err = readNDJSON(args[1], func(raw json.RawMessage) error {
		var h struct {
			H []int `json:"h"`
		}
		if err := json.Unmarshal(raw, &h); err != nil {
			return err
		}
		sum.Evaluations++
		if len(h.H) > 1 {
			sum.Distinct++
		}
		loaded := map[int]loadedOp{}
		observers := map[int]*runObs{}
		for pos, op := range h.H {
			nops++
			var got string
			base := op
			if op > len(ops) { // re-run of the script an earlier operation of this history loaded
				base = op - len(ops)
				l, was := loaded[base]
				if !was {
					return fmt.Errorf("history %v re-runs operation %d before it was performed", h.H, base)
				}
				obs := observers[base]
				obs.log, obs.polls, obs.atPoll, obs.fireAt = nil, 0, nil, ops[base-1].FireAt
				got = runLoaded(ops[base-1], l, obs)
			} else {
				got, loaded[op], observers[op] = opResult(ops[op-1])
			}
			if got != refs[base] {
				kinds := []string{}
				for _, x := range h.H[:pos+1] {
					if x > len(ops) {
						kinds = append(kinds, "rerun:"+ops[x-len(ops)-1].Kind)
					} else {
						kinds = append(kinds, ops[x-1].Kind)
					}
				}
				sum.miss("history:"+strings.Join(kinds, ">"), map[string]any{"history": h.H[:pos+1], "kinds": kinds,
					"operation": ops[base-1].Scripts, "alone_in_a_fresh_process": refs[base], "after_this_history": got})
				break
			}
		}
		if sum.Evaluations%400 == 0 {
			debug.SetGCPercent(100)
			runtime.GC() // keep memory bounded; pooled objects are dropped here, which is one more history variant
			debug.SetGCPercent(-1)
		}
		return nil
	})
	sum.Extra["operations_executed"] = nops
	kinds := []string{}
	for _, o := range ops {
		kinds = append(kinds, o.Kind)
	}
	sum.sample(map[string]any{"operation_kinds": kinds, "reference_of_op_1": refs[1]})
	return sum, err
}
