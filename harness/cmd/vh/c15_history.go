package main

import (
	"encoding/json"
	"fmt"
	"os"
	"os/exec"
	"runtime"
	"runtime/debug"
	"sort"
	"strconv"
	"strings"

	"github.com/GuanceCloud/platypus/pkg/engine"
	"github.com/GuanceCloud/platypus/pkg/inimpl/guancecloud/input"
)

func init() {
	register("history-ref", historyRef)
	register("replay-history", replayHistory)
}

type histOp struct {
	progSet
	Kind   string `json:"kind"`
	FireAt int    `json:"fire_at"`
}

func loadOps(path string) ([]*histOp, error) {
	var ops []*histOp
	err := readNDJSON(path, func(raw json.RawMessage) error {
		o := &histOp{}
		if err := json.Unmarshal(raw, o); err != nil {
			return err
		}
		ops = append(ops, o)
		return nil
	})
	return ops, err
}

// opResult performs one operation (load, and run when it loads) with POOLED objects and renders the
// outcome canonically (maps sorted), so that two outcomes are equal iff their strings are equal.
func opResult(o *histOp) string {
	var b strings.Builder
	obs := &runObs{fireAt: o.FireAt}
	defer func() {
		if r := recover(); r != nil {
			fmt.Fprintf(&b, "PANIC %v", r)
		}
	}()
	if o.V2 {
		sc, err := engine.ParseV2(o.Main, o.Scripts[o.Main], v2Table(obs))
		if err != nil {
			return "load-error: " + err.Error()
		}
		e := sc.Run(obs)
		fmt.Fprintf(&b, "run-error: %v\nlog: %v\n", errStr(e), showLog(obs.log))
		return b.String()
	}
	call, check := v1Tables(obs)
	ok, errs := engine.ParseScript(o.Scripts, call, check)
	if e, bad := errs[o.Main]; bad {
		return "load-error: " + e.Error()
	}
	f, err := o.Pt.goFields()
	if err != nil {
		return "bad op: " + err.Error()
	}
	tags := map[string]string{}
	for k, v := range o.Pt.Tags {
		tags[k] = v
	}
	pt := input.GetPoint()
	input.InitPt(pt, o.Pt.Meas, tags, f, fixedTime)
	e := ok[o.Main].Run(pt, obs)
	fmt.Fprintf(&b, "run-error: %v\nlog: %v\nmeas: %q time: %d drop: %v\n", errStr(e), showLog(obs.log), pt.Measurement, pt.Time.UnixNano(), pt.Drop)
	keys := []string{}
	for k := range pt.Fields {
		keys = append(keys, k)
	}
	sort.Strings(keys)
	for _, k := range keys {
		fmt.Fprintf(&b, "field %s=%s\n", k, showVal(pt.Fields[k]))
	}
	keys = keys[:0]
	for k := range pt.Tags {
		keys = append(keys, k)
	}
	sort.Strings(keys)
	for _, k := range keys {
		fmt.Fprintf(&b, "tag %s=%q\n", k, pt.Tags[k])
	}
	keys = keys[:0]
	for k := range pt.Meta {
		keys = append(keys, k)
	}
	sort.Strings(keys)
	for _, k := range keys {
		fmt.Fprintf(&b, "meta %s=%s/%d\n", k, pt.Meta[k].DType, pt.Meta[k].PtFlag)
	}
	input.PutPoint(pt)
	return b.String()
}

func errStr(e any) string {
	if e == nil {
		return "<nil>"
	}
	s := fmt.Sprint(e)
	if s == "<nil>" || strings.HasSuffix(fmt.Sprintf("%T", e), "PlError") && s == "" {
		return "<nil>"
	}
	return s
}

// history-ref <ops.ndjson> <index>: the operation performed FIRST in a fresh process
func historyRef(args []string) (any, error) {
	ops, err := loadOps(args[0])
	if err != nil {
		return nil, err
	}
	i, _ := strconv.Atoi(args[1])
	return map[string]any{"op": i, "result": opResult(ops[i-1])}, nil
}

// replay-history <ops.ndjson> <histories.ndjson>: every history in this one process, pinned to one P with the
// collector off so that sync.Pool hands every operation the object its predecessor used.
func replayHistory(args []string) (any, error) {
	ops, err := loadOps(args[0])
	if err != nil {
		return nil, err
	}
	self, _ := os.Executable()
	refs := make([]string, len(ops)+1)
	for i := range ops {
		out, err := exec.Command(self, "history-ref", args[0], strconv.Itoa(i+1)).Output()
		if err != nil {
			return nil, fmt.Errorf("reference run of op %d failed: %v", i+1, err)
		}
		var r struct {
			Result string `json:"result"`
		}
		if err := json.Unmarshal(out, &r); err != nil {
			return nil, err
		}
		refs[i+1] = r.Result
	}
	runtime.GOMAXPROCS(1)
	debug.SetGCPercent(-1)
	sum := &Summary{Extra: map[string]any{}}
	nops := 0
	err = readNDJSON(args[1], func(raw json.RawMessage) error {
		var h struct {
			H []int `json:"h"`
		}
		if err := json.Unmarshal(raw, &h); err != nil {
			return err
		}
		sum.Evaluations++
		if len(h.H) > 1 {
			sum.Distinct++
		}
		for pos, op := range h.H {
			nops++
			got := opResult(ops[op-1])
			if got != refs[op] {
				kinds := []string{}
				for _, x := range h.H[:pos+1] {
					kinds = append(kinds, ops[x-1].Kind)
				}
				sum.miss("history:"+strings.Join(kinds, ">"), map[string]any{"history": h.H[:pos+1], "kinds": kinds,
					"operation": ops[op-1].Scripts, "alone_in_a_fresh_process": refs[op], "after_this_history": got})
				break
			}
		}
		if sum.Evaluations%400 == 0 {
			debug.SetGCPercent(100)
			runtime.GC() // keep memory bounded; pooled objects are dropped here, which is one more history variant
			debug.SetGCPercent(-1)
		}
		return nil
	})
	sum.Extra["operations_executed"] = nops
	kinds := []string{}
	for _, o := range ops {
		kinds = append(kinds, o.Kind)
	}
	sum.sample(map[string]any{"operation_kinds": kinds, "reference_of_op_1": refs[1]})
	return sum, err
}
