"""Literal spellings for the Literals specification (C07)."""
import itertools
import random


def B(s):
    return list(s.encode() if isinstance(s, str) else s)


BASE = [B('"'), B("'"), B("\\"), [10], [0], B("a"), B("g"), B("n"), B("x"), B("u"), B("U"), B("0"), B("7"), B("8"), B("é"), B("世")]
ESCAPES = ["\\u00e9", "\\ud800", "\\udfff", "\\uD7FF", "\\ue000", "\\u00E", "\\U0001F600", "\\U00110000", "\\U0010FFFF", "\\U0000d800", "\\U80000041", "\\UFFFFFFFF", "\\U80000000", "\\Uffffff0a", "\\U7FFFFFFF", "\\UFFFF0041",
           "\\uffff", "\\xFF", "\\U00000041",
           "\\x41", "\\xff", "\\xg1", "\\x4", "\\X41", "\\101", "\\377", "\\400", "\\18", "\\08", "\\7", "\\a", "\\b", "\\f", "\\n", "\\r",
           "\\t", "\\v", "\\\\", "\\'", '\\"', "\\`", "\\e", "\\0", "\\ ", "\\?", "\\u12g4", "\\U0000006"]


def gen_literals(quick, seed):
    rng = random.Random(seed)
    rows = []
    n = 0

    def add(kind, src, tag):
        nonlocal n
        n += 1
        rows.append({"id": "l%d" % n, "kind": kind, "src": src, "tag": tag})

    L = 3 if quick else 4
    for k in range(0, L + 1):
        for combo in itertools.product(BASE, repeat=k):
            body = [b for sym in combo for b in sym]
            for kind in ("dq", "sq"):
                add(kind, body, "quoted string, exhaustive bodies")
    for e in ESCAPES:
        for pre, post in itertools.product(["", "a", "é"], ["", "a", "7", "é"]):
            for kind in ("dq", "sq"):
                add(kind, B(pre + e + post), "escape form in context")
    for e1, e2 in itertools.product(ESCAPES[:12] + ESCAPES[14:20], repeat=2):
        add("dq", B(e1 + e2), "two escapes")
    # raw control / blank characters other than the line feed are ordinary content of a quoted literal (CR, tab, vertical tab, form
    # feed, NEL, line separator), alone and next to an escape
    for ch in ["\r", "\t", "\v", "\f", "\u0085", "\u2028", "\u00a0", "\x7f", "\x1b"]:
        for pre, post in [("", ""), ("a", "b"), ("\\n", ""), ("", "\\t"), ("x", "\\x41y"), ("\r", "\r")]:
            for kind in ("dq", "sq"):
                add(kind, B(pre + ch + post), "raw control / blank characters inside a quoted literal")
    # characters that look special to a decoder FOLLOWED or preceded by an escape (the decoder's fast path ends at the first backslash)
    for ch in ["\ufffd", "\ufeff", "\U0010ffff", "\u0080"]:
        for e in ["\\n", "\\x41", "\\u00e9", "\\\\", "\\101"]:
            for kind in ("dq", "sq"):
                add(kind, B(ch + e), "special but valid character followed by an escape")
                add(kind, B(e + ch), "special but valid character after an escape")
                add(kind, B("a" + ch + "b" + e + ch), "special but valid character around an escape")
    # characters that are valid text but look special to a decoder: U+FFFD (what decoders return for garbage), the byte-order mark,
    # a line separator, a 4-byte rune, the last code point - in every kind of literal
    for ch in ["\ufffd", "\ufeff", "\u2028", "\U0001f600", "\U0010ffff", "\u0080", "\u07ff", "\u0800", "\uffff", "\ud7ff", "\ue000"]:
        for pre, post in (("", ""), ("a", "b"), ("\u00e9", "\n")):
            for kind in ("dq", "sq", "tdq", "tsq", "bq"):
                if post == "\n" and kind in ("dq", "sq", "bq"):
                    continue
                add(kind, B(pre + ch + post), "special but valid characters in every kind of literal")
    raw_alpha = [B('"'), B("'"), B("\\"), [10], B("a"), B("n"), B("`"), B("é"), [0]]
    for k in range(0, 4 if quick else 5):
        for combo in itertools.product(raw_alpha, repeat=k):
            body = [b for sym in combo for b in sym]
            add("tdq", body, "triple double quoted")
            add("tsq", body, "triple single quoted")
            if k <= 3:
                add("bq", body, "back-quoted identifier")
    for spelled in ["'''\"\"\"", "\"\"\"'''", "'''a\"\"\"", "\"\"\"a'''", "'''ab\n\"\"\"", "'\"'a'\"'", "''\"a''\"", "\"''a\"''"]:
        add("tmix", B(spelled), "triple quotes opened and closed with different characters")
    # numbers
    nums = set()
    for p in range(0, 66):
        for d in (-1, 0, 1):
            v = 2 ** p + d
            if v >= 0:
                nums.add(str(v))
                nums.add(hex(v))
                nums.add("0X" + hex(v)[2:].upper())
    for p in range(0, 21):
        for d in (-1, 0, 1):
            v = 10 ** p + d
            if v >= 0:
                nums.add(str(v))
    # hex digits that look like parts of other spellings (e / E as in an exponent, x, leading zeros, mixed case)
    nums |= {"0xe", "0xE", "0x1e5", "0X3E8", "0xdeadbeef", "0xfe", "0x7ffffffffffffffe", "0x123456789abcdef", "0xABCDEF0", "0x0e0", "0x00", "0x1E1",
             "0xe1", "0x1e", "0xeee", "1e1", "1E1", "0e1", "0x1p3", "0x.8"}
    nums |= {"0", "00", "007", "08", "09", "017", "0777", "0x", "0X", "0x0", "0xabcdef", "0xABCDEF", "0x7fffffffffffffff", "0x8000000000000000",
             "0xffffffffffffffff", "0x10000000000000000", "9223372036854775807", "9223372036854775808", "18446744073709551615",
             "18446744073709551617", "9007199254740993", "9007199254740993.0", "9007199254740992.5", "1.5", "5.", "0.1", "0.3", "1e3", "1E3",
             "1e+3", "1e-3", "1.5e10", "123456789012345678901234567890", "1e", "1e+", "1E-", "2.5e", "0.000001", "1e22", "1e23", "4.35",
             "2.2250738585072014e-308", "1.7976931348623157e308", "5e-324", "1e400", "0e0", "0.0", "1e0", "33333333333333333.3"}
    for _ in range(100 if quick else 3000):
        r = rng.random()
        if r < 0.4:
            nums.add(str(rng.getrandbits(rng.randint(1, 70))))
        elif r < 0.6:
            nums.add(hex(rng.getrandbits(rng.randint(1, 68))))
        else:
            m = str(rng.getrandbits(rng.randint(1, 60)))
            cut = rng.randint(0, len(m))
            s = (m[:cut] or "0") + "." + m[cut:]
            if rng.random() < 0.5:
                s += "e%+d" % rng.randint(-30, 30)
            nums.add(s)
    # integers beyond int64 become the NEAREST float64 (one rounding of the exact value, ties to even): values at, just below and
    # just above the half-way point between two doubles, with the decisive bit at every hex-digit position, even and odd mantissas
    for nbits in range(64, 72 if quick else 90):
        k = nbits - 53
        half = 1 << (k - 1)
        for odd in (0, 1):
            m = (1 << 52) | (rng.getrandbits(51) << 1) | odd
            rems = {0, 1, half - 1, half, half + 1, (1 << k) - 1} | {half | (1 << j) for j in range(0, k - 1, 4)} | {half - (1 << j) for j in range(0, k - 1, 4)}
            for r in rems:
                v = (m << k) + r
                nums.add(hex(v))
                nums.add(str(v))
                if not quick:
                    nums.add("0X" + hex(v)[2:].upper())
    # leading zeros never change the base: zero-padded decimal integers within and beyond int64, made of the digits 0-7 only
    # (what an octal reading would accept) and with an 8 or 9 among them, also zero-padded fractions and exponents
    for body in ["1000000000000000000000", "777777777777777777777777", "12345670123456701234567", "9223372036854775808", "1000000000000000000008",
                 "7", "17", "777", "9223372036854775807", "1234567", "100", "10"]:
        for pad in ("0", "00", "0000"):
            nums.add(pad + body)
    nums |= {"01.5", "00.5", "01e2", "0010e-1", "0001", "000", "0e5", "00e0"}
    for _ in range(20 if quick else 300):
        nums.add("0" * rng.randint(1, 3) + "".join(rng.choice("01234567") for _ in range(rng.randint(1, 30))))
    for s in sorted(nums):
        add("num", B(s), "numeric literal")
    import itertools as _it
    for w in ["true", "false", "nil", "null"]:
        for mask in _it.product([0, 1], repeat=len(w)):
            add("kw", B("".join(c.upper() if m else c for c, m in zip(w, mask))), "keyword in every letter case")
    for w in ["tru", "truee", "nill", "nul", "True1", "_true", "fals", "NULLL", "t", "none", "yes"]:
        add("kw", B(w), "a word that is not a keyword")
    return rows
