------------------------------ MODULE HistoryInd ------------------------------
(* Unbounded-length version of History's NoStaleRead, for Apalache: the pooled-object discipline of History.tla without the      *)
(* history variable (which only serves replay) and without MaxLen.  IndInv is inductive: no operation sequence of any length     *)
(* reads a field that still holds the previous user's data.                                                                       *)
EXTENDS Integers, FiniteSets, HistoryTables

\* operation classes: History!Uses maps every operation kind of the pool to one of these sets of objects


Kinds == {"parse", "check", "v2", "run", "rerun"}
\* @type: Str => Set(Str);
Uses(k) == IF k = "parse" THEN {"parser"}
           ELSE IF k = "check" THEN {"parser", "task"}
           ELSE IF k = "v2" THEN {"parser"}
           ELSE IF k = "rerun" THEN {"task", "point"}
           ELSE {"parser", "task", "point"}

VARIABLES
  \* @type: Str -> Set(Str);
  dirty,
  \* @type: Bool;
  stale

Init == dirty = [o \in Objects |-> {}] /\ stale = FALSE

Do(k) ==
  LET used == Uses(k)
      \* @type: Str -> Set(Str);
      afterGet == [o \in Objects |-> IF o \in used THEN (dirty[o] \ ResetOf(o)) \ WritesFirstOf(o) ELSE dirty[o]]
      staleRead == \E o \in used : afterGet[o] \intersect FieldsOf(o) /= {}
  IN /\ stale' = (stale \/ staleRead)
     /\ dirty' = [o \in Objects |-> IF o \in used THEN FieldsOf(o) ELSE dirty[o]]
Next == \E k \in Kinds : Do(k)

NoStaleRead == ~stale

IndInv0 == ~stale /\ \A o \in Objects : dirty[o] \subseteq FieldsOf(o)
IndInv == IndInv0
IndInit == dirty \in [Objects -> SUBSET AllFields] /\ stale \in BOOLEAN /\ IndInv0
=============================================================================
