package main

import (
	"github.com/GuanceCloud/platypus/pkg/engine"
	"github.com/GuanceCloud/platypus/pkg/inimpl/guancecloud/funcs"
	"github.com/GuanceCloud/platypus/pkg/parser"
	"go.uber.org/zap"
)

// The repository's packages log to stdout at debug level by default; the harness owns stdout.
func init() {
	nop := zap.NewNop().Sugar()
	funcs.InitLog(nop)
	parser.InitLog(nop)
}

// disturbTexts: texts the parser rejects (unbalanced brackets of every kind, unterminated literals, rejected operands) or accepts
// in unusual states.  The replay drivers parse one of them before every text they judge, so that a verdict never depends on the
// pooled parser / lexer happening to be fresh: what a text parses to must not depend on what was parsed before it.
var disturbTexts = []string{"f(a", "a)", "x = [1, 2", "x]", "if a {", "}", "\"abc", "x = (1 + ] 2", "-0x", "x = {\"k\": [1, (2", "'''open",
	"`open", "for ;; {", "x = a[1:", "y = 1 +", ")))", "]]", "}}", "x = \"\\x", "a = 1 # c",
	// valid texts that name things like keywords / functions / other tokens (identifier tables, interning, memoised lookups)
	"`in` = 1\n`true` = `in`\n`nil` = `false`", "`if` = `for` + `elif`\n`else` = `break`", "`continue` = `null` + `nan` + `inf`",
	"`len` = 1\n`probe` = `use`", "`a b` = `+`\n`1` = `\"`", "IF = 1\nTrue1 = Nil_", "x = TRUE && False || NIL == NULL"}

var disturbN int

func disturbParser() {
	disturbN++
	_, _ = parser.ParsePipeline("junk.p", disturbTexts[disturbN%len(disturbTexts)])
}

// disturbChecker: before a load whose verdict is judged, load scripts that the check pass rejects at an offender sitting inside
// loop bodies, loop clauses, branches and nested blocks (and one that links to a missing script), on both interpreters: whatever
// the checker keeps between loads (pooled contexts, depth counters, scope stacks) is then in the state an earlier failure left.
var disturbScripts = []string{"for v in [1] { y = nosuchfn() }", "for i = 0; i < 1; i = nosuchfn() { }", "for ;; { for w in [1] { if w { nosuchfn() } } }",
	"if 1 { if 2 { x = len() } }", "for v in [1] { for ;; { add_key() } }", "if 0 { } elif 1 { for v in [1] { grok(_, \"%{NOSUCHPAT:x}\") } }",
	"for v in [1] { break }\nfor ;; { x = [nosuchfn()] }", "add_pattern(\"dp\", \"\\\\d\")\nfor v in [1] { add_pattern(\"dq\", \"%{NOSUCHPAT}\") }",
	// rejected AFTER use() calls were seen (what the check pass collected for linking must not reach the next script)
	"use(\"nowhere.p\")\nnosuchfn()", "if 1 { use(\"junk2.p\") }\nfor ;; { use(\"nowhere.p\")\nlen() }", "use(\"junk.p\")\nbreak"}

var disturbC int

func disturbChecker() {
	disturbC++
	src := disturbScripts[disturbC%len(disturbScripts)]
	_, _ = engine.ParseScript(map[string]string{"junk.p": src, "junk2.p": "use(\"nowhere.p\")"}, funcs.FuncsMap, funcs.FuncsCheckMap)
	_, _ = engine.ParseV2("junk.p", src, v2Table(&runObs{}))
}
