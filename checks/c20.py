"""C20 — the command-line runner reports the point exactly as the script left it."""
import os

from lib import vlib
from checks.common import absorb, tlc_emit

LEVEL = "model_checking"


def run(ck):
    cfg = ("CONSTANT SnapshotBeforeRun = FALSE\nSPECIFICATION Spec\n"
           "INVARIANTS PrintedIsFinal CheckOnly ErrorsInsteadOfOutput OutputUnlessError Emit\nCHECK_DEADLOCK FALSE\n")
    res, rows = tlc_emit(ck, "Cli", cfg, "Cli (all configurations)", workers=4)
    # the named deviation must be caught by the model itself (vacuity guard of PrintedIsFinal)
    dev = vlib.tlc("Cli", cfg.replace("= FALSE", "= TRUE").replace(" Emit", ""), workers=4, timeout=300)
    if dev.invariant != "PrintedIsFinal":
        raise vlib.Broken("the model does not distinguish snapshot-before-run: %s" % dev.out[-800:])
    ck.note("model_detects_snapshot_before_run", True)
    d = vlib.workdir("cli")
    exp = os.path.join(d, "exp.ndjson")
    vlib.write_ndjson(exp, rows)
    binp = vlib.build_cli()
    r = vlib.vh_json(["replay-cli", binp, exp, d], timeout=1200)
    absorb(ck, r, "cli", cmd=None)
    ck.add("traces_validated_against_impl", len(rows))
    ck.cov["exhaustive"] = True
    ck.cov["rule"] = ("every configuration {workspace, single file} x {no input, text, line protocol file starting with a point / with comment lines / with blank lines / whose first "
                      "point has a line break inside a string field (the first POINT is the input)} x {json, lineprotocol} x script kinds "
                      "{no-op, add field, move to tag, set_measurement, default_time, drop message, use() of a sibling, load error, link "
                      "error, run error} is a behaviour of the Cli model (invariants PrintedIsFinal, CheckOnly, ErrorsInsteadOfOutput); each "
                      "is materialised on disk, run through the built `platypus run`, its output parsed back and compared with the library "
                      "API's result for the same script and input and with the model's final point. distinct = configurations.")
    ck.assumptions += ["log line decoration, key order and float formatting are not compared; the time of text inputs is 'now' (30 s slack)",
                       "TZ=UTC for zone-less timestamps"]
