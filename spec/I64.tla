---------------------------------- MODULE I64 ----------------------------------
(* Wrapping signed 64-bit integers ("exact 64-bit (wrapping)" in C02) on top *)
(* of BigNat: [neg, mag], canonical (zero is non-negative, |x| <= 2^63).     *)
(* Division truncates towards zero, the remainder has the dividend's sign   *)
(* (Go semantics); min / -1 wraps to min, min % -1 = 0.                     *)
EXTENDS BigNat

P63 == BnPow2(63)
P64 == BnPow2(64)

IMk(neg, mag) == [neg |-> (neg /\ mag # <<>>), mag |-> mag]
IZero == IMk(FALSE, <<>>)
ISmall(n) == IF n < 0 THEN IMk(TRUE, BnFromInt(0 - n)) ELSE IMk(FALSE, BnFromInt(n))
IMin == IMk(TRUE, P63)
IMax == IMk(FALSE, BnSub(P63, <<1>>))

\* reduce an arbitrary signed magnitude modulo 2^64 into [-2^63, 2^63)
IWrap(neg, mag) ==
  LET m == BnLow(mag, 64)
      u == IF neg /\ m # <<>> THEN BnSub(P64, m) ELSE m
  IN IF BnCmp(u, P63) >= 0 THEN IMk(TRUE, BnSub(P64, u)) ELSE IMk(FALSE, u)

\* exact signed sum of two sign-magnitude numbers (not wrapped)
SAdd(an, am, bn, bm) ==
  IF an = bn THEN [neg |-> an, mag |-> BnAdd(am, bm)]
  ELSE IF BnCmp(am, bm) >= 0 THEN [neg |-> an, mag |-> BnSub(am, bm)]
  ELSE [neg |-> bn, mag |-> BnSub(bm, am)]

IAdd(a, b) == LET s == SAdd(a.neg, a.mag, b.neg, b.mag) IN IWrap(s.neg, s.mag)
INeg(a) == IWrap(~a.neg, a.mag)
ISub(a, b) == LET s == SAdd(a.neg, a.mag, ~b.neg, b.mag) IN IWrap(s.neg, s.mag)
IMul(a, b) == IWrap(a.neg # b.neg, BnMul(a.mag, b.mag))
\* b # 0
IQuo(a, b) == IWrap(a.neg # b.neg, BnDivMod(a.mag, b.mag)[1])
IRem(a, b) == IWrap(a.neg, BnDivMod(a.mag, b.mag)[2])
IIsZero(a) == a.mag = <<>>
\* -1, 0, 1
ICmp(a, b) == IF a.neg /\ ~b.neg THEN -1
              ELSE IF ~a.neg /\ b.neg THEN 1
              ELSE IF a.neg THEN BnCmp(b.mag, a.mag) ELSE BnCmp(a.mag, b.mag)
\* small native view (|x| < 2^30) for indexing
IFits(a) == BnFitsInt(a.mag)
IToInt(a) == IF a.neg THEN 0 - BnToInt(a.mag) ELSE BnToInt(a.mag)
=============================================================================
