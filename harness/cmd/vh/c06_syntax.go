package main

import (
	"encoding/json"
	"fmt"
	"math/rand"
	"strconv"
	"strings"
	"sync"

	"github.com/GuanceCloud/platypus/pkg/ast"
	"github.com/GuanceCloud/platypus/pkg/parser"
	"github.com/GuanceCloud/platypus/pkg/token"
)

func init() { register("replay-syntax", replaySyntax) }

type synTok struct {
	S   string `json:"s"`
	NL  bool   `json:"nl"`
	Sep bool   `json:"sep"`
}

type synRow struct {
	ID    string           `json:"id"`
	Toks  []synTok         `json:"toks"`
	Stmts []map[string]any `json:"stmts"`
	Idem  bool             `json:"idem"`
}

func wordy(c byte) bool {
	return c == '_' || (c >= '0' && c <= '9') || (c >= 'a' && c <= 'z') || (c >= 'A' && c <= 'Z') || c >= 0x80 || c == '.'
}

// layout renders the token list; mode 0 = single blanks, 1 = minimal blanks, >=2 = random admissible layout.
// Returns the text and the byte offset of every token (1-based index like the spec's token indices).
func layout(toks []synTok, mode int, rng *rand.Rand) (string, []int) {
	var b strings.Builder
	offs := make([]int, len(toks)+1)
	blank := func() string {
		switch rng.Intn(5) {
		case 0:
			return ""
		case 1:
			return "  "
		case 2:
			return "\t"
		case 3:
			return " \t "
		}
		return " "
	}
	// a line comment of every shape: empty, one character, a second '#', text with token-like and non-ASCII characters, CRLF-ended
	comment := func() string {
		switch rng.Intn(8) {
		case 0:
			return "#\n"
		case 1:
			return "#\r\n"
		case 2:
			return "##\n"
		case 3:
			return "#x\n"
		case 4:
			return "# \n"
		case 5:
			return "#\n#\n"
		case 6:
			return "# c é\n"
		}
		return "# a comment ; { ( \" é 世\n"
	}
	for i, t := range toks {
		if t.Sep {
			switch {
			case mode < 2:
				b.WriteString("\n")
			default:
				switch rng.Intn(6) {
				case 0:
					b.WriteString(";")
				case 1:
					b.WriteString(" ; ")
				case 2:
					b.WriteString("\n\n")
				case 3:
					b.WriteString(blank() + comment())
				case 4:
					b.WriteString(";\n")
				default:
					b.WriteString("\n")
				}
			}
			offs[i+1] = b.Len()
			continue
		}
		offs[i+1] = b.Len()
		b.WriteString(t.S)
		if i+1 == len(toks) {
			break
		}
		next := toks[i+1]
		if next.Sep {
			if mode >= 2 {
				b.WriteString(blank())
			}
			continue
		}
		need := wordy(t.S[len(t.S)-1]) && wordy(next.S[0])
		// operator characters that would merge into another token
		if strings.ContainsAny(t.S[len(t.S)-1:], "=<>!+-*/%&|") && strings.ContainsAny(next.S[:1], "=&|") {
			need = true
		}
		switch {
		case mode == 0:
			b.WriteString(" ")
		case mode == 1:
			if need {
				b.WriteString(" ")
			}
		default:
			s := blank()
			if need && s == "" {
				s = " "
			}
			b.WriteString(s)
			if t.NL {
				switch rng.Intn(5) {
				case 0:
					b.WriteString("\n")
				case 1:
					b.WriteString("\n\n  ")
				case 2:
					b.WriteString(comment() + blank())
				}
			}
		}
	}
	return b.String(), offs
}

type synCmp struct {
	src  string
	offs []int
	errs []string
}

func (c *synCmp) fail(format string, a ...any) {
	if len(c.errs) < 4 {
		c.errs = append(c.errs, fmt.Sprintf(format, a...))
	}
}

func num(v any) int {
	f, _ := v.(float64)
	return int(f)
}

// pos checks one position field: offset of the spec's token, and line/column of that offset.
func (c *synCmp) pos(what string, got token.LnColPos, tk any) {
	i := num(tk)
	if i <= 0 || i >= len(c.offs) {
		c.fail("%s: spec token index %v out of range", what, tk)
		return
	}
	want := c.offs[i]
	if int(got.Pos) != want {
		c.fail("%s: position %d, token is at %d (%q)", what, got.Pos, want, c.around(want))
		return
	}
	ln, col := 1, 1
	for k := 0; k < want; k++ {
		if c.src[k] == '\n' {
			ln++
			col = 1
		} else {
			col++
		}
	}
	if got.Ln != ln || got.Col != col {
		c.fail("%s: offset %d is %d:%d, tree says %d:%d", what, want, ln, col, got.Ln, got.Col)
	}
}

func (c *synCmp) around(off int) string {
	e := off + 12
	if e > len(c.src) {
		e = len(c.src)
	}
	return c.src[off:e]
}

func (c *synCmp) list(what string, spec any, nodes []*ast.Node) {
	xs, _ := spec.([]any)
	if len(xs) != len(nodes) {
		c.fail("%s: want %d elements, parsed %d", what, len(xs), len(nodes))
		return
	}
	for i := range xs {
		c.node(fmt.Sprintf("%s[%d]", what, i), xs[i].(map[string]any), nodes[i])
	}
}

func (c *synCmp) block(what string, spec any, b *ast.BlockStmt, lb, rb any) {
	if b == nil {
		c.fail("%s: missing block", what)
		return
	}
	c.list(what, spec, b.Stmts)
	c.pos(what+".LBrace", b.LBracePos, lb)
	c.pos(what+".RBrace", b.RBracePos, rb)
}

func (c *synCmp) opt(what string, spec map[string]any, n *ast.Node) {
	if spec["k"] == "none" {
		if n != nil {
			c.fail("%s: want absent, parsed %s", what, n.NodeType)
		}
		return
	}
	c.node(what, spec, n)
}

func (c *synCmp) node(what string, s map[string]any, n *ast.Node) {
	if n == nil {
		c.fail("%s: want %v, parsed nil", what, s["k"])
		return
	}
	k, _ := s["k"].(string)
	want := map[string]ast.NodeType{"id": ast.TypeIdentifier, "str": ast.TypeStringLiteral, "int": ast.TypeIntegerLiteral,
		"float": ast.TypeFloatLiteral, "bool": ast.TypeBoolLiteral, "nil": ast.TypeNilLiteral, "list": ast.TypeListLiteral,
		"map": ast.TypeMapLiteral, "paren": ast.TypeParenExpr, "attr": ast.TypeAttrExpr, "idx": ast.TypeIndexExpr,
		"un": ast.TypeUnaryExpr, "assign": ast.TypeAssignmentExpr, "call": ast.TypeCallExpr, "slice": ast.TypeSliceExpr,
		"if": ast.TypeIfelseStmt, "for": ast.TypeForStmt, "forin": ast.TypeForInStmt, "break": ast.TypeBreakStmt,
		"continue": ast.TypeContinueStmt}
	if k == "bin" {
		op, _ := s["op"].(string)
		switch {
		case op == "in":
			if n.NodeType != ast.TypeInExpr {
				c.fail("%s: want in-expression, parsed %s (%s)", what, n.NodeType, n)
				return
			}
			e := n.InExpr()
			c.node(what+".l", s["l"].(map[string]any), e.LHS)
			c.node(what+".r", s["r"].(map[string]any), e.RHS)
			c.pos(what+".OpPos", e.OpPos, s["optk"])
		case strings.Contains("+ - * / %", op):
			if n.NodeType != ast.TypeArithmeticExpr || string(n.ArithmeticExpr().Op) != op {
				c.fail("%s: want arithmetic %s, parsed %s (%s)", what, op, n.NodeType, n)
				return
			}
			e := n.ArithmeticExpr()
			c.node(what+".l", s["l"].(map[string]any), e.LHS)
			c.node(what+".r", s["r"].(map[string]any), e.RHS)
			c.pos(what+".OpPos", e.OpPos, s["optk"])
		default:
			if n.NodeType != ast.TypeConditionalExpr || string(n.ConditionalExpr().Op) != op {
				c.fail("%s: want conditional %s, parsed %s (%s)", what, op, n.NodeType, n)
				return
			}
			e := n.ConditionalExpr()
			c.node(what+".l", s["l"].(map[string]any), e.LHS)
			c.node(what+".r", s["r"].(map[string]any), e.RHS)
			c.pos(what+".OpPos", e.OpPos, s["optk"])
		}
		if sp := n.StartPos(); sp == token.InvalidLnColPos {
			c.fail("%s: StartPos() is invalid", what)
		}
		return
	}
	if n.NodeType != want[k] {
		c.fail("%s: want %s, parsed %s (%s)", what, k, n.NodeType, n)
		return
	}
	switch k {
	case "id":
		if n.Identifier().Name != s["n"] {
			c.fail("%s: identifier %q, want %v", what, n.Identifier().Name, s["n"])
		}
		c.pos(what+".Start", n.Identifier().Start, s["tk"])
	case "int":
		w, _ := strconv.ParseInt(s["val"].(string), 10, 64)
		if n.IntegerLiteral().Val != w {
			c.fail("%s: int %d, want %d", what, n.IntegerLiteral().Val, w)
		}
		c.pos(what+".Start", n.IntegerLiteral().Start, s["tk"])
	case "float":
		w, _ := strconv.ParseFloat(s["val"].(string), 64)
		if n.FloatLiteral().Val != w {
			c.fail("%s: float %v, want %v", what, n.FloatLiteral().Val, w)
		}
		c.pos(what+".Start", n.FloatLiteral().Start, s["tk"])
	case "str":
		if n.StringLiteral().Val != specBytes(s["s"]) {
			c.fail("%s: string %q, want %q", what, n.StringLiteral().Val, specBytes(s["s"]))
		}
		c.pos(what+".Start", n.StringLiteral().Start, s["tk"])
	case "bool":
		if n.BoolLiteral().Val != s["b"].(bool) {
			c.fail("%s: bool %v", what, n.BoolLiteral().Val)
		}
		c.pos(what+".Start", n.BoolLiteral().Start, s["tk"])
	case "nil":
		c.pos(what+".Start", n.NilLiteral().Start, s["tk"])
	case "list":
		c.list(what, s["es"], n.ListLiteral().List)
		c.pos(what+".LBracket", n.ListLiteral().LBracket, s["lbtk"])
		c.pos(what+".RBracket", n.ListLiteral().RBracket, s["rbtk"])
	case "map":
		ks, _ := s["ks"].([]any)
		vs, _ := s["vs"].([]any)
		kv := n.MapLiteral().KeyValeList
		if len(kv) != len(ks) {
			c.fail("%s: map with %d pairs, want %d", what, len(kv), len(ks))
			return
		}
		for i := range ks {
			c.node(fmt.Sprintf("%s.k%d", what, i), ks[i].(map[string]any), kv[i][0])
			c.node(fmt.Sprintf("%s.v%d", what, i), vs[i].(map[string]any), kv[i][1])
		}
		c.pos(what+".LBrace", n.MapLiteral().LBrace, s["lbtk"])
		c.pos(what+".RBrace", n.MapLiteral().RBrace, s["rbtk"])
	case "paren":
		c.node(what+".e", s["e"].(map[string]any), n.ParenExpr().Param)
		c.pos(what+".LParen", n.ParenExpr().LParen, s["lptk"])
		c.pos(what+".RParen", n.ParenExpr().RParen, s["rptk"])
	case "attr":
		parts, _ := s["parts"].([]any)
		names := []string{}
		for _, p := range parts {
			names = append(names, p.(string))
		}
		if n.AttrExpr().String() != strings.Join(names, ".") {
			c.fail("%s: attribute chain %q, want %q", what, n.AttrExpr().String(), strings.Join(names, "."))
		}
		c.pos(what+".Start", n.AttrExpr().Start, s["tk"])
		c.pos(what+".StartPos()", n.StartPos(), s["tk"])
	case "idx":
		e := n.IndexExpr()
		if e.Obj == nil || e.Obj.Name != s["n"] {
			c.fail("%s: index object mismatch", what)
			return
		}
		c.list(what+".is", s["is"], e.Index)
		c.pos(what+".Obj.Start", e.Obj.Start, s["objtk"])
		lbs, _ := s["lbtks"].([]any)
		rbs, _ := s["rbtks"].([]any)
		if len(lbs) == len(e.LBracket) && len(rbs) == len(e.RBracket) {
			for i := range lbs {
				c.pos(fmt.Sprintf("%s.LBracket[%d]", what, i), e.LBracket[i], lbs[i])
				c.pos(fmt.Sprintf("%s.RBracket[%d]", what, i), e.RBracket[i], rbs[i])
			}
		} else {
			c.fail("%s: bracket position lists have %d/%d entries, want %d", what, len(e.LBracket), len(e.RBracket), len(lbs))
		}
	case "un":
		e := n.UnaryExpr()
		if string(e.Op) != s["op"] {
			c.fail("%s: unary %s, want %v", what, e.Op, s["op"])
		}
		c.node(what+".e", s["e"].(map[string]any), e.RHS)
		c.pos(what+".OpPos", e.OpPos, s["optk"])
	case "assign":
		e := n.AssignmentExpr()
		if string(e.Op) != s["op"] {
			c.fail("%s: assignment op %s, want %v", what, e.Op, s["op"])
		}
		c.list(what+".ls", s["ls"], e.LHS)
		c.list(what+".rs", s["rs"], e.RHS)
		c.pos(what+".OpPos", e.OpPos, s["optk"])
	case "call":
		e := n.CallExpr()
		if e.Name != s["f"] {
			c.fail("%s: call of %q, want %v", what, e.Name, s["f"])
		}
		c.list(what+".as", s["as"], e.Param)
		c.pos(what+".NamePos", e.NamePos, s["nametk"])
		c.pos(what+".LParen", e.LParen, s["lptk"])
		c.pos(what+".RParen", e.RParen, s["rptk"])
	case "slice":
		e := n.SliceExpr()
		c.node(what+".o", s["o"].(map[string]any), e.Obj)
		c.opt(what+".s", s["s"].(map[string]any), e.Start)
		c.opt(what+".e", s["e"].(map[string]any), e.End)
		c.opt(what+".st", s["st"].(map[string]any), e.Step)
		if e.Colon2 != s["c2"].(bool) {
			c.fail("%s: Colon2 %v", what, e.Colon2)
		}
		c.pos(what+".LBracket", e.LBracket, s["lbtk"])
		c.pos(what+".RBracket", e.RBracket, s["rbtk"])
	case "if":
		e := n.IfelseStmt()
		cs, _ := s["cs"].([]any)
		bs, _ := s["bs"].([]any)
		iftks, _ := s["iftks"].([]any)
		lbs, _ := s["lbs"].([]any)
		rbs, _ := s["rbs"].([]any)
		if len(e.IfList) != len(cs) {
			c.fail("%s: %d branches, want %d", what, len(e.IfList), len(cs))
			return
		}
		for i := range cs {
			c.node(fmt.Sprintf("%s.c%d", what, i), cs[i].(map[string]any), e.IfList[i].Condition)
			c.block(fmt.Sprintf("%s.b%d", what, i), bs[i], e.IfList[i].Block, lbs[i], rbs[i])
			c.pos(fmt.Sprintf("%s.if%d.Start", what, i), e.IfList[i].Start, iftks[i])
		}
		if s["he"].(bool) {
			c.block(what+".else", s["eb"], e.Else, s["elb"], s["erb"])
			c.pos(what+".ElsePos", e.ElsePos, s["elsetk"])
		} else if e.Else != nil {
			c.fail("%s: unexpected else", what)
		}
		c.pos(what+".StartPos()", n.StartPos(), iftks[0])
	case "for":
		e := n.ForStmt()
		c.opt(what+".i", s["i"].(map[string]any), e.Init)
		c.opt(what+".c", s["c"].(map[string]any), e.Cond)
		c.opt(what+".p", s["p"].(map[string]any), e.Loop)
		c.block(what+".b", s["b"], e.Body, s["lb"], s["rb"])
		c.pos(what+".ForPos", e.ForPos, s["fortk"])
	case "forin":
		e := n.ForInStmt()
		if e.Varb == nil || e.Varb.NodeType != ast.TypeIdentifier || e.Varb.Identifier().Name != s["v"] {
			c.fail("%s: loop variable mismatch", what)
		} else {
			c.pos(what+".Varb.Start", e.Varb.Identifier().Start, s["vartk"])
		}
		c.node(what+".it", s["it"].(map[string]any), e.Iter)
		c.block(what+".b", s["b"], e.Body, s["lb"], s["rb"])
		c.pos(what+".ForPos", e.ForPos, s["fortk"])
		c.pos(what+".InPos", e.InPos, s["intk"])
	case "break":
		c.pos(what+".Start", n.BreakStmt().Start, s["tk"])
	case "continue":
		c.pos(what+".Start", n.ContinueStmt().Start, s["tk"])
	}
}

// replay-syntax <rows.ndjson> -layouts N -seed S
func replaySyntax(args []string) (any, error) {
	layouts, seed := 6, int64(1)
	for i := 1; i+1 < len(args); i += 2 {
		v, _ := strconv.Atoi(args[i+1])
		switch args[i] {
		case "-layouts":
			layouts = v
		case "-seed":
			seed = int64(v)
		}
	}
	rng := rand.New(rand.NewSource(seed))
	sum := &Summary{Extra: map[string]any{}}
	texts := 0
	var again [][2]string
	err := readNDJSON(args[0], func(raw json.RawMessage) error {
		var row synRow
		if err := json.Unmarshal(raw, &row); err != nil {
			return err
		}
		sum.Distinct++
		for mode := 0; mode < 2+layouts; mode++ {
			text, offs := layout(row.Toks, mode, rng)
			texts++
			sum.Evaluations++
			disturbParser()
			ss, perr := parser.ParsePipeline("t.p", text)
			sig := "syntax:" + row.ID + ":" + text
			if len(sig) > 300 {
				sig = sig[:300]
			}
			if perr != nil {
				sum.miss(sig, map[string]any{"text": text, "layout_mode": mode, "parse_error": perr.Error(),
					"note": "text of a tree written with the parentheses the table requires, laid out at admissible places"})
				break
			}
			c := &synCmp{src: text, offs: offs}
			if len(ss) != len(row.Stmts) {
				c.fail("want %d statements, parsed %d", len(row.Stmts), len(ss))
			} else {
				for i := range ss {
					c.node(fmt.Sprintf("stmt%d", i), row.Stmts[i], ss[i])
				}
			}
			if len(c.errs) > 0 {
				sum.miss(sig, map[string]any{"text": text, "layout_mode": mode, "problems": c.errs})
				break
			}
			if mode == 0 {
				sum.sample(map[string]any{"text": text})
			}
			if texts%7 == 0 && len(again) < 4000 {
				again = append(again, [2]string{text, parseRender("t.p", text)})
			}
		}
		return nil
	})
	// the same texts once more, several at a time (a host loads scripts from many goroutines) and with rejected texts in between:
	// a text parses to the tree it parsed to alone
	for at := 0; at < len(again); at += 8 {
		end := at + 8
		if end > len(again) {
			end = len(again)
		}
		disturbParser()
		got := make([]string, end-at)
		var wg sync.WaitGroup
		for i := at; i < end; i++ {
			wg.Add(1)
			go func(i int) {
				defer wg.Done()
				defer func() {
					if r := recover(); r != nil {
						got[i-at] = fmt.Sprintf("panic: %v", r)
					}
				}()
				if i%3 == 0 {
					_, _ = parser.ParsePipeline("junk.p", disturbTexts[i%len(disturbTexts)])
				}
				got[i-at] = parseRender("t.p", again[i][0])
			}(i)
		}
		wg.Wait()
		for i := at; i < end; i++ {
			sum.Evaluations++
			if got[i-at] != again[i][1] {
				sig := "syntax-overlapping:" + again[i][0]
				if len(sig) > 300 {
					sig = sig[:300]
				}
				sum.miss(sig, map[string]any{"text": again[i][0], "alone": again[i][1], "among_overlapping_parses": got[i-at]})
			}
		}
	}
	sum.Extra["texts_parsed"] = texts
	sum.Extra["texts_parsed_again_overlapping"] = len(again)
	return sum, err
}
